"""C16 demo: read_asdf on a light-cone particle file whose header has no 'SimSet' key.

The header below carries the keys of the repository's own example simulation
(tests/Mini_N64_L32: NLightCones = 3, ParticleSubsampleA/B set, and NO SimSet
parameter), with OutputType = 'LightCone' as written for light-cone outputs.
Property C16 quantifies over light-cone and snapshot headers; read_asdf must
return the decoded columns with the file header as metadata.  Unmodified code:
KeyError: 'SimSet' (read_abacus.py, `if header['SimSet'] == 'AbacusSummit'`).
Exit status: 0 = property holds on these inputs, 1 = violated.
Run with cwd=/repo.
"""
import os, sys, tempfile, types
sys.path.insert(0, os.getcwd())
sys.modules.setdefault('blosc', types.ModuleType('blosc'))
import numpy as np
import asdf
import abacusnbody
from abacusnbody.data.asdf import AbacusExtension
asdf.get_config().add_extension(AbacusExtension())
from abacusnbody.data.read_abacus import read_asdf

print('package:', abacusnbody.__file__)
rng = np.random.default_rng(16)
N = 25
ints = rng.integers(-2**31, 2**31, size=(N, 3), dtype=np.int64).astype(np.int32)
aux = rng.integers(0, 2**63, size=N, dtype=np.int64).astype(np.uint64)

BASE = dict(BoxSize=32.0, ppd=64.0, VelZSpace_to_kms=3200.0, NP=262144,
            ParticleSubsampleA=0.03, ParticleSubsampleB=0.07, SimName='Mini_N64_L32')
tmp = tempfile.mkdtemp()
bad = 0
for outtype in ('TimeSlice', 'LightCone'):
    hdr = dict(BASE, OutputType=outtype)           # no 'SimSet', as in Mini_N64_L32
    for cn, arr, load in (('rvint', ints, ('pos', 'vel')), ('packedpid', aux, ('pid', 'aux'))):
        fn = os.path.join(tmp, f'{outtype}_{cn}.asdf')
        asdf.AsdfFile({'data': {cn: arr}, 'header': hdr}).write_to(fn)
        for ld in (None, load):
            try:
                t = read_asdf(fn, load=ld, verbose=False)
            except Exception as e:
                print(f'VIOLATION {outtype:9s} {cn:9s} load={ld}: raised {type(e).__name__}: {e}')
                bad += 1
                continue
            ok = len(t) == N and dict(t.meta) == hdr
            if cn == 'rvint':
                i64 = ints.astype(np.int64)
                ok &= np.array_equal(t['pos'], ((i64 >> 12) * (32.0 / 1e6)).astype(np.float32))
                ok &= np.array_equal(t['vel'], (((i64 & 0xFFF) - 2048) * (6000.0 / 2048)).astype(np.float32))
            else:
                ok &= np.array_equal(t['pid'], (aux & np.uint64(0x7FFF7FFF7FFF)).astype(np.int64))
            print(f'{"ok" if ok else "VIOLATION"} {outtype:9s} {cn:9s} load={ld}: {t.colnames}, {len(t)} rows')
            bad += not ok
print('violations:', bad)
sys.exit(1 if bad else 0)
