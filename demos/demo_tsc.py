"""F2: default npartition == n1d//2 lets concurrently processed stripes share a grid row.
F3: odd npartition with one thread reads starts[npartition+1].
F13: a (n,n,1) grid makes _tsc_scatter index axis 2 out of bounds."""
import sys
sys.path.insert(0, '/repo')
import numpy as np
from abacusnbody.analysis import tsc

box, n = 8.0, 8
pos = np.array([[1.9, 4, 4], [4.1, 4, 4]], dtype=np.float32)
n1d, nthread = 8, 4
npart = 2 * ((n1d // 2) // 2)  # what tsc_parallel's default computes for (8, 4)
accepted = not (npart > n1d // 3 and npart != n1d // 2)
print(f'F2: default npartition for n1d={n1d}, nthread={nthread}: {npart}; accepted={accepted}')
pp, starts, _ = tsc.partition_parallel(pos, npart, box, nthread=nthread)
rows = []
for s in (0, 2):  # both processed in the first (even) phase
    g = np.zeros((n, n, n), np.float32)
    tsc._tsc_scatter.py_func(pp[starts[s]:starts[s + 1]], g, box)
    rows.append(set(np.nonzero(g.sum(axis=(1, 2)))[0].tolist()))
print('F2: rows written by stripe 0', rows[0], 'by stripe 2', rows[1], 'shared', rows[0] & rows[1])

g = np.zeros((9, 9, 9), np.float32)
pp, starts, _ = tsc.partition_parallel(pos, 3, box, nthread=1)
try:
    tsc._tsc_parallel.py_func(pp, starts, g, box, None, 0.0)
    print('F3: no error')
except Exception as e:
    print('F3: odd npartition, one thread (interpreted):', type(e).__name__, e)

g = np.zeros((8, 8, 1), np.float32)
try:
    tsc._tsc_scatter.py_func(np.array([[1.9, 4, 7.9]], np.float32), g, box)
    print('F13: no error')
except Exception as e:
    print('F13: (8,8,1) grid (interpreted):', type(e).__name__, e)
