import sys, types, os, tempfile, shutil
sys.path.insert(0, '/repo')
from pathlib import Path
import numpy as np
_b = types.ModuleType('blosc')
_b.set_nthreads = lambda n: None
sys.modules['blosc'] = _b
import asdf
try:
    import abacusnbody.data.asdf as _aa
    asdf.get_config().add_extension(_aa.AbacusExtension())
except Exception as e:
    print('ext reg', e)
import abacusnbody
assert abacusnbody.__file__.startswith('/repo'), abacusnbody.__file__
from abacusnbody.data import compaso_halo_catalog as chc
from abacusnbody.data.compaso_halo_catalog import CompaSOHaloCatalog

COMS = ['_com', '_L2com']

def make_raw(N, rng, overrides=None, lc=False):
    raw = {}
    raw['id'] = np.arange(N, dtype=np.uint64) + 1000
    for k in ['npstartA', 'npstartB']:
        raw[k] = rng.integers(0, 2**40, N).astype(np.uint64)
    for k in ['npoutA', 'npoutB', 'ntaggedA', 'ntaggedB', 'N', 'L0_N']:
        raw[k] = rng.integers(0, 2**32, N).astype(np.uint32)
    raw['L2_N'] = rng.integers(0, 2**32, (N, 5)).astype(np.uint32)
    for com in COMS:
        raw['x' + com] = (rng.random((N, 3)) - 0.5).astype(np.float32)
        raw['v' + com] = (rng.normal(size=(N, 3)) * 1e-3).astype(np.float32)
        for k in ['sigmav3d', 'meanSpeed', 'sigmav3d_r50', 'meanSpeed_r50', 'vcirc_max']:
            raw[k + com] = (rng.random(N) * 1e-3).astype(np.float32)
        raw['r100' + com] = (rng.random(N) * 1e-3).astype(np.float32)
        for k in ['sigmavMin', 'sigmavMax', 'sigmavrad', 'sigmavtan']:
            raw[k + '_to_sigmav3d' + com + '_i16'] = rng.integers(0, 20000, N).astype(np.int16)
        for k in ['r10', 'r25', 'r33', 'r50', 'r67', 'r75', 'r90', 'r95', 'r98', 'rvcirc_max']:
            raw[k + com + '_i16'] = rng.integers(-32768, 32768, N).astype(np.int16)
        for k in ['sigmar', 'sigman']:
            raw[k + com + '_i16'] = rng.integers(-32768, 32768, (N, 3)).astype(np.int16)
        for k in ['sigmar', 'sigman', 'sigmav']:
            raw[k + '_eigenvecs' + com + '_u16'] = rng.integers(0, 45 * 121 * 12, N).astype(np.uint16)
    raw['SO_central_particle'] = (rng.random((N, 3)) - 0.5).astype(np.float32)
    raw['SO_central_density'] = rng.random(N).astype(np.float32) * 100
    raw['SO_radius'] = rng.random(N).astype(np.float32) * 1e-3
    raw['SO_L2max_central_particle'] = (rng.random((N, 3)) - 0.5).astype(np.float32)
    raw['SO_L2max_central_density'] = rng.random(N).astype(np.float32) * 100
    raw['SO_L2max_radius'] = rng.random(N).astype(np.float32) * 1e-3
    if lc:
        raw['N_interp'] = rng.integers(0, 2**32, N).astype(np.uint32)
        raw['index_halo'] = rng.integers(0, 2**40, N).astype(np.int64)
        raw['origin'] = rng.integers(0, 3, N).astype(np.int8)
        for k in ['pos_avg', 'pos_interp', 'vel_avg', 'vel_interp']:
            raw[k] = rng.normal(size=(N, 3)).astype(np.float32) * 100
        raw['redshift_interp'] = rng.random(N).astype(np.float32)
    if overrides:
        for k, v in overrides.items():
            raw[k] = np.asarray(v, dtype=raw[k].dtype).reshape(raw[k].shape)
    return raw

def make_clean(N, rng, nprev=3):
    c = {}
    c['npstartA_merge'] = rng.integers(0, 2**40, N).astype(np.int64)
    c['npstartB_merge'] = rng.integers(0, 2**40, N).astype(np.int64)
    c['npoutA_merge'] = rng.integers(0, 2**32, N).astype(np.uint32)
    c['npoutB_merge'] = rng.integers(0, 2**32, N).astype(np.uint32)
    c['N_total'] = rng.integers(0, 2**32, N).astype(np.uint32)
    c['N_merge'] = rng.integers(0, 2**32, N).astype(np.uint32)
    c['haloindex'] = rng.integers(0, 2**40, N).astype(np.uint64)
    c['is_merged_to'] = rng.integers(-1, 2**40, N).astype(np.int64)
    c['N_mainprog'] = rng.integers(0, 2**32, (N, nprev)).astype(np.uint32)
    c['vcirc_max_L2com_mainprog'] = rng.random((N, nprev)).astype(np.float32)
    c['sigmav3d_L2com_mainprog'] = rng.random((N, nprev)).astype(np.float32)
    c['haloindex_mainprog'] = rng.integers(0, 2**40, N).astype(np.int64)
    c['v_L2com_mainprog'] = rng.normal(size=(N, 3)).astype(np.float32)
    return c

def header(box=2000., vz=123456.789, **kw):
    h = dict(BoxSize=box, VelZSpace_to_kms=vz, SimName='Synth', Redshift=0.5, ppd=64)
    h.update(kw)
    return h

def write_af(fn, data, hdr):
    fn = Path(fn)
    fn.parent.mkdir(parents=True, exist_ok=True)
    af = asdf.AsdfFile({'data': {k: np.ascontiguousarray(v) for k, v in data.items()}, 'header': dict(hdr)})
    af.write_to(fn, all_array_storage='internal', all_array_compression=None)

def make_sim(root, raws, hdr, cleans=None, nprev=3):
    """raws: list of raw dicts, one per superslab. returns halos dir"""
    root = Path(root)
    zdir = root / 'Synth' / 'halos' / 'z0.500'
    for i, raw in enumerate(raws):
        write_af(zdir / 'halo_info' / f'halo_info_{i:03d}.asdf', raw, hdr)
    if cleans is not None:
        ch = dict(hdr)
        ch['TimeSliceRedshiftsPrev'] = list(np.linspace(0.6, 1.0, nprev))
        for i, c in enumerate(cleans):
            write_af(root / 'cleaning' / 'Synth' / 'z0.500' / 'cleaned_halo_info' / f'cleaned_halo_info_{i:03d}.asdf', c, ch)
    return zdir

def make_lc(root, raw, hdr, zname='z0.500'):
    root = Path(root)
    d = root / 'halo_light_cones' / 'Synth' / zname
    write_af(d / 'lc_halo_info.asdf', raw, hdr)
    write_af(d / 'lc_pid_rv.asdf', dict(pos=np.zeros((1,3),'f4'), vel=np.zeros((1,3),'f4'), pid=np.zeros(1,'i8')), hdr)
    return d
