import numpy as np, re
COMS = ['_com', '_L2com']
def expected(field, raw, clean, box, vz, lc=False):
    """float64 oracle from the property text. returns (array, kind)"""
    f8 = lambda a: np.asarray(a, dtype=np.float64)
    m = re.fullmatch(r'(.*?)(_com|_L2com)', field)
    if m:
        stem, com = m[1], m[2]
        if stem in ('x', 'r100'):
            return f8(raw[field]) * box, 'len'
        if stem in ('v', 'sigmav3d', 'meanSpeed', 'sigmav3d_r50', 'meanSpeed_r50', 'vcirc_max'):
            return f8(raw[field]) * vz, 'vel'
        if re.fullmatch(r'r\d\d|rvcirc_max', stem):
            return f8(raw[field + '_i16']) / 32000 * f8(raw['r100' + com]) * box, 'len'
        if stem == 'sigmar':
            return f8(raw[field + '_i16']) / 32000 * f8(raw['r100' + com])[:, None] * box, 'len'
        if stem == 'sigman':
            return f8(raw[field + '_i16']) / 32000 * box, 'len'
        if stem in ('sigmavMin', 'sigmavMaj', 'sigmavrad', 'sigmavtan'):
            s = stem.replace('Maj', 'Max')
            return f8(raw[s + '_to_sigmav3d' + com + '_i16']) / 32000 * f8(raw['sigmav3d' + com]) * vz, 'vel'
        if stem == 'sigmavMid':
            s3 = f8(raw['sigmav3d' + com]) * vz
            mn = f8(raw['sigmavMin_to_sigmav3d' + com + '_i16']) / 32000 * s3
            mx = f8(raw['sigmavMax_to_sigmav3d' + com + '_i16']) / 32000 * s3
            return np.sqrt(np.maximum(s3**2 - mn**2 - mx**2, 0)), 'velmid'
        if 'eigenvecs' in stem:
            return None, 'eig'
    if field in ('SO_central_particle', 'SO_radius', 'SO_L2max_central_particle', 'SO_L2max_radius'):
        return f8(raw[field]) * box, 'len'
    if field in ('SO_central_density', 'SO_L2max_central_density'):
        return raw[field], 'same'
    if clean is not None and field in clean:
        return clean[field], 'same'
    if field == 'N' and clean is not None:
        return clean['N_total'], 'same'
    if lc and field in ('pos_interp', 'vel_interp'):
        avail = np.any(raw['pos_avg'], axis=1)
        pv = field[:3]
        return np.where(avail[:, None], raw[pv + '_avg'], raw[pv + '_interp']), 'same'
    if lc and field == 'origin':
        return raw[field] % 3, 'same'
    return raw[field], 'same'

def compare(halos, raw, clean, box, vz, lc=False, rtol=3e-6, label=''):
    bad = []
    for f in halos.colnames:
        exp, kind = expected(f, raw, clean, box, vz, lc)
        got = np.asarray(halos[f])
        if kind == 'eig':
            continue
        if kind == 'same':
            if got.dtype != np.asarray(exp).dtype or not np.array_equal(got, exp, equal_nan=True):
                bad.append((f, kind, 'not identical', got.dtype, np.asarray(exp).dtype))
            continue
        if got.dtype != np.float32:
            bad.append((f, kind, 'dtype', got.dtype))
        exp = np.asarray(exp)
        if got.shape != exp.shape:
            bad.append((f, kind, 'shape', got.shape, exp.shape)); continue
        if kind == 'velmid':
            # compare squares against s3d^2 scale
            com = f[len('sigmavMid'):]
            scale = (np.asarray(raw['sigmav3d' + com], dtype=np.float64) * vz) ** 2
            err = np.abs(got.astype(np.float64) ** 2 - exp ** 2)
            ok = err <= 1e-5 * scale + 1e-300
            ok &= np.isfinite(got)
        else:
            ok = np.abs(got - exp) <= rtol * np.abs(exp) + 1e-300
            ok &= np.isfinite(got) | ~np.isfinite(exp)
        if not ok.all():
            i = np.flatnonzero(~ok.reshape(len(ok), -1).all(axis=1))[0]
            bad.append((f, kind, 'value', int((~ok).sum()), 'first', i, got[i], exp[i]))
    return bad
