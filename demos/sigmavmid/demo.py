#!/usr/bin/env python
"""C05 demo: sigmavMid is NaN (and the on/off loads disagree) when the stored ratios
sigmavMin_to_sigmav3d^2 + sigmavMax_to_sigmav3d^2 reach 32000^2, and loses digits just below.

Run with cwd=/repo:  /venv/bin/python /verif/demos/sigmavmid/demo.py
Exits 1 on the unmodified tree, 0 with fix.diff applied.
"""
import shutil
import sys
import tempfile
import types
import warnings
from pathlib import Path

import numpy as np

sys.path.insert(0, '/repo')
_b = types.ModuleType('blosc')
_b.set_nthreads = lambda n: None
sys.modules['blosc'] = _b
import asdf

import abacusnbody.data.asdf as _aa

asdf.get_config().add_extension(_aa.AbacusExtension())
import abacusnbody

assert abacusnbody.__file__.startswith('/repo'), abacusnbody.__file__
from abacusnbody.data.compaso_halo_catalog import CompaSOHaloCatalog

warnings.simplefilter('ignore')

BOX, VZ = 2000.0, 123456.789  # BoxSize != VelZSpace_to_kms
# (Min ratio, Max ratio) pairs. The first four have Min^2 + Max^2 == 32000^2 exactly, so the
# middle dispersion is exactly 0; the others are close to / far from that boundary.
PAIRS = [(0, 32000), (19200, 25600), (8960, 30720), (-32000, 0),
         (0, 31999), (0, 31990), (10000, 30000), (15000, 20000), (0, 0)]
NPER = 500

rng = np.random.default_rng(12345)
N = NPER * len(PAIRS)
rmin = np.repeat([p[0] for p in PAIRS], NPER).astype(np.int16)
rmax = np.repeat([p[1] for p in PAIRS], NPER).astype(np.int16)
s3d = (rng.random(N) * 5e-3 + 1e-4).astype(np.float32)  # unit-box redshift-space units

tmp = Path(tempfile.mkdtemp())
try:
    fn = tmp / 'Synth' / 'halos' / 'z0.500' / 'halo_info' / 'halo_info_000.asdf'
    fn.parent.mkdir(parents=True)
    asdf.AsdfFile(
        {
            'data': {
                'sigmav3d_com': s3d,
                'sigmavMin_to_sigmav3d_com_i16': rmin,
                'sigmavMax_to_sigmav3d_com_i16': rmax,
            },
            'header': dict(BoxSize=BOX, VelZSpace_to_kms=VZ, SimName='Synth', Redshift=0.5),
        }
    ).write_to(fn, all_array_storage='internal')

    fields = ['sigmav3d_com', 'sigmavMin_com', 'sigmavMid_com', 'sigmavMaj_com']
    on = CompaSOHaloCatalog(fn.parents[1], cleaned=False, fields=fields, convert_units=True).halos
    off = CompaSOHaloCatalog(fn.parents[1], cleaned=False, fields=fields, convert_units=False).halos
finally:
    shutil.rmtree(tmp)

f8 = lambda c: np.asarray(c, dtype=np.float64)
fail = False
print(f'{"Min":>7} {"Max":>6} | NaN on  NaN off | max |sum-s3d^2|/s3d^2 (on) | max |on/(off*VZ)-1|')
for i, (mn, mx) in enumerate(PAIRS):
    sl = slice(i * NPER, (i + 1) * NPER)
    mid_on, mid_off = f8(on['sigmavMid_com'][sl]), f8(off['sigmavMid_com'][sl])
    nan_on, nan_off = int(np.isnan(mid_on).sum()), int(np.isnan(mid_off).sum())
    s2 = f8(on['sigmav3d_com'][sl]) ** 2
    ssum = mid_on**2 + f8(on['sigmavMin_com'][sl]) ** 2 + f8(on['sigmavMaj_com'][sl]) ** 2
    with np.errstate(all='ignore'):
        sumerr = np.max(np.abs(ssum - s2) / s2)  # NaN propagates
        # on/off factor; where both are exactly 0 the factor holds trivially
        both0 = (mid_on == 0) & (mid_off == 0)
        ratio = np.where(both0, 0.0, np.abs(mid_on / (mid_off * VZ) - 1))
        facerr = np.max(ratio)
    # oracle: ratio of the middle axis from exact integer arithmetic
    exact = np.sqrt(32000**2 - mn**2 - mx**2) / 32000 * f8(s3d[sl]) * VZ
    with np.errstate(all='ignore'):
        valerr = np.max(np.where(exact == 0, np.abs(mid_on), np.abs(mid_on / exact - 1)))
    bad = nan_on or nan_off or not (sumerr < 1e-6) or not (facerr < 1e-5) or not (valerr < 1e-5)
    fail |= bool(bad)
    print(f'{mn:7d} {mx:6d} | {nan_on:6d}  {nan_off:7d} | {sumerr:28.3e} | {facerr:18.3e}   {"FAIL" if bad else "ok"}')

if fail:
    print('FAIL: sigmavMid violates C05 (sum of squares / on-off factor) for satisfiable stored ratios')
    sys.exit(1)
print('PASS')
