#!/venv/bin/python
"""C14 demo: BloscCompressor.compress fails when compression_block_size < item size.

Property clause: "compress followed by decompress is the identity for any array
size, item size and compression block size".

abacusnbody/data/asdf.py, BloscCompressor.compress:
    nelem = compression_block_size // data.itemsize      # == 0 when block size < item size
    for i in range(0, len(data), nelem):                 # ValueError: range() arg 3 must not be zero

Run with cwd=/repo:   /venv/bin/python /verif/demos/demo_blosc_blocksize.py
Exit status 1 on the unmodified tree, 0 with fix.diff applied.

python-blosc is not installed in the sandbox; an inert stand-in is installed
below.  The failure happens BEFORE any blosc function is reached (set_nthreads /
set_blocksize are no-ops, compress is never called), so it does not depend on
the stand-in.  The stand-in's decompress_ptr is strict (it rejects anything
that is not exactly one frame), which is what makes the control cases meaningful.
"""
import ctypes, os, struct, sys, types, zlib

sys.path.insert(0, os.getcwd())

# ---------------------------------------------------------------- stand-in blosc
_b = types.ModuleType('blosc')
_b.SHUFFLE, _b.NOSHUFFLE, _b.BITSHUFFLE = 1, 0, 2
_b.ncompress = 0
_b.set_nthreads = lambda n: None
_b.set_blocksize = lambda n: None
def _compress(bytesobj, typesize=8, clevel=9, shuffle=1, cname='blosclz'):
    _b.ncompress += 1
    raw = memoryview(bytesobj).tobytes()
    payload = zlib.compress(raw, 1)
    return struct.pack('<4sIII', b'BLSC', len(raw), typesize, 16 + len(payload)) + payload
def _decompress_ptr(bytes_like, address):
    buf = memoryview(bytes_like).tobytes()
    magic, nbytes, typesize, cbytes = struct.unpack('<4sIII', buf[:16])
    if magic != b'BLSC' or cbytes != len(buf):
        raise RuntimeError('decompress_ptr was not handed exactly one frame')
    raw = zlib.decompress(buf[16:])
    assert len(raw) == nbytes
    ctypes.memmove(address, raw, nbytes)
    return nbytes
_b.compress, _b.decompress_ptr = _compress, _decompress_ptr
sys.modules['blosc'] = _b
# --------------------------------------------------------------------------------

import numpy as np
import abacusnbody
from abacusnbody.data.asdf import BloscCompressor
print('abacusnbody from', abacusnbody.__file__)

C = BloscCompressor()


def roundtrip(arr, cbs, chunk):
    """compress -> cut the byte stream into `chunk`-byte reads -> decompress."""
    ref = arr.tobytes()
    stream = b''.join(C.compress(memoryview(arr), compression_block_size=cbs))
    out = np.zeros(len(ref), dtype=np.uint8)
    pieces = (stream[i:i + chunk] for i in range(0, len(stream), chunk))
    n = C.decompress(pieces, memoryview(out))
    return n == len(ref) and out.tobytes() == ref


bad = 0
cases = [
    # dtype, n items, compression_block_size
    ('<f8', 10, 8),      # control: exactly one item per frame
    ('<f8', 10, 9),      # control: not a multiple of the item size
    ('<f8', 10, 1 << 22),  # control: default
    ('<f8', 10, 4),      # block size < item size
    ('<f8', 10, 7),
    ('<f8', 10, 1),
    ('<f4', 3, 3),
    ('<u2', 5, 1),
    ('S16', 4, 15),
    ('<f8', 0, 4),       # empty array, block size < item size
]
for dt, n, cbs in cases:
    arr = np.arange(n * np.dtype(dt).itemsize, dtype=np.uint8).view(dt)
    for chunk in (1, 5, 1 << 16):
        try:
            ok = roundtrip(arr, cbs, chunk)
            msg = 'identity' if ok else 'WRONG BYTES / LENGTH'
        except Exception as e:  # noqa
            ok = False
            msg = 'raised %s: %s' % (type(e).__name__, e)
        kind = 'control' if cbs >= arr.itemsize else 'cbs<itemsize'
        print('%-12s dtype=%-4s itemsize=%2d n=%2d compression_block_size=%-8d read chunk=%-6d -> %s'
              % (kind, dt, arr.itemsize, n, cbs, chunk, msg))
        bad += not ok

print('blosc.compress calls made:', _b.ncompress)
if bad:
    print('FAIL: %d round trips are not the identity' % bad)
    sys.exit(1)
print('PASS: every round trip is the identity')
sys.exit(0)
