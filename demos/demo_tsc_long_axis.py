"""C06 demo: TSC deposit on a grid with an axis of >= 32768 cells.

_tsc_scatter keeps the grid extents and cell indices in np.int16
(`itype = np.int16`).  An axis of 32768 or more cells does not fit: the extent
wraps to a negative number (or to 0 for 65536), the cell scale 1/h gets the
wrong sign/size, and every particle is deposited -- silently, with the grid
total still equal to the total weight -- into the wrong cells.

Property clause: "TSC ... deposit each particle's weight with the separable
3-cell quadratic (TSC) ... kernel centred on the particle and wrapped
periodically ... This holds for cubic and anisotropic 3D grids".

Run with cwd=/repo.  Exit status 0 = all deposits correct.
"""
import sys
sys.path.insert(0, '/repo')
import warnings

import numpy as np

warnings.filterwarnings('ignore')
from abacusnbody.analysis.tsc import tsc_parallel  # noqa: E402


def w_tsc(s):
    s = np.abs(s)
    return np.where(s <= 0.5, 0.75 - s * s, np.where(s <= 1.5, 0.5 * (1.5 - s) ** 2, 0.0))


def oracle(pos, shape, box, weights):
    """float64 brute force: separable TSC kernel centred on the particle, periodic."""
    pos = np.asarray(pos, dtype=np.float64)
    out = np.zeros(shape)
    axes = []
    for a in range(3):
        g = shape[a]
        p = pos[:, a] * (g / box)
        base = np.floor(p).astype(np.int64)
        axes.append([(np.mod(base + o, g), w_tsc(p - (base + o))) for o in (-1, 0, 1, 2)])
    for ix, wx in axes[0]:
        for iy, wy in axes[1]:
            for iz, wz in axes[2]:
                np.add.at(out, (ix, iy, iz), wx * wy * wz * weights)
    return out


def main():
    rng = np.random.default_rng(6)
    box = 1000.0
    bad = 0
    for shape in [(32767, 4, 4), (32768, 4, 4), (40000, 4, 4), (4, 40000, 4), (4, 4, 65536), (50000, 6, 1)]:
        for dtype in (np.float32, np.float64):
            for nthread in (1, 4):
                pos = (rng.random((2000, 3)) * box).astype(dtype)
                # one particle exactly on the centre of cell (5,1,2): 27-cell stencil known by hand
                pos[0] = (np.array([5, 1, 2]) / np.array(shape) * box).astype(dtype)
                w = rng.random(len(pos)).astype(dtype)
                ref = oracle(pos, shape, box, w.astype(np.float64))
                out = tsc_parallel(pos.copy(), np.zeros(shape, dtype=np.float64), box,
                                   weights=w, nthread=nthread)
                err = np.abs(out - ref).max()
                tot = abs(out.sum() - w.sum(dtype=np.float64))
                # float32 positions resolve a 32768..65536-cell axis to ~0.004-0.008 cell only
                tol = 0.03 if dtype == np.float32 else 1e-9
                ok = err < tol and tot < 1e-3 and out.min() >= 0
                print(f'{"ok  " if ok else "FAIL"} shape={shape} {np.dtype(dtype).name} nthread={nthread}'
                      f' max|dens-oracle|={err:.3g} |total-sum(w)|={tot:.3g} nonzero cells={np.count_nonzero(out)}'
                      f' (oracle {np.count_nonzero(ref)})')
                bad += not ok
    # single particle, hand-checkable: centre of cell 30000 of a 40000-cell axis
    shape = (40000, 4, 4)
    one = np.array([[30000 / 40000 * box, 1 / 4 * box, 2 / 4 * box]])
    out = tsc_parallel(one.copy(), np.zeros(shape), box, nthread=1)
    got = np.unravel_index(out.argmax(), shape)
    print('single particle at the centre of cell (30000,1,2): heaviest cell =', tuple(int(g) for g in got),
          'value', out.max(), '(expected (30000,1,2) with 0.75**3 = 0.421875)')
    if tuple(got) != (30000, 1, 2) or abs(out.max() - 0.75 ** 3) > 1e-9:
        bad += 1
    print('failures:', bad)
    return 1 if bad else 0


if __name__ == '__main__':
    sys.exit(main())
