"""F9-F12 on synthetic uncompressed catalogs, real CompaSOHaloCatalog. Run with /venv/bin/python."""
import shutil, sys, tempfile, types, warnings
warnings.filterwarnings('ignore')
sys.path.insert(0, '/repo')
import numpy as np
b = types.ModuleType('blosc'); b.set_nthreads = lambda n: None
b.SHUFFLE, b.BITSHUFFLE, b.NOSHUFFLE = 1, 2, 0
sys.modules['blosc'] = b  # only so that the package's ASDF extension can be imported
import asdf
from abacusnbody.data.compaso_halo_catalog import CompaSOHaloCatalog

tmp = tempfile.mkdtemp(prefix='avs_demo_')
try:
    N = 5
    hdr = {'BoxSize': 500.0, 'VelZSpace_to_kms': 70000.0, 'SimName': 'demo', 'Redshift': 0.0, 'ppd': 64}
    d = f'{tmp}/sim/halos/z0.000'
    import os
    os.makedirs(d + '/halo_info')
    data = {'N': np.arange(10, 10 + N, dtype=np.uint32),
            'npstartA': np.arange(N, dtype=np.uint64) * 2, 'npoutA': np.full(N, 2, np.uint32),
            'sigmav3d_com': np.full(N, 0.003, np.float32),
            'sigmavMax_to_sigmav3d_com_i16': np.full(N, 24000, np.int16),
            'sigmavMin_to_sigmav3d_com_i16': np.full(N, 8000, np.int16)}
    asdf.AsdfFile({'header': hdr, 'data': data}).write_to(d + '/halo_info/halo_info_000.asdf')
    load = lambda **k: CompaSOHaloCatalog(d, cleaned=False, **k)
    print('F9 sigmavMid_com alone   :', np.array(load(fields=['sigmavMid_com']).halos['sigmavMid_com']))
    print('F9 sigmavMid_com with N  :', np.array(load(fields=['sigmavMid_com', 'N']).halos['sigmavMid_com']))
    h = load(fields=['sigmavMaj_com', 'sigmav3d_com']).halos
    print('F10 sigmavMaj_com', float(h['sigmavMaj_com'][0]), ' sigmav3d_com', float(h['sigmav3d_com'][0]),
          ' (stored ratio 0.75: expected 0.75*sigmav3d_com =', 0.75 * float(h['sigmav3d_com'][0]), ')')
    try:
        load(fields=['N'], subsamples=dict(A=True, pos=True)); print('F11: no error')
    except Exception as e:
        print('F11: cleaned=False, subsamples A/pos, fields=[N]:', type(e).__name__, e)

    lc = f'{tmp}/halo_light_cones/simX/z0.500'
    os.makedirs(lc)
    M = 4
    lcd = {'N': np.arange(10, 10 + M, dtype=np.uint32), 'N_interp': np.arange(M, dtype=np.uint32),
           'npstartA': np.arange(M, dtype=np.uint64) * 2, 'npoutA': np.full(M, 2, np.uint32),
           'index_halo': np.arange(M, dtype=np.int64), 'origin': np.zeros(M, np.int8),
           'pos_avg': np.zeros((M, 3), np.float32), 'pos_interp': np.ones((M, 3), np.float32),
           'vel_avg': np.zeros((M, 3), np.float32), 'vel_interp': np.ones((M, 3), np.float32),
           'redshift_interp': np.full(M, 0.5, np.float32)}
    asdf.AsdfFile({'header': hdr, 'data': lcd}).write_to(lc + '/lc_halo_info.asdf')
    asdf.AsdfFile({'header': {}, 'data': {'pos': np.zeros((8, 3), np.float32),
                  'vel': np.zeros((8, 3), np.float32), 'pid': np.zeros(8, np.int64)}}).write_to(lc + '/lc_pid_rv.asdf')
    print('F12 light cone, no filter: rows', len(CompaSOHaloCatalog(lc, fields=list(lcd)).halos))
    try:
        CompaSOHaloCatalog(lc, fields=list(lcd), filter_func=lambda h: h['N'] > 11); print('F12: no error')
    except Exception as e:
        print('F12 light cone + filter_func:', type(e).__name__, e)
finally:
    shutil.rmtree(tmp, ignore_errors=True)
