"""F4-F7: mode binning. Run with python3-vt. numba/astropy are replaced by inert stand-ins so
that the unmodified kernels of power_spectrum.py execute as plain Python."""
import importlib.util, sys, types
import numpy as np

nb = types.ModuleType('numba')
def njit(*a, **k):
    return a[0] if a and callable(a[0]) else (lambda f: f)
nb.njit = njit; nb.prange = range; nb.vectorize = lambda f: np.vectorize(f)
nb.set_num_threads = lambda n: None; nb.get_num_threads = lambda: 1; nb.get_thread_id = lambda: 0
nb.config = types.SimpleNamespace(NUMBA_NUM_THREADS=1)
sys.modules['numba'] = nb
ap = types.ModuleType('astropy'); apt = types.ModuleType('astropy.table'); apt.Table = dict
sys.modules['astropy'] = ap; sys.modules['astropy.table'] = apt
for name in ('abacusnbody', 'abacusnbody.analysis'):
    m = types.ModuleType(name); m.__path__ = []; sys.modules[name] = m
def load(name, path):
    spec = importlib.util.spec_from_file_location(name, path)
    m = importlib.util.module_from_spec(spec); sys.modules[name] = m; spec.loader.exec_module(m); return m
load('abacusnbody.analysis.tsc', '/repo/abacusnbody/analysis/tsc.py')
load('abacusnbody.analysis.cic', '/repo/abacusnbody/analysis/cic.py')
ps = load('abacusnbody.analysis.power_spectrum', '/repo/abacusnbody/analysis/power_spectrum.py')

L = 2 * np.pi  # fundamental = 1
def full_mesh_k(n):
    f = np.fft.fftfreq(n, 1 / n)
    return np.meshgrid(f, f, f, indexing='ij')
kedges = np.array([0.1, 1.2, 2.3, 3.4, 4.45, 6.1])  # no lattice |k| lies on an edge
for n in (8, 7):
    kx, ky, kz = full_mesh_k(n)
    ref = np.histogram(np.sqrt(kx**2 + ky**2 + kz**2).ravel(), bins=kedges)[0]
    w = np.ones((n, n, n // 2 + 1), np.float32)
    counts = ps.bin_kmu(n, L, kedges, np.array([0.0, 1.0]), w)[1][:, 0]
    print(f'F4/F5 bin_kmu n={n}: N_mode {counts}  full-mesh histogram {ref}')
n = 8
kx, ky, kz = full_mesh_k(n)
kp_edges = np.array([0.1, 1.2, 2.3]); pimax, Npi = 10.5, 3
ref = np.histogram2d(np.sqrt(kx**2 + ky**2).ravel(), np.abs(kz).ravel(),
                     bins=[kp_edges, np.linspace(0, pimax, Npi + 1)])[0].astype(int)
w = np.ones((n, n, n // 2 + 1), np.float32)
print('F6 bin_kppi counts\n', ps.bin_kppi(n, L, kp_edges, pimax, Npi, w)[1], '\nfull mesh\n', ref)
try:
    ps.bin_kppi(n, L, kp_edges, 2.5, 2, w)
    print('F7: no error')
except Exception as e:
    print('F7: pimax below the largest kz (interpreted):', type(e).__name__, e)
