"""C19 finding 1: util.cumsum with a signed-integer (or Python-int list) input and a
uint64 output accumulates in float64 (numba types int64 + uint64 as float64), so partial
sums above 2**53 are rounded and differ from numpy.cumsum(arr, dtype=np.uint64).
Exit status 1 on the defect, 0 when repaired.  Run with cwd=/repo."""
import sys
sys.path.insert(0, '/repo')
import numpy as np
import abacusnbody
from abacusnbody.util import cumsum

print('using', abacusnbody.__file__)
B = 2**53
fails = 0
cases = [
    ('int64 -> uint64', np.array([1, 1, 1, 1], dtype=np.int64)),
    ('int32 -> uint64', np.array([1, 1, 1, 1], dtype=np.int32)),
    ('int8  -> uint64', np.array([1, 1, 1, 1], dtype=np.int8)),
    ('list  -> uint64', [1, 1, 1, 1]),
    ('uint32-> uint64', np.array([1, 1, 1, 1], dtype=np.uint32)),  # control: already exact
]
for name, arr in cases:
    for initial in (False, True):
        for final in (False, True):
            # exact integer oracle, independent of numpy
            S = [B]
            for v in arr:
                S.append(S[-1] + int(v))
            sel = S[(0 if initial else 1):(len(S) if final else len(S) - 1)]
            # second oracle: numpy.cumsum in the output dtype
            npsel = (np.concatenate([[0], np.cumsum(arr, dtype=np.uint64)]).astype(np.uint64)
                     + np.uint64(B))[(0 if initial else 1):(len(S) if final else len(S) - 1)]
            assert npsel.tolist() == sel
            out = np.zeros(len(sel), dtype=np.uint64)
            tot = cumsum(arr, out, initial=initial, final=final, offset=B)
            ok = out.tolist() == sel and int(tot) == S[-1] and not isinstance(tot, float)
            if not ok:
                fails += 1
                print(f'FAIL {name} initial={initial} final={final}: out-2^53={[int(x) - B for x in out]} '
                      f'expected-2^53={[s - B for s in sel]} total={tot!r} expected {S[-1]}')
# a single huge count, offset 0 (no offset needed to trigger)
arr = np.array([3635102479455524348], dtype=np.int64)
out = np.zeros(1, dtype=np.uint64)
cumsum(arr, out)
if int(out[0]) != 3635102479455524348:
    fails += 1
    print('FAIL int64->uint64 single element:', int(out[0]), '!=', 3635102479455524348,
          '(numpy.cumsum gives', int(np.cumsum(arr, dtype=np.uint64)[0]), ')')
print('failures:', fails)
sys.exit(1 if fails else 0)
