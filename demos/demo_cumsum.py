"""F1: util.cumsum on an empty input reads arr[-1] and writes out[-1] out of bounds.
Run:  NUMBA_BOUNDSCHECK=1 /venv/bin/python demo_cumsum.py   (bounds-checked compiled kernel)
      /venv/bin/python demo_cumsum.py                       (interpreted py_func)"""
import os, sys
sys.path.insert(0, '/repo')
import numpy as np
from abacusnbody.util import cumsum

big = np.arange(100, 120, dtype=np.int64)
arr = big[10:10]  # empty view in the middle of live memory
for init, fin, n in [(True, True, 1), (False, True, 0), (True, False, 0)]:
    out = np.full(n, -5, dtype=np.int64)
    for name, f in (('py_func', cumsum.py_func),) + (
        (('compiled+boundscheck', cumsum),) if os.environ.get('NUMBA_BOUNDSCHECK') == '1' else ()
    ):
        try:
            tot = f(arr, out, initial=init, final=fin, offset=7)
            print(f'{name}: initial={init} final={fin} -> out={out} total={tot}')
        except Exception as e:
            print(f'{name}: initial={init} final={fin} -> {type(e).__name__}: {e}')
