#!/usr/bin/env python
"""C20 / item width: the width written for a field is the LAST file's itemsize.

Two files hold column 'x' as float32 (4 values) and float64 (3 values).  The
stream announces 7 x 8 = 56 bytes for 'x' but carries 16 + 24 = 40, so a client
following the documented protocol swallows the header and payload of the next
field.  Accepted outcome: either a stream that obeys `count x width == payload`
or an error raised before any byte is written.

exit status 0 = property holds, 1 = violated.
"""
import io, shutil, struct, sys, tempfile, types
WT = '/repo'
sys.modules.setdefault('blosc', types.ModuleType('blosc'))
sys.path.insert(0, WT)
import numpy as np
import asdf
import abacusnbody
assert abacusnbody.__file__.startswith(WT), abacusnbody.__file__
from abacusnbody.data.asdf import AbacusExtension
asdf.get_config().add_extension(AbacusExtension())
from abacusnbody.data import pipe_asdf

class Pipe(io.BytesIO):
    def isatty(self):
        return False
    def close(self):
        pass

d = tempfile.mkdtemp(prefix='demo2_')
bad = 0
try:
    cols = [{'x': np.arange(4, dtype='<f4'), 'y': np.arange(4, dtype='<i8')},
            {'x': np.arange(3, dtype='<f8'), 'y': np.arange(3, dtype='<i8')}]
    fns = []
    for i, c in enumerate(cols):
        fns.append(f'{d}/f{i}.asdf')
        asdf.AsdfFile({'data': c, 'header': {}}).write_to(fns[-1])
    for order in ([0, 1], [1, 0]):
        p = Pipe()
        try:
            pipe_asdf.unpack_to_pipe([fns[i] for i in order], ['x', 'y'], pipe=p, verbose=False)
        except ValueError as e:
            n = len(p.getvalue())
            print(f'files {order}: refused ({e}); {n} bytes written before the error ->', 'ok' if n == 0 else 'VIOLATION')
            bad |= n != 0
            continue
        s = p.getvalue()
        cnt, wid = struct.unpack_from('=qi', s, 0)
        payload = sum(cols[i]['x'].nbytes for i in order)
        # what a protocol-following client sees as the second header
        cnt2, wid2 = struct.unpack_from('=qi', s, 12 + cnt * wid) if len(s) >= 24 + cnt * wid else (None, None)
        ok = cnt * wid == payload and (cnt2, wid2) == (7, 8)
        print(f'files {order}: header of x says {cnt} x {wid} = {cnt * wid} bytes, payload of x is {payload} bytes; '
              f'client reads next header as count={cnt2} width={wid2} (true: 7, 8) ->', 'ok' if ok else 'VIOLATION')
        bad |= not ok
finally:
    shutil.rmtree(d, ignore_errors=True)
sys.exit(1 if bad else 0)
