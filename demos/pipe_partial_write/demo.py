#!/usr/bin/env python
"""C20 / short writes: pipe_asdf ignores the return value of pipe.write.

Part 1 (cheap): unpack_to_pipe with a conforming io.RawIOBase whose write()
  accepts at most 4096 bytes per call (allowed by the io contract).
Part 2 (the real command line): `python -u -m abacusnbody.data.pipe_asdf`
  (equivalently PYTHONUNBUFFERED=1, usual in container images) on ONE file with a
  column of 0x7ffff000 + 1000 bytes followed by a second small field.  Under -u
  sys.stdout.buffer is a raw FileIO; Linux transfers at most 0x7ffff000 bytes per
  write(2); the rest of the column is dropped, exit status 0.
  Needs ~2.1 GB of disk in /tmp/hunt3_C20 and ~5 GB RAM; skip with --quick.

exit status 0 = property holds, 1 = violated.
"""
import io, os, shutil, struct, subprocess, sys, tempfile, types

WT = '/repo'
PRELUDE = (
    "import sys, types\n"
    "sys.modules.setdefault('blosc', types.ModuleType('blosc'))\n"
    f"sys.path.insert(0, {WT!r})\n"
    "import asdf\n"
    "from abacusnbody.data.asdf import AbacusExtension\n"
    "asdf.get_config().add_extension(AbacusExtension())\n"
    "from abacusnbody.data import pipe_asdf\n"
)
exec(PRELUDE)
import numpy as np
import abacusnbody
assert abacusnbody.__file__.startswith(WT), abacusnbody.__file__

bad = 0
d = tempfile.mkdtemp(prefix='demo_')
try:
    # ---------------- part 1
    class ShortRaw(io.RawIOBase):
        """raw stream taking at most 4096 bytes per write(), like a pipe / socket may"""
        def __init__(self):
            self.chunks = []
        def writable(self):
            return True
        def isatty(self):
            return False
        def write(self, b):
            b = bytes(memoryview(b).cast('B')[:4096]) if memoryview(b).nbytes else b''
            self.chunks.append(b)
            return len(b)
        def close(self):
            pass
    a = np.arange(3000, dtype='<i8')          # 24000 bytes
    b = np.arange(5, dtype='<i4')
    fn = f'{d}/small.asdf'
    asdf.AsdfFile({'data': {'a': a, 'b': b}, 'header': {}}).write_to(fn)
    p = ShortRaw()
    pipe_asdf.unpack_to_pipe([fn], ['a', 'b'], pipe=p, verbose=False)
    got = b''.join(p.chunks)
    exp = struct.pack('=qi', a.size, 8) + a.tobytes() + struct.pack('=qi', b.size, 4) + b.tobytes()
    ok = got == exp
    print(f'part 1 (raw stream, 4096 bytes per write): {len(got)} bytes emitted, {len(exp)} expected ->', 'ok' if ok else 'VIOLATION')
    bad |= not ok

    # ---------------- part 2
    if '--quick' not in sys.argv:
        n = 0x7ffff000 + 1000
        big = np.zeros(n, dtype='u1')
        big[::4099] = 7
        big[-1000:] = np.arange(1000) % 251 + 1
        tail = bytes(big[-1000:])
        fn = f'{d}/big.asdf'
        asdf.AsdfFile({'data': {'a': big, 'b': b}, 'header': {}}).write_to(fn)
        del big
        out = f'{d}/out.bin'
        with open(out, 'wb') as fout:
            r = subprocess.run([sys.executable, '-u', '-c', PRELUDE + 'pipe_asdf.main()', fn, '-f', 'a', '-f', 'b'],
                               stdout=fout, stderr=subprocess.PIPE, cwd=WT)
        size = os.path.getsize(out)
        expsize = 12 + n + 12 + b.nbytes
        with open(out, 'rb') as f:
            cnt, wid = struct.unpack('=qi', f.read(12))
            f.seek(12 + n - 1000)
            got_tail = f.read(1000)
            hdr2 = f.read(12)
            pay2 = f.read()
        ok = (r.returncode == 0 and size == expsize and (cnt, wid) == (n, 1) and got_tail == tail
              and hdr2 == struct.pack('=qi', b.size, 4) and pay2 == b.tobytes())
        print(f'part 2 (python -u, one column of {n} bytes): exit status {r.returncode}, header says {cnt} x {wid}, '
              f'stream has {size} bytes, {expsize} expected (missing {expsize - size}) ->', 'ok' if ok else 'VIOLATION')
        if r.returncode != 0:
            print(r.stderr.decode()[-500:])
        bad |= not ok
finally:
    shutil.rmtree(d, ignore_errors=True)
sys.exit(1 if bad else 0)
