#!/venv/bin/python
"""C02 demo: passthrough=True on a halo light cone catalog.

Halo light cone files (lc_halo_info.asdf) carry, next to the light cone columns, four columns that
come from the cleaning step: haloindex, haloindex_mainprog, N_mainprog, v_L2com_mainprog (see the
YAML header of tests/halo_light_cones/*/z2.250/lc_halo_info.asdf in the repository).  In passthrough
mode the requested columns are "determined by the file contents", so these are valid columns there,
and the default set / 'all' contain them.

_read_halo_info chooses the file a raw column is read from with
    src = caf if field in clean_dt_progen.names else af
and caf is None whenever no cleaning file is open (always for a light cone).  So column 'N' loads when
requested alone, but the same request fails with TypeError as soon as one of the four columns is
co-requested -- in particular through the default set and through 'all'.

Run with cwd = the worktree:  cd /repo && /venv/bin/python /tmp/hunt3_C02/demo.py
Exit status 0 = property holds, 1 = violated.
"""
import sys, types, tempfile, warnings, os
from pathlib import Path

_b = types.ModuleType('blosc'); _b.set_nthreads = lambda n: None
sys.modules['blosc'] = _b
sys.path.insert(0, os.getcwd())
import numpy as np
import asdf
import abacusnbody
from abacusnbody.data import asdf as _aasdf
asdf.get_config().add_extension(_aasdf.AbacusExtension())
from abacusnbody.data.compaso_halo_catalog import CompaSOHaloCatalog, halo_lc_dt
print('package under test:', abacusnbody.__file__)
warnings.simplefilter('ignore')


def build_lc(root, n=9):
    rng = np.random.default_rng(7)
    d = Path(root) / 'halo_light_cones' / 'Sim' / 'z0.500'
    d.mkdir(parents=True)
    header = dict(BoxSize=2000.0, VelZSpace_to_kms=1234.5, ppd=64.0, SimName='Sim', Redshift=0.5)
    data = {}
    for k in halo_lc_dt.names:
        dt = halo_lc_dt[k]
        shape = (n,) + dt.shape
        if dt.base.kind == 'f':
            data[k] = rng.random(shape).astype(dt.base)
        else:
            data[k] = rng.integers(0, 100, shape).astype(dt.base)
    npout = rng.integers(0, 4, n).astype(np.uint32)
    data['npoutA'] = npout
    data['npstartA'] = (np.cumsum(npout) - npout).astype(np.uint64)
    data['x_L2com'] = rng.random((n, 3)).astype(np.float32)
    # the cleaning-derived columns of real light cone files
    data['haloindex'] = rng.integers(0, 2**40, n).astype(np.uint64)
    data['haloindex_mainprog'] = rng.integers(0, 2**40, n).astype(np.int64)
    data['N_mainprog'] = rng.integers(0, 99, n).astype(np.uint32)
    data['v_L2com_mainprog'] = rng.random((n, 3)).astype(np.float32)
    asdf.AsdfFile({'data': data, 'header': header}).write_to(d / 'lc_halo_info.asdf', all_array_compression=None)
    tot = int(npout.sum())
    part = {'pos': rng.random((tot, 3)).astype(np.float32), 'vel': rng.random((tot, 3)).astype(np.float32),
            'pid': rng.integers(0, 2**40, tot).astype(np.uint64)}
    asdf.AsdfFile({'data': part, 'header': header}).write_to(d / 'lc_pid_rv.asdf', all_array_compression=None)
    return d, data


def same(a, b):
    a = np.asarray(a); b = np.asarray(b)
    return a.dtype == b.dtype and a.shape == b.shape and a.tobytes() == b.tobytes()


fails = []
with tempfile.TemporaryDirectory() as tmp:
    d, raw = build_lc(tmp)

    # baseline: the column alone
    alone = CompaSOHaloCatalog(d, passthrough=True, fields=['N']).halos
    assert same(alone['N'], raw['N'])
    print("passthrough, fields=['N']                : ok")

    requests = [
        ('default set', dict()),
        ("'all'", dict(fields='all')),
        ("['N', 'haloindex']", dict(fields=['N', 'haloindex'])),
        ("['haloindex', 'N']", dict(fields=['haloindex', 'N'])),
        ("['N', 'N_mainprog']", dict(fields=['N', 'N_mainprog'])),
        ("['N', 'v_L2com_mainprog', 'x_L2com']", dict(fields=['N', 'v_L2com_mainprog', 'x_L2com'])),
        ("['N', 'haloindex_mainprog'] + subsamples", dict(fields=['N', 'haloindex_mainprog'], subsamples=dict(A=True, pos=True))),
        ("['haloindex'] alone", dict(fields=['haloindex'])),
    ]
    for label, kw in requests:
        try:
            h = CompaSOHaloCatalog(d, passthrough=True, **kw).halos
        except Exception as e:
            print(f'passthrough, {label:42s}: RAISES {e!r}')
            fails.append(label)
            continue
        want = list(raw) if 'fields' not in kw or kw['fields'] == 'all' else kw['fields']
        bad = [k for k in want if k not in h.colnames or not same(h[k], raw[k])]
        if bad:
            print(f'passthrough, {label:42s}: wrong/missing columns {bad}')
            fails.append(label)
        else:
            print(f'passthrough, {label:42s}: ok ({len(h.colnames)} columns, all equal to the file)')

if fails:
    print(f'\nFAIL: {len(fails)} of {len(requests)} requests that include column N failed or differed, although N alone loads')
    sys.exit(1)
print('\nPASS')
