"""Build a small synthetic uncompressed CompaSO catalog (halo_info, subsample files, cleaning files, light cone)."""
import boot
import numpy as np, asdf, os
from pathlib import Path
chc = boot.chc

def raw_columns():
    """raw column name -> (dtype, shape tail), derived from the loaders of an unconverted dummy instance"""
    o = object.__new__(chc.CompaSOHaloCatalog)
    o.convert_units = False
    o.header = {}
    o._setup_halo_field_loaders()
    raw, _, _ = o._get_halo_fields_dependencies(list(chc.user_dt.names))
    out = {}
    for r in sorted(raw):
        if r.endswith('_i16'):
            base = r[:-4]
            tail = (3,) if base.startswith(('sigmar_', 'sigman_')) else ()
            out[r] = (np.int16, tail)
        elif r.endswith('_u16'):
            out[r] = (np.uint16, ())
        else:
            dt = chc.user_dt[r]
            out[r] = (dt.base, dt.shape)
    return out

def rand_col(rng, dt, shape):
    dt = np.dtype(dt)
    if dt == np.int16:
        return rng.integers(0, 32001, size=shape).astype(dt)
    if dt == np.uint16:
        # valid euler16 codes: cap<12, bin<121, iaz<45
        return (rng.integers(0, 12*121*45, size=shape)).astype(dt)
    if dt.kind == 'f':
        return rng.random(size=shape).astype(dt)
    return rng.integers(0, 1000, size=shape).astype(dt)

def write(fn, data, header):
    fn = Path(fn); fn.parent.mkdir(parents=True, exist_ok=True)
    af = asdf.AsdfFile({'data': data, 'header': header})
    af.write_to(fn, all_array_compression=None)

def build(root, nfile=3, nh=(7, 0, 5), seed=1, nprev=4):
    rng = np.random.default_rng(seed)
    root = Path(root)
    zdir = root / 'Sim' / 'halos' / 'z0.000'
    cdir = root / 'cleaning' / 'Sim' / 'z0.000'
    header = dict(BoxSize=2000.0, VelZSpace_to_kms=1234.5, ppd=64., SimName='Sim', Redshift=0.0)
    cheader = dict(header, TimeSliceRedshiftsPrev=[0.1 * i for i in range(nprev)])
    rc = raw_columns()
    sigmin = 'sigmavMin_to_sigmav3d_%s_i16'
    for i in range(nfile):
        n = nh[i]
        d = {k: rand_col(rng, dt, (n,) + tail) for k, (dt, tail) in rc.items()}
        for com in ('com', 'L2com'):
            # Min^2+Max^2 <= 32000^2
            a = rng.integers(0, 18000, n).astype(np.int16); b = rng.integers(0, 26000, n).astype(np.int16)
            d[sigmin % com] = a; d['sigmavMax_to_sigmav3d_%s_i16' % com] = b
        d['id'] = (np.arange(n) + 1000 * i).astype(np.uint64)
        # subsample indexing
        part = {}
        for AB in 'AB':
            npout = rng.integers(0, 5, n).astype(np.uint32)
            gaps = rng.integers(0, 3, n)
            start = np.zeros(n, dtype=np.uint64)
            pos = 0
            for j in range(n):
                pos += gaps[j]; start[j] = pos; pos += npout[j]
            pos += 2
            d['npstart' + AB] = start; d['npout' + AB] = npout
            d['ntagged' + AB] = npout // 2
            part[AB] = pos
            write(zdir / f'halo_rv_{AB}' / f'halo_rv_{AB}_{i:03d}.asdf',
                  {'rvint': rng.integers(-2**31, 2**31, (pos, 3)).astype(np.int32)}, header)
            write(zdir / f'halo_pid_{AB}' / f'halo_pid_{AB}_{i:03d}.asdf',
                  {'packedpid': rng.integers(0, 2**62, pos).astype(np.uint64)}, header)
        write(zdir / 'halo_info' / f'halo_info_{i:03d}.asdf', d, header)
        # cleaning
        c = {}
        rv = {}
        for AB in 'AB':
            npout = rng.integers(0, 4, n).astype(np.uint32)
            start = np.zeros(n, dtype=np.int64); pos = 0
            for j in range(n):
                start[j] = pos; pos += npout[j]
            c[f'npstart{AB}_merge'] = start; c[f'npout{AB}_merge'] = npout
            rv[f'rvint_{AB}'] = rng.integers(-2**31, 2**31, (pos, 3)).astype(np.int32)
            rv[f'packedpid_{AB}'] = rng.integers(0, 2**62, pos).astype(np.uint64)
        ntot = d['N'] + rng.integers(0, 50, n).astype(np.uint32)
        if n: ntot[rng.integers(0, n, 2)] = 0
        c['N_total'] = ntot.astype(np.uint32)
        c['N_merge'] = rng.integers(0, 50, n).astype(np.uint32)
        c['haloindex'] = rng.integers(0, 2**40, n).astype(np.uint64)
        c['is_merged_to'] = rng.integers(-1, 2**40, n).astype(np.int64)
        c['N_mainprog'] = rng.integers(0, 1000, (n, nprev)).astype(np.uint32)
        c['vcirc_max_L2com_mainprog'] = rng.random((n, nprev)).astype(np.float32)
        c['sigmav3d_L2com_mainprog'] = rng.random((n, nprev)).astype(np.float32)
        c['haloindex_mainprog'] = rng.integers(0, 2**40, n).astype(np.int64)
        c['v_L2com_mainprog'] = rng.random((n, 3)).astype(np.float32)
        write(cdir / 'cleaned_halo_info' / f'cleaned_halo_info_{i:03d}.asdf', c, cheader)
        write(cdir / 'cleaned_rvpid' / f'cleaned_rvpid_{i:03d}.asdf', rv, cheader)
    return zdir

def build_lc(root, n=9, seed=2, extra_L2=True):
    rng = np.random.default_rng(seed)
    d = Path(root) / 'halo_light_cones' / 'Sim' / 'z0.500'
    header = dict(BoxSize=2000.0, VelZSpace_to_kms=1234.5, ppd=64., SimName='Sim', Redshift=0.5)
    data = {}
    for k in chc.halo_lc_dt.names:
        dt = chc.halo_lc_dt[k]
        data[k] = rand_col(rng, dt.base, (n,) + dt.shape)
    data['origin'] = rng.integers(0, 9, n).astype(np.int8)
    data['pos_avg'][::2] = 0  # not available for half the halos
    data['vel_avg'][::2] = 0
    npout = rng.integers(0, 4, n).astype(np.uint32)
    data['npoutA'] = npout
    data['npstartA'] = (np.cumsum(npout) - npout).astype(np.uint64)
    tot = int(npout.sum())
    if extra_L2:
        rc = raw_columns()
        for k, (dt, tail) in rc.items():
            if 'L2' in k:
                data[k] = rand_col(rng, dt, (n,) + tail)
    write(d / 'lc_halo_info.asdf', data, header)
    write(d / 'lc_pid_rv.asdf', {'pos': rng.random((tot, 3)).astype(np.float32), 'vel': rng.random((tot, 3)).astype(np.float32),
                                 'pid': rng.integers(0, 2**40, tot).astype(np.uint64)}, header)
    return d

if __name__ == '__main__':
    import sys
    print(build(sys.argv[1]))
    print(build_lc(sys.argv[1]))
