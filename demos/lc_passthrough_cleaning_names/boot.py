import types, sys
_b = types.ModuleType('blosc')
_b.set_nthreads = lambda n: None
sys.modules['blosc'] = _b
sys.path.insert(0, '/tmp/wt_hunt3_C02')
import abacusnbody
assert abacusnbody.__file__.startswith('/tmp/wt_hunt3_C02'), abacusnbody.__file__
import asdf
from abacusnbody.data import asdf as _aasdf
asdf.get_config().add_extension(_aasdf.AbacusExtension())
from abacusnbody.data import compaso_halo_catalog as chc
assert chc.__file__.startswith('/tmp/wt_hunt3_C02')
