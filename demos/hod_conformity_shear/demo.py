"""C09 demo: gen_sats drops the shear (Csat) term of the ELG satellite occupation in halos
that host a central (the 'conformity' branches keep_cent == 1 / == 2).

Run with cwd = the worktree:  cd /repo && /venv/bin/python /tmp/hunt3_C09/demo.py
exit status 0 = property holds, 1 = violated.
"""
import os
import sys

sys.path.insert(0, os.getcwd())

import numpy as np

import abacusnbody
from abacusnbody.hod.GRAND_HOD import N_sat_elg, gen_gal_cat

print('package:', abacusnbody.__file__)

LBOX = 1000.0
NPART = 2001
SHEAR = 0.4  # shear rank of the halo
M_H = 1.0e13
WEIGHT = 0.2

# No conformity parameter is given: logM1_EE/EL and alpha_EE/EL default to logM1 / alpha, i.e. the
# satellite occupation of a halo is documented NOT to depend on the kind of central it hosts.
ELG = dict(p_max=0.6, Q=100.0, logM_cut=11.8, kappa=1.0, sigma=0.5, logM1=13.0, alpha=1.0, gamma=3.0, A_s=1.0,
           alpha_c=0.0, alpha_s=1.0, s=0.0, s_v=0.0, s_p=0.0, s_r=0.0,
           Csat=0.5)  # shear dependence of the satellite occupation (M1 -> M1 * 10**(Csat * shear))
LRG = dict(logM_cut=12.0, logM1=14.0, sigma=0.1, alpha=1.0, kappa=1.0, alpha_c=0.0, alpha_s=1.0,
           s=0.0, s_v=0.0, s_p=0.0, s_r=0.0, ic=1.0)


def tables(halo_random):
    h = dict(hpos=np.zeros((1, 3)), hvel=np.zeros((1, 3)), hmass=np.array([M_H]), hid=np.array([7], dtype=np.int64),
             hmultis=np.ones(1), hrandoms=np.array([halo_random]), hveldev=np.zeros((1, 3)),
             hshear=np.array([SHEAR]))
    n = NPART
    p = dict(ppos=np.zeros((n, 3)), pvel=np.zeros((n, 3)), phvel=np.zeros((n, 3)), phmass=np.full(n, M_H),
             phid=np.full(n, 7, dtype=np.int64), pweights=np.full(n, WEIGHT),
             prandoms=np.linspace(0.0, 1.0, n),  # stored randoms: a regular ladder, so #sats = width * (n-1) + 1
             pinds=np.zeros(n, dtype=np.int64), pshear=np.full(n, SHEAR))
    for k in ('pranks', 'pranksv', 'pranksp', 'pranksr', 'pranksc'):
        p[k] = np.zeros(n)
    return h, p


params = dict(z=0.5, velz2kms=100.0, Lbox=LBOX, origin=None, Mpart=2e9, chunk=-1)


def run(tracers, halo_random):
    h, p = tables(halo_random)
    out = gen_gal_cat(h, p, tracers, params, Nthread=2, enable_ranks=False, rsd=False)
    e = out['ELG']
    return e['Ncent'], len(e['x']) - e['Ncent']


# the package's mean ELG satellite occupation at this host (mass, shear rank), as written in
# AbacusHOD._compute_ngal_elg (nsat_temp and, with a central, nsat_conf: both contain Csat * shear)
M1 = 10 ** (ELG['logM1'] + ELG['Csat'] * SHEAR)
width = N_sat_elg(M_H, 10 ** ELG['logM_cut'], ELG['kappa'], M1, ELG['alpha'], ELG['A_s']) * WEIGHT
nexp = int(np.floor(width * (NPART - 1) + 1e-9)) + 1  # ladder randoms k/(n-1) <= width
print(f'mean occupation x weight (slice width) = {width:.6f} -> expected satellites on the ladder: {nexp}')

fail = False

# (1) ELG only, halo WITHOUT a central (stored halo random 0.999 is above the central's slice)
nc, ns = run({'ELG': ELG}, 0.999)
print(f'ELG only, host has no central : Ncent={nc} Nsat={ns} (expected {nexp})')
fail |= (nc != 0) or (ns != nexp)

# (2) same particles, same host; only the HALO's random number differs so that it hosts an ELG central
nc, ns2 = run({'ELG': ELG}, 0.0)
print(f'ELG only, host has ELG central: Ncent={nc} Nsat={ns2} (expected {nexp}: no conformity parameters given)')
fail |= (nc != 1) or (ns2 != nexp)

# (3) LRG + ELG, the host has an LRG central (LRG satellites have a negligible slice here: logM1 = 14, weight 0.2)
h, p = tables(0.0)
out = gen_gal_cat(h, p, {'LRG': LRG, 'ELG': ELG}, params, Nthread=2, enable_ranks=False, rsd=False)
nl = len(out['LRG']['x']) - out['LRG']['Ncent']
ns3 = len(out['ELG']['x']) - out['ELG']['Ncent']
# the ELG slice is stacked behind the LRG slice: ELG satellites = ladder randoms in (w_LRG, w_LRG + width]
print(f'LRG+ELG, host has LRG central : LRG Ncent={out["LRG"]["Ncent"]} LRG Nsat={nl} ELG Nsat={ns3} (expected {nexp} +-1)')
fail |= (out['LRG']['Ncent'] != 1) or abs(ns3 - nexp) > 1

if fail:
    print('FAIL: the ELG satellite slice of a host with a central ignores the host\'s shear rank (Csat term dropped)')
    sys.exit(1)
print('OK')
