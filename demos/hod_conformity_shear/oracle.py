"""Independent oracle of property C09 written from the property text (plain python / numpy float64)."""
import math
import numpy as np

SQ2 = 1.41421356


def ncen_lrg(M, logMcut, sigma):
    return 0.5 * math.erfc((logMcut - math.log10(M)) / (SQ2 * sigma))


def gauss(x, mean, sigma):
    return 0.3989422804014327 / sigma * math.exp(-((x - mean) ** 2) / 2 / sigma**2)


def ncen_elg(M, pmax, Q, logMcut, sigma, gamma):
    lm = math.log10(M)
    phi = gauss(lm, logMcut, sigma)
    Phi = 0.5 * (1 + math.erf(gamma * (lm - logMcut) / sigma / math.sqrt(2)))
    return 2.0 * (pmax - 1.0 / Q) * phi * Phi


def ncen_qso(M, logMcut, sigma):
    return 0.5 * (1 + math.erf((math.log10(M) - logMcut) / SQ2 / sigma))


def nsat_lrg(M, logMcut, Mcut, M1, sigma, alpha, kappa):
    if M - kappa * Mcut < 0:
        return 0.0
    return ((M - kappa * Mcut) / M1) ** alpha * 0.5 * math.erfc((logMcut - math.log10(M)) / (SQ2 * sigma))


def nsat_gen(M, Mcut, kappa, M1, alpha, A=1.0):
    if M - kappa * Mcut < 0:
        return 0.0
    return A * ((M - kappa * Mcut) / M1) ** alpha


def wrap(x, L):
    # mathematically: the representative of x mod L in [-L/2, L/2)
    if x >= L / 2:
        return x - L
    if x < -L / 2:
        return x + L
    return x


def decide(r, widths, wants):
    """slices stacked in order; host takes tracer T iff r falls in T's (non-empty) slice"""
    lo = 0.0
    for t in range(3):
        if not wants[t]:
            continue
        hi = lo + widths[t]
        if hi > lo and (r <= hi) and (r > lo or lo == 0.0 or True):
            # r > previous markers is guaranteed because earlier slices did not take it,
            # except an empty earlier slice: then r<=lo was not tested. handle: r must be > lo
            # unless lo is the start 0 or all previous slices were empty / r in closed start
            return t + 1
        lo = hi
    return 0


def decide_strict(r, widths, wants):
    """slice of T = (lo, hi], the very first non-empty slice also contains 0"""
    lo = 0.0
    first = True
    for t in range(3):
        if not wants[t]:
            continue
        hi = lo + widths[t]
        if hi > lo:
            if (r > lo or (first and r >= 0)) and r <= hi:
                return t + 1
            first = False
        lo = hi
    return 0


def cent_widths(i, h, P, wants):
    w = [0.0, 0.0, 0.0]
    if wants[0]:
        p = P['LRG']
        lc = p['logM_cut'] + p['Acent'] * h['deltac'][i] + p['Bcent'] * h['fenv'][i]
        w[0] = ncen_lrg(h['mass'][i], lc, p['sigma']) * p['ic'] * h['multis'][i]
    if wants[1]:
        p = P['ELG']
        lc = p['logM_cut'] + p['Acent'] * h['deltac'][i] + p['Bcent'] * h['fenv'][i] + p['Ccent'] * h['shear'][i]
        w[1] = ncen_elg(h['mass'][i], p['p_max'], p['Q'], lc, p['sigma'], p['gamma']) * p['ic'] * h['multis'][i]
    if wants[2]:
        p = P['QSO']
        lc = p['logM_cut'] + p['Acent'] * h['deltac'][i] + p['Bcent'] * h['fenv'][i]
        w[2] = ncen_qso(h['mass'][i], lc, p['sigma']) * p['ic'] * h['multis'][i]
    return w


def sat_widths(i, s, P, wants, enable_ranks, keep_cent_i, shear_in_conformity=True):
    w = [0.0, 0.0, 0.0]

    def deco(p):
        if not enable_ranks:
            return 1.0
        return 1 + p['s'] * s['ranks'][i] + p['s_v'] * s['ranksv'][i] + p['s_p'] * s['ranksp'][i] + p['s_r'] * s['ranksr'][i]

    M = s['hmass'][i]
    if wants[0]:
        p = P['LRG']
        M1 = 10 ** (p['logM1'] + p['Asat'] * s['deltac'][i] + p['Bsat'] * s['fenv'][i])
        lc = p['logM_cut'] + p['Acent'] * s['deltac'][i] + p['Bcent'] * s['fenv'][i]
        w[0] = nsat_lrg(M, lc, 10**lc, M1, p['sigma'], p['alpha'], p['kappa']) * s['weights'][i] * p['ic'] * deco(p)
    if wants[1]:
        p = P['ELG']
        lc = p['logM_cut'] + p['Acent'] * s['deltac'][i] + p['Bcent'] * s['fenv'][i] + p['Ccent'] * s['shear'][i]
        sec = p['Asat'] * s['deltac'][i] + p['Bsat'] * s['fenv'][i]
        if keep_cent_i == 1:
            lm1, al = p['logM1_EL'], p['alpha_EL']
            if shear_in_conformity:
                sec += p['Csat'] * s['shear'][i]
        elif keep_cent_i == 2:
            lm1, al = p['logM1_EE'], p['alpha_EE']
            if shear_in_conformity:
                sec += p['Csat'] * s['shear'][i]
        else:
            lm1, al = p['logM1'], p['alpha']
            sec += p['Csat'] * s['shear'][i]
        w[1] = nsat_gen(M, 10**lc, p['kappa'], 10 ** (lm1 + sec), al, p['A_s']) * s['weights'][i] * p['ic'] * deco(p)
    if wants[2]:
        p = P['QSO']
        M1 = 10 ** (p['logM1'] + p['Asat'] * s['deltac'][i] + p['Bsat'] * s['fenv'][i])
        lc = p['logM_cut'] + p['Acent'] * s['deltac'][i] + p['Bcent'] * s['fenv'][i]
        w[2] = nsat_gen(M, 10**lc, p['kappa'], M1, p['alpha']) * s['weights'][i] * p['ic'] * deco(p)
    return w


def rsd_move(pos, vel, rsd, inv, L, origin):
    pos = np.array(pos, dtype=np.float64)
    if not rsd:
        return pos
    if origin is None:
        pos[2] = wrap(pos[2] + vel[2] * inv, L)
        return pos
    n = pos - np.asarray(origin, dtype=np.float64)
    n = n / math.sqrt((n * n).sum())
    return pos + inv * (vel * n).sum() * n
