#!/venv/bin/python
"""C08 finding 1: bin_kmu / bin_kppi accumulate the per-bin sums in float32 (the
`dtype` default, which calc_pk_from_deltak / project_3d_to_poles / pk_to_xi never
override).  Once a per-thread running sum reaches 2**24 times the size of the terms it
stops growing, so for bins holding more than ~1.7e7 modes per thread the reported
"mean over exactly those modes" of the mesh value, of |k| and of the multipoles is
wrong by tens of per cent and depends on the thread count.  The integer mode counts
stay exact.

Run with cwd=/repo :  /venv/bin/python /tmp/hunt_C08/demo.py
exit 0 = property holds, exit 1 = violated.
"""
import sys, types
sys.path.insert(0, '/repo')
import numpy as np
import numba            # noqa  (must be imported before the scipy stand-in)
import astropy.table    # noqa
if 'scipy' not in sys.modules:
    try:
        import scipy.fft  # noqa
    except Exception:
        m = types.ModuleType('scipy'); f = types.ModuleType('scipy.fft')
        f.rfftn = lambda a, **kw: np.fft.rfftn(a)
        f.irfftn = lambda a, **kw: np.fft.irfftn(a)
        f.fftfreq = np.fft.fftfreq
        m.fft = f; sys.modules['scipy'] = m; sys.modules['scipy.fft'] = f
import abacusnbody
assert abacusnbody.__file__.startswith('/repo'), abacusnbody.__file__
from abacusnbody.analysis import power_spectrum as ps

n = 360                      # even mesh, 360^3 = 4.67e7 modes
L = 2 * np.pi                # fundamental dk = 1
rng = np.random.default_rng(0)
# a strictly positive "power" mesh with a known mean, values in [0.5, 1.5)
w = (0.5 + rng.random((n, n, n // 2 + 1))).astype(np.float32)

# ---- independent float64 oracle over the half-complex mesh with conjugate multiplicity
idx = np.arange(n)
fr = np.where(idx <= n // 2, idx, idx - n).astype(np.float64)
kz = np.arange(n // 2 + 1, dtype=np.float64)
mult = np.where((kz == 0) | (2 * kz == n), 1.0, 2.0)[None, None, :]
k2 = fr[:, None, None] ** 2 + fr[None, :, None] ** 2 + kz[None, None, :] ** 2
kmag = np.sqrt(k2)
mu2 = np.where(k2 > 0, kz[None, None, :] ** 2 / np.maximum(k2, 1), 0.0)
L2 = 0.5 * (3 * mu2 - 1)

kedges = np.array([0.0, 90.3, 400.0])     # two wide bins, the 2nd reaches past Nyquist
muedges = np.array([0.0, 1.0])
poles = np.array([0, 2])
b = np.digitize(kmag, kedges) - 1
ref_cnt, ref_mean, ref_k, ref_p2 = [], [], [], []
for ib in range(2):
    sel = (b == ib) * mult
    c = sel.sum()
    ref_cnt.append(int(c)); ref_mean.append((w * sel).sum() / c)
    ref_k.append((kmag * sel).sum() / c); ref_p2.append((5 * L2 * w * sel).sum() / c)

fail = False
res = {}
for nt in (1, 4):
    P, N, Pl, Nl, K = ps.bin_kmu(n, L, kedges, muedges, w, poles, nthread=nt)
    res[nt] = (P, K)
    print(f'nthread={nt}')
    for ib in range(2):
        print(f'  bin {ib}: N_mode {N[ib,0]} (exact {ref_cnt[ib]})  mean {P[ib,0]:.6f} (exact {ref_mean[ib]:.6f})'
              f'  k_avg {K[ib,0]:.4f} (exact {ref_k[ib]:.4f})  l=0 {Pl[0,ib]:.6f}  l=2 {Pl[1,ib]:.6f} (exact {ref_p2[ib]:.6f})')
        if N[ib, 0] != ref_cnt[ib] or Nl[ib] != ref_cnt[ib]:
            print('    -> mode count wrong'); fail = True
        # 0.1 % is >1000x the float32 resolution; a mean of ~1e7 numbers of order 1 must meet it
        if abs(P[ib, 0] / ref_mean[ib] - 1) > 1e-3:
            print('    -> mean of the mesh value is NOT the mean over the modes of the bin'); fail = True
        if abs(K[ib, 0] / ref_k[ib] - 1) > 1e-3:
            print('    -> mean |k| is NOT the mean over the modes of the bin'); fail = True
        if abs(Pl[0, ib] / ref_mean[ib] - 1) > 1e-3:
            print('    -> l=0 multipole wrong'); fail = True
        if abs(Pl[1, ib] - ref_p2[ib]) > 2e-3:
            print('    -> l=2 multipole wrong'); fail = True

# (kperp, kpar) binning, same accumulators
Pp, Np_ = ps.bin_kppi(n, L, np.array([0.0, 400.0]), 400.0, 1, w, nthread=1)
cnt = int((mult * np.ones_like(w, dtype=np.float64)).sum())   # = n**3
exact = (w.astype(np.float64) * mult).sum() / cnt
print(f'bin_kppi nthread=1: N {Np_[0,0]} (exact {cnt})  mean {Pp[0,0]:.6f} (exact {exact:.6f})')
if Np_[0, 0] != cnt or abs(Pp[0, 0] / exact - 1) > 1e-3:
    print('    -> bin_kppi mean wrong'); fail = True

print('RESULT:', 'PROPERTY VIOLATED' if fail else 'ok')
sys.exit(1 if fail else 0)
