"""Independent oracle + sweep for gen_cent / gen_sats / gen_gals (property C09)."""
import itertools
import math
import sys
import warnings

import numpy as np

import abacusnbody
from abacusnbody.hod import GRAND_HOD as G

assert abacusnbody.__file__.startswith('/repo'), abacusnbody.__file__
warnings.simplefilter('ignore')

SQ2 = 1.41421356
F32 = 'f32' in sys.argv
GUARD = 'guard' in sys.argv  # oracle with empty slices hosting nothing (the repaired rule)
RTOL, ATOL = (1e-5, 1e-3) if F32 else (1e-9, 1e-7)


def ncen_lrg(M, logMcut, sigma):
    return 0.5 * math.erfc((logMcut - math.log10(M)) / (SQ2 * sigma))


def gauss(x, m, s):
    return 0.3989422804014327 / s * math.exp(-((x - m) ** 2) / 2 / s**2)


def ncen_elg(M, pmax, Q, logMcut, sigma, gamma):
    lm = math.log10(M)
    phi = gauss(lm, logMcut, sigma)
    Phi = 0.5 * (1 + math.erf(gamma * (lm - logMcut) / sigma / math.sqrt(2)))
    return 2.0 * (pmax - 1.0 / Q) * phi * Phi


def ncen_qso(M, logMcut, sigma):
    return 0.5 * (1 + math.erf((math.log10(M) - logMcut) / SQ2 / sigma))


def nsat_lrg(M, logMcut, Mcut, M1, sigma, alpha, kappa):
    if M - kappa * Mcut < 0:
        return 0.0
    return ((M - kappa * Mcut) / M1) ** alpha * 0.5 * math.erfc(
        (logMcut - math.log10(M)) / (SQ2 * sigma)
    )


def nsat_gen(M, Mcut, kappa, M1, alpha, A=1.0):
    if M - kappa * Mcut < 0:
        return 0.0
    return A * ((M - kappa * Mcut) / M1) ** alpha


def wrap(x, L):
    # into [-L/2, L/2)
    return (x + L / 2) % L - L / 2


def full(tr, name):
    """tracer dict with defaults the way gen_gals fills them (z_pivot not used here)"""
    d = dict(tr)
    for k in ('Acent', 'Asat', 'Bcent', 'Bsat'):
        d.setdefault(k, 0.0)
    d.setdefault('ic', 1.0)
    if name == 'ELG':
        d.setdefault('Ccent', 0.0)
        d.setdefault('Csat', 0.0)
        d.setdefault('logM1_EE', d['logM1'])
        d.setdefault('alpha_EE', d['alpha'])
        d.setdefault('logM1_EL', d['logM1'])
        d.setdefault('alpha_EL', d['alpha'])
    return d


def oracle(halos, parts, tracers, params, enable_ranks, rsd):
    """returns per tracer dict of arrays + Ncent, and a list of 'fragile' flags
    (host whose random is within tol of a marker)"""
    T = {k: full(v, k) for k, v in tracers.items()}
    L = params['Lbox']
    inv = 1 / params['velz2kms']
    origin = params['origin']
    H = len(halos['hmass'])
    zH = np.zeros(H)
    hd = halos.get('hdeltac', zH)
    hf = halos.get('hfenv', zH)
    hs = halos.get('hshear', zH)
    keepc = np.zeros(H, dtype=int)
    fragile = False
    out = {t: {k: [] for k in ('x', 'y', 'z', 'vx', 'vy', 'vz', 'mass', 'id')} for t in T}

    def place(t, p, v, m, i_d):
        p = np.array(p, dtype=float)
        if rsd and origin is not None:
            n = p - origin
            n = n / np.sqrt((n * n).sum())
            proj = inv * (v * n).sum()
            p = p + proj * n
        elif rsd:
            p[2] = wrap(p[2] + v[2] * inv, L)
        o = out[t]
        o['x'].append(p[0]); o['y'].append(p[1]); o['z'].append(p[2])
        o['vx'].append(v[0]); o['vy'].append(v[1]); o['vz'].append(v[2])
        o['mass'].append(m); o['id'].append(i_d)

    def decide(r, widths):
        nonlocal fragile
        lo = 0.0
        code = 0
        first = True
        for c, t in ((1, 'LRG'), (2, 'ELG'), (3, 'QSO')):
            if t not in T:
                continue
            hi = lo + widths[t]
            tol = 1e-9 * abs(hi)
            if abs(r - hi) < tol and abs(r - hi) > 0:
                fragile = True
            # slice (lo, hi], the first enabled slice also holds r == lo == 0
            if code == 0 and r <= hi and (hi > lo or not GUARD):
                code = c
            lo = hi
            first = False
        return code

    for i in range(H):
        M = float(halos['hmass'][i])
        w = {}
        if 'LRG' in T:
            p = T['LRG']
            w['LRG'] = ncen_lrg(M, p['logM_cut'] + p['Acent'] * hd[i] + p['Bcent'] * hf[i], p['sigma']) * p['ic'] * halos['hmultis'][i]
        if 'ELG' in T:
            p = T['ELG']
            w['ELG'] = ncen_elg(M, p['p_max'], p['Q'], p['logM_cut'] + p['Acent'] * hd[i] + p['Bcent'] * hf[i] + p['Ccent'] * hs[i], p['sigma'], p['gamma']) * p['ic'] * halos['hmultis'][i]
        if 'QSO' in T:
            p = T['QSO']
            w['QSO'] = ncen_qso(M, p['logM_cut'] + p['Acent'] * hd[i] + p['Bcent'] * hf[i], p['sigma']) * p['ic'] * halos['hmultis'][i]
        keepc[i] = decide(float(halos['hrandoms'][i]), w)
    for i in range(H):
        if keepc[i]:
            t = ('LRG', 'ELG', 'QSO')[keepc[i] - 1]
            v = halos['hvel'][i].astype(float) + T[t]['alpha_c'] * halos['hveldev'][i].astype(float)
            place(t, halos['hpos'][i], v, float(halos['hmass'][i]), int(halos['hid'][i]))
    ncent = {t: len(out[t]['x']) for t in T}

    P = len(parts['phmass'])
    zP = np.zeros(P)
    pd_ = parts.get('pdeltac', zP)
    pf = parts.get('pfenv', zP)
    ps = parts.get('pshear', zP)
    keeps = np.zeros(P, dtype=int)
    for i in range(P):
        M = float(parts['phmass'][i])
        kc = keepc[parts['pinds'][i]]
        w = {}
        wt = parts['pweights'][i]

        def deco(p):
            if not enable_ranks:
                return 1.0
            return 1 + p['s'] * parts['pranks'][i] + p['s_v'] * parts['pranksv'][i] + p['s_p'] * parts['pranksp'][i] + p['s_r'] * parts['pranksr'][i]

        if 'LRG' in T:
            p = T['LRG']
            lmc = p['logM_cut'] + p['Acent'] * pd_[i] + p['Bcent'] * pf[i]
            M1 = 10 ** (p['logM1'] + p['Asat'] * pd_[i] + p['Bsat'] * pf[i])
            w['LRG'] = nsat_lrg(M, lmc, 10**lmc, M1, p['sigma'], p['alpha'], p['kappa']) * wt * p['ic'] * deco(p)
        if 'ELG' in T:
            p = T['ELG']
            lmc = p['logM_cut'] + p['Acent'] * pd_[i] + p['Bcent'] * pf[i] + p['Ccent'] * ps[i]
            if kc == 1:
                M1 = 10 ** (p['logM1_EL'] + p['Asat'] * pd_[i] + p['Bsat'] * pf[i])
                al = p['alpha_EL']
            elif kc == 2:
                M1 = 10 ** (p['logM1_EE'] + p['Asat'] * pd_[i] + p['Bsat'] * pf[i])
                al = p['alpha_EE']
            else:
                M1 = 10 ** (p['logM1'] + p['Asat'] * pd_[i] + p['Bsat'] * pf[i] + p['Csat'] * ps[i])
                al = p['alpha']
            w['ELG'] = nsat_gen(M, 10**lmc, p['kappa'], M1, al, p['A_s']) * wt * p['ic'] * deco(p)
        if 'QSO' in T:
            p = T['QSO']
            lmc = p['logM_cut'] + p['Acent'] * pd_[i] + p['Bcent'] * pf[i]
            M1 = 10 ** (p['logM1'] + p['Asat'] * pd_[i] + p['Bsat'] * pf[i])
            w['QSO'] = nsat_gen(M, 10**lmc, p['kappa'], M1, p['alpha']) * wt * p['ic'] * deco(p)
        keeps[i] = decide(float(parts['prandoms'][i]), w)
    for i in range(P):
        if keeps[i]:
            t = ('LRG', 'ELG', 'QSO')[keeps[i] - 1]
            hv = parts['phvel'][i].astype(float)
            v = hv + T[t]['alpha_s'] * (parts['pvel'][i].astype(float) - hv)
            place(t, parts['ppos'][i], v, float(parts['phmass'][i]), int(parts['phid'][i]))
    res = {}
    for t in T:
        res[t] = {k: np.array(v, dtype=(np.int64 if k == 'id' else np.float64)) for k, v in out[t].items()}
        res[t]['Ncent'] = ncent[t]
    return res, fragile, keepc


LRG = dict(logM_cut=13.3, logM1=14.3, sigma=0.3, alpha=1.0, kappa=0.4, alpha_c=0.0, alpha_s=1.0, s=0.0, s_v=0.0, s_p=0.0, s_r=0.0, Acent=0.0, Asat=0.0, Bcent=0.0, Bsat=0.0, ic=0.97)
ELG = dict(p_max=0.53, Q=10.0, logM_cut=11.8, kappa=1.8, sigma=0.58, logM1=13.73, alpha=0.7, gamma=6.12, A_s=1.0, alpha_c=0.0, alpha_s=1.0, s=0.0, s_v=0.0, s_p=0.0, s_r=0.0, Acent=0.0, Asat=0.0, Bcent=0.0, Bsat=0.0, ic=1.0)
QSO = dict(logM_cut=12.21, kappa=1.0, sigma=0.56, logM1=13.94, alpha=0.4, alpha_c=0.0, alpha_s=1.0, s=0.0, s_v=0.0, s_p=0.0, s_r=0.0, Acent=0.0, Asat=0.0, Bcent=0.0, Bsat=0.0, ic=1.0)


def make(rng, H, L=2000.0, npmax=6, special=True, f32=False):
    halos = {}
    halos['hpos'] = rng.uniform(-L / 2, L / 2, (H, 3)).astype(np.float32)
    halos['hvel'] = rng.normal(0, 600, (H, 3)).astype(np.float32)
    halos['hmass'] = 10 ** rng.uniform(11, 15.3, H)
    halos['hid'] = rng.permutation(H).astype(np.int64) * 7 + 3
    halos['hmultis'] = rng.integers(1, 4, H).astype(np.int64) if H else np.zeros(0, np.int64)
    r = rng.uniform(0, 1, H).astype(np.float32)
    if special and H:
        r[rng.random(H) < 0.15] = 0.0
    halos['hrandoms'] = r
    halos['hveldev'] = rng.normal(0, 200, (H, 3)).astype(np.float32)
    halos['hdeltac'] = rng.uniform(-0.5, 0.5, H)
    halos['hfenv'] = rng.uniform(-0.5, 0.5, H)
    halos['hshear'] = rng.uniform(-0.5, 0.5, H)
    halos['hsigma3d'] = rng.uniform(100, 800, H)
    halos['hc'] = rng.uniform(2, 10, H)
    halos['hrvir'] = rng.uniform(0.1, 2, H)
    npart = rng.integers(0, npmax, H) if H else np.zeros(0, int)
    pinds = np.repeat(np.arange(H), npart)
    P = len(pinds)
    parts = {}
    parts['pinds'] = pinds
    parts['ppos'] = (halos['hpos'][pinds] + rng.normal(0, 0.5, (P, 3))).astype(np.float32)
    parts['pvel'] = (halos['hvel'][pinds] + rng.normal(0, 300, (P, 3))).astype(np.float32)
    parts['phvel'] = halos['hvel'][pinds]
    parts['phmass'] = halos['hmass'][pinds]
    parts['phid'] = halos['hid'][pinds]
    parts['pweights'] = rng.uniform(0.01, 0.6, P)
    r = rng.uniform(0, 1, P).astype(np.float32)
    if special and P:
        r[rng.random(P) < 0.15] = 0.0
    parts['prandoms'] = r
    parts['pdeltac'] = halos['hdeltac'][pinds]
    parts['pfenv'] = halos['hfenv'][pinds]
    parts['pshear'] = halos['hshear'][pinds]
    for k in ('pranks', 'pranksv', 'pranksp', 'pranksr', 'pranksc'):
        parts[k] = rng.uniform(-1, 1, P)
    if not f32:
        for d in (halos, parts):
            for k in d:
                if d[k].dtype == np.float32:
                    d[k] = d[k].astype(np.float64)
    return halos, parts


def compare(got, exp, tag):
    bad = []
    for t in exp:
        if t not in got:
            bad.append((tag, t, 'missing tracer'))
            continue
        if got[t].get('Ncent') != exp[t]['Ncent']:
            bad.append((tag, t, 'Ncent', got[t].get('Ncent'), exp[t]['Ncent']))
        for k in ('x', 'y', 'z', 'vx', 'vy', 'vz', 'mass', 'id'):
            a = np.asarray(got[t][k])
            b = exp[t][k]
            if a.shape != b.shape:
                bad.append((tag, t, k, 'shape', a.shape, b.shape))
                continue
            if k == 'id':
                ok = np.array_equal(a, b)
            else:
                ok = np.allclose(a, b, rtol=RTOL, atol=ATOL)
            if not ok:
                j = np.flatnonzero(~np.isclose(a, b, rtol=RTOL, atol=ATOL))[:3]
                bad.append((tag, t, k, 'values', j.tolist(), a[j].tolist(), b[j].tolist()))
    return bad


def run_sweep(seed=0, quick=False):
    rng = np.random.default_rng(seed)
    nbad = 0
    ncase = 0
    nfrag = 0
    variants = []
    base = {'LRG': LRG, 'ELG': ELG, 'QSO': QSO}
    # parameter variants
    def mod(**kw):
        out = {t: dict(base[t]) for t in base}
        for k, v in kw.items():
            t, key = k.split('__')
            out[t][key] = v
        return out
    variants.append(('base', mod()))
    variants.append(('AB', mod(LRG__Acent=0.3, LRG__Asat=-0.2, LRG__Bcent=-0.4, LRG__Bsat=0.25, ELG__Acent=0.1, ELG__Asat=0.2, ELG__Bcent=0.3, ELG__Bsat=-0.1, ELG__Ccent=0.2, ELG__Csat=-0.3, QSO__Acent=0.2, QSO__Bsat=0.4, QSO__Asat=-0.2, QSO__Bcent=0.1)))
    variants.append(('vb', mod(LRG__alpha_c=0.4, LRG__alpha_s=0.8, ELG__alpha_c=0.2, ELG__alpha_s=1.3, QSO__alpha_c=1.1, QSO__alpha_s=0.5)))
    variants.append(('ranks', mod(LRG__s=0.5, LRG__s_v=-0.3, LRG__s_p=0.2, LRG__s_r=0.1, ELG__s=-0.4, ELG__s_v=0.3, QSO__s_p=0.6, QSO__s_r=-0.5)))
    variants.append(('conf', mod(ELG__logM1_EE=13.0, ELG__alpha_EE=0.9, ELG__logM1_EL=13.4, ELG__alpha_EL=0.5, ELG__Csat=0.3, ELG__Ccent=-0.2)))
    variants.append(('ic', mod(LRG__ic=0.3, ELG__ic=0.5, QSO__ic=0.0)))
    variants.append(('big', mod(LRG__logM_cut=11.5, LRG__logM1=12.0, ELG__logM1=12.0, QSO__logM_cut=11.0, QSO__logM1=12.0)))
    subsets = [s for n in (1, 2, 3) for s in itertools.permutations(('LRG', 'ELG', 'QSO'), n)]
    if quick:
        subsets = [('LRG',), ('ELG',), ('QSO',), ('QSO', 'LRG'), ('ELG', 'QSO'), ('LRG', 'ELG', 'QSO'), ('QSO', 'ELG', 'LRG')]
    Hs = [0, 1, 2, 3, 5, 17, 64, 333]
    threads = [1, 2, 3, 1, 2, 4, 1]
    origins = [None, np.array([-990.0, -990.0, -990.0]), np.array([3000.0, 10.0, -5000.0])]
    for H in Hs:
        halos, parts = make(rng, H, f32=F32)
        for vname, tr_all in variants:
            for sub in subsets:
                tracers = {t: tr_all[t] for t in sub}
                for rsd in (False, True):
                    for oi, origin in enumerate(origins):
                        if not rsd and oi > 0:
                            continue
                        for er in ((False, True) if vname == 'ranks' else (False,)):
                            params = dict(z=0.5, velz2kms=rng.choice([1.0, 97.3, 160000.0 / 2000]), Lbox=2000.0, origin=origin, Mpart=2.1e9, chunk=-1)
                            exp, fragile, _ = oracle(halos, parts, tracers, params, er, rsd)
                            nfrag += fragile
                            nt = threads[ncase % len(threads)]
                            tr_copy = {t: dict(v) for t, v in tracers.items()}
                            got = G.gen_gal_cat(halos, parts, tracers, params, Nthread=nt, enable_ranks=er, rsd=rsd)
                            assert tracers == tr_copy, 'tracers mutated'
                            bad = compare(got, exp, (H, vname, sub, rsd, oi, er, nt))
                            ncase += 1
                            if ncase % 100 == 0:
                                print('progress', ncase, nbad, flush=True)
                            if bad and not fragile:
                                nbad += 1
                                if nbad < 15:
                                    for b in bad[:4]:
                                        print('MISMATCH', b)
    print('cases', ncase, 'bad', nbad, 'fragile', nfrag)
    return nbad


if __name__ == '__main__':
    sys.exit(1 if run_sweep(int(sys.argv[1]) if len(sys.argv) > 1 else 0, quick=('quick' in sys.argv)) else 0)
