#!/venv/bin/python
"""C09 demo 1: an ENABLED tracer whose mean occupation at a host is exactly 0
(an empty slice) still captures a host / particle whose stored random number is
exactly 0.0, and the later tracer, whose slice really starts at 0, loses it.

Run with cwd=/repo (PYTHONPATH=/repo).  Exit status 1 on
the defect, 0 when the chain respects empty slices.
"""
import sys
import warnings

import numpy as np

sys.path.insert(0, '/repo')
import abacusnbody
from abacusnbody.hod import GRAND_HOD as G

assert abacusnbody.__file__.startswith('/repo'), abacusnbody.__file__
warnings.simplefilter('ignore')

# the template parameters of scripts/hod/config/abacus_hod.yaml
LRG = dict(logM_cut=13.3, logM1=14.4, sigma=0.8, alpha=1.0, kappa=0.4, alpha_c=0, alpha_s=1,
           s=0, s_v=0, s_p=0, s_r=0, Acent=0, Asat=0, Bcent=0, Bsat=0, ic=1.0)
ELG = dict(p_max=0.53, Q=10.0, logM_cut=12.3, kappa=1.0, sigma=0.58, logM1=13.53, alpha=0.9,
           gamma=4.12, A_s=1.0, alpha_c=0, alpha_s=1, s=0, s_v=0, s_p=0, s_r=0,
           Acent=0, Asat=0, Bcent=0, Bsat=0, ic=1.0)
QSO = dict(p_max=0.33, logM_cut=12.21, kappa=1.0, sigma=0.56, logM1=13.94, alpha=0.4, A_s=1.0,
           alpha_c=0, alpha_s=1, s=0, s_v=0, s_p=0, s_r=0, Acent=0, Asat=0, Bcent=0, Bsat=0, ic=1.0)

# two halos; halo 0 (1e11 Msun/h) carries the stored random 0.0, halo 1 is a bystander.
# halo 1 (5e12) owns two particles; particle 0 carries the stored random 0.0.
hmass = np.array([1e11, 5e12])
halos = dict(
    hpos=np.array([[10.0, 20.0, 30.0], [-40.0, 50.0, -60.0]]),
    hvel=np.array([[100.0, -200.0, 300.0], [-10.0, 20.0, -30.0]]),
    hmass=hmass,
    hid=np.array([111, 222], dtype=np.int64),
    hmultis=np.array([1, 1], dtype=np.int64),
    hrandoms=np.array([0.0, 0.999]),
    hveldev=np.zeros((2, 3)),
)
pinds = np.array([1, 1])
parts = dict(
    pinds=pinds,
    ppos=np.array([[-40.2, 50.1, -60.3], [-39.5, 49.0, -61.0]]),
    pvel=np.array([[-110.0, 220.0, -330.0], [90.0, -80.0, 70.0]]),
    phvel=halos['hvel'][pinds],
    phmass=hmass[pinds],
    phid=halos['hid'][pinds],
    pweights=np.array([0.5, 0.5]),
    prandoms=np.array([0.0, 0.999]),
)
for k in ('pranks', 'pranksv', 'pranksp', 'pranksr', 'pranksc'):
    parts[k] = np.ones(2)
params = dict(z=0.5, velz2kms=100.0, Lbox=2000.0, origin=None, Mpart=2.1e9, chunk=-1)

# the package's own mean-occupation functions at these hosts
w_cen_ELG = G.N_cen_ELG_v1(1e11, ELG['p_max'], ELG['Q'], ELG['logM_cut'], ELG['sigma'], ELG['gamma'])
w_cen_QSO = G.N_cen_QSO(1e11, QSO['logM_cut'], QSO['sigma'])
w_sat_LRG = 0.5 * G.n_sat_LRG_modified(5e12, LRG['logM_cut'], 10 ** LRG['logM_cut'], 10 ** LRG['logM1'],
                                       LRG['sigma'], LRG['alpha'], LRG['kappa'])
w_sat_ELG = 0.5 * G.N_sat_elg(5e12, 10 ** ELG['logM_cut'], ELG['kappa'], 10 ** ELG['logM1'], ELG['alpha'], ELG['A_s'])
print('central slices at M=1e11 : ELG width %r, QSO width %r' % (w_cen_ELG, w_cen_QSO))
print('satellite slices at M=5e12, weight 0.5 : LRG width %r, ELG width %r' % (w_sat_LRG, w_sat_ELG))
assert w_cen_ELG == 0.0 and w_cen_QSO > 0 and w_sat_LRG == 0.0 and w_sat_ELG > 0

fail = 0
for nthread in (1, 2):
    # ---- centrals: ELG (empty slice) + QSO (slice [0, 0.0154]) ; stored random 0.0
    g = G.gen_gal_cat(halos, parts, {'ELG': ELG, 'QSO': QSO}, params, Nthread=nthread, rsd=False)
    elg_c = g['ELG']['id'][: g['ELG']['Ncent']].tolist()
    qso_c = g['QSO']['id'][: g['QSO']['Ncent']].tolist()
    print('Nthread=%d  tracers ELG+QSO : ELG centrals on halos %s, QSO centrals on halos %s' % (nthread, elg_c, qso_c))
    if 111 in elg_c:
        print('   FAIL: halo 111 hosts an ELG central although N_cen_ELG(M) * ic * multi == 0 there')
        fail = 1
    if 111 not in qso_c:
        print('   FAIL: halo 111 (random 0.0 inside the QSO slice [0, %.4f]) hosts no QSO central' % w_cen_QSO)
        fail = 1
    # ---- satellites: LRG (empty slice) + ELG (slice [0, 0.056]) ; stored random 0.0
    g = G.gen_gal_cat(halos, parts, {'LRG': LRG, 'ELG': ELG}, params, Nthread=nthread, rsd=False)
    lrg_s = g['LRG']['x'][g['LRG']['Ncent']:].tolist()
    elg_s = g['ELG']['x'][g['ELG']['Ncent']:].tolist()
    print('Nthread=%d  tracers LRG+ELG : LRG satellites at x=%s, ELG satellites at x=%s' % (nthread, lrg_s, elg_s))
    if lrg_s:
        print('   FAIL: a particle of a 5e12 halo (< kappa*M_cut = 8e12, n_sat_LRG == 0) became an LRG satellite')
        fail = 1
    if elg_s != [-40.2]:
        print('   FAIL: particle 0 (random 0.0 inside the ELG slice [0, %.4f]) is not an ELG satellite' % w_sat_ELG)
        fail = 1

print('DEFECT PRESENT' if fail else 'OK')
sys.exit(fail)
