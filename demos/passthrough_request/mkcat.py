"""Synthetic uncompressed CompaSO catalog builder (independent of the package)."""
import numpy as np, asdf, os
from pathlib import Path

NPREV = 3

def raw_halo_columns(rng, n, start_id, npA0=0, npB0=0):
    c = {}
    c['id'] = (np.arange(n, dtype=np.uint64) + np.uint64(start_id))
    c['npoutA'] = rng.integers(0, 5, n).astype(np.uint32)
    c['npoutB'] = rng.integers(0, 7, n).astype(np.uint32)
    # leave gaps (L0 particles) between halos
    gapA = rng.integers(0, 3, n); gapB = rng.integers(0, 3, n)
    sA = np.cumsum(gapA + np.concatenate(([0], c['npoutA'][:-1]))) if n else np.zeros(0)
    sB = np.cumsum(gapB + np.concatenate(([0], c['npoutB'][:-1]))) if n else np.zeros(0)
    c['npstartA'] = sA.astype(np.uint64); c['npstartB'] = sB.astype(np.uint64)
    c['ntaggedA'] = rng.integers(0, 5, n).astype(np.uint32)
    c['ntaggedB'] = rng.integers(0, 5, n).astype(np.uint32)
    c['N'] = rng.integers(30, 5000, n).astype(np.uint32)
    c['L2_N'] = rng.integers(0, 300, (n, 5)).astype(np.uint32)
    c['L0_N'] = rng.integers(30, 9000, n).astype(np.uint32)
    for com, so in (('_com', 'SO'), ('_L2com', 'SO_L2max')):
        c['x' + com] = rng.uniform(-.5, .5, (n, 3)).astype(np.float32)
        c['v' + com] = rng.normal(0, 1, (n, 3)).astype(np.float32)
        for f in ('sigmav3d', 'meanSpeed', 'sigmav3d_r50', 'meanSpeed_r50', 'vcirc_max'):
            c[f + com] = rng.uniform(.1, 3, n).astype(np.float32)
        c['r100' + com] = rng.uniform(1e-3, 1e-2, n).astype(np.float32)
        c[so + '_central_particle'] = rng.uniform(-.5, .5, (n, 3)).astype(np.float32)
        c[so + '_central_density'] = rng.uniform(1, 1000, n).astype(np.float32)
        c[so + '_radius'] = rng.uniform(1e-3, 1e-2, n).astype(np.float32)
        # min <= max, min^2+max^2 <= 1 to keep Mid real
        mx = rng.uniform(0.58, 0.8, n); mn = rng.uniform(0.1, 0.5, n)
        c['sigmavMin_to_sigmav3d' + com + '_i16'] = (mn * 32000).astype(np.int16)
        c['sigmavMax_to_sigmav3d' + com + '_i16'] = (mx * 32000).astype(np.int16)
        c['sigmavrad_to_sigmav3d' + com + '_i16'] = rng.integers(0, 32000, n).astype(np.int16)
        c['sigmavtan_to_sigmav3d' + com + '_i16'] = rng.integers(0, 32000, n).astype(np.int16)
        for r in (10, 25, 33, 50, 67, 75, 90, 95, 98):
            c[f'r{r}{com}_i16'] = rng.integers(0, 32001, n).astype(np.int16)
        c['rvcirc_max' + com + '_i16'] = rng.integers(0, 32001, n).astype(np.int16)
        c['sigmar' + com + '_i16'] = rng.integers(0, 32001, (n, 3)).astype(np.int16)
        c['sigman' + com + '_i16'] = rng.integers(0, 32001, (n, 3)).astype(np.int16)
        for e in ('sigmav', 'sigmar', 'sigman'):
            c[e + '_eigenvecs' + com + '_u16'] = rng.integers(0, 45 * 121 * 12, n).astype(np.uint16)
    return c

def clean_columns(rng, n, start_id, raw):
    c = {}
    c['npoutA_merge'] = rng.integers(0, 4, n).astype(np.uint32)
    c['npoutB_merge'] = rng.integers(0, 4, n).astype(np.uint32)
    c['npstartA_merge'] = (np.cumsum(c['npoutA_merge']) - c['npoutA_merge']).astype(np.int64)
    c['npstartB_merge'] = (np.cumsum(c['npoutB_merge']) - c['npoutB_merge']).astype(np.int64)
    c['N_merge'] = rng.integers(0, 50, n).astype(np.uint32)
    ntot = raw['N'] + c['N_merge']
    dead = rng.random(n) < 0.2
    ntot[dead] = 0
    c['npoutA_merge'][dead] = 0; c['npoutB_merge'][dead] = 0
    c['npstartA_merge'] = (np.cumsum(c['npoutA_merge']) - c['npoutA_merge']).astype(np.int64)
    c['npstartB_merge'] = (np.cumsum(c['npoutB_merge']) - c['npoutB_merge']).astype(np.int64)
    c['N_total'] = ntot.astype(np.uint32)
    c['haloindex'] = (np.arange(n, dtype=np.uint64) + np.uint64(start_id))
    c['is_merged_to'] = np.where(dead, 5, -1).astype(np.int64)
    c['N_mainprog'] = rng.integers(0, 5000, (n, NPREV)).astype(np.uint32)
    c['vcirc_max_L2com_mainprog'] = rng.uniform(0, 3, (n, NPREV)).astype(np.float32)
    c['sigmav3d_L2com_mainprog'] = rng.uniform(0, 3, (n, NPREV)).astype(np.float32)
    c['haloindex_mainprog'] = rng.integers(0, 1 << 40, n).astype(np.int64)
    c['v_L2com_mainprog'] = rng.normal(0, 1, (n, 3)).astype(np.float32)
    return c

HEADER = dict(BoxSize=32.0, VelZSpace_to_kms=3200.0, ppd=64.0, SimName='Synth',
              Redshift=0.0, FullStepNumber=100, ParticleMassHMsun=1e9)

def write(fn, data, header):
    fn = Path(fn); fn.parent.mkdir(parents=True, exist_ok=True)
    asdf.AsdfFile(dict(data=data, header=dict(header))).write_to(fn, all_array_storage='internal')

def build(root, nhalos=(7, 0, 11), seed=1):
    """Returns dict with paths; raw/clean per-file columns kept for oracle."""
    rng = np.random.default_rng(seed)
    root = Path(root)
    sim = root / 'Synth'
    zdir = sim / 'halos' / 'z0.000'
    cdir = root / 'cleaning' / 'Synth' / 'z0.000'
    raws, cleans = [], []
    for i, n in enumerate(nhalos):
        raw = raw_halo_columns(rng, n, start_id=i * 1000)
        cl = clean_columns(rng, n, i * 1000, raw)
        raws.append(raw); cleans.append(cl)
        write(zdir / 'halo_info' / f'halo_info_{i:03d}.asdf', raw, HEADER)
        ch = dict(HEADER); ch['TimeSliceRedshiftsPrev'] = [0.1 * (k + 1) for k in range(NPREV)]
        write(cdir / 'cleaned_halo_info' / f'cleaned_halo_info_{i:03d}.asdf', cl, ch)
        rvp = {}
        for AB in 'AB':
            npart = int((raw['npstart' + AB] + raw['npout' + AB]).max()) + 2 if n else 2
            rv = rng.integers(-2**31, 2**31 - 1, (npart, 3)).astype(np.int32)
            pid = rng.integers(0, 2**62, npart).astype(np.uint64)
            write(zdir / f'halo_rv_{AB}' / f'halo_rv_{AB}_{i:03d}.asdf', dict(rvint=rv), HEADER)
            write(zdir / f'halo_pid_{AB}' / f'halo_pid_{AB}_{i:03d}.asdf', dict(packedpid=pid), HEADER)
            nm = int(cl[f'npout{AB}_merge'].sum()) + 1
            rvp[f'rvint_{AB}'] = rng.integers(-2**31, 2**31 - 1, (nm, 3)).astype(np.int32)
            rvp[f'packedpid_{AB}'] = rng.integers(0, 2**62, nm).astype(np.uint64)
        write(cdir / 'cleaned_rvpid' / f'cleaned_rvpid_{i:03d}.asdf', rvp, HEADER)
    return dict(zdir=zdir, cleandir=root / 'cleaning', raws=raws, cleans=cleans)
