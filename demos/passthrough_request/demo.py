#!/venv/bin/python
"""C02 demo: in passthrough mode, whether a halo column can be loaded depends on
how/with what it was requested.

  * fields='all'                  -> works, returns every raw + cleaning column
  * the same names as a list      -> cleaning columns silently dropped; with
                                     subsamples: KeyError('N_total')
  * default field set             -> UnboundLocalError / KeyError
  * any explicit list + subsamples-> KeyError('N_total')

Exits 1 on the unmodified tree, 0 with fix.diff applied.
Run with cwd=/repo.
"""
import os, sys, types, tempfile, warnings, shutil
from pathlib import Path

WT = '/repo'
os.chdir(WT); sys.path.insert(0, WT)
_b = types.ModuleType('blosc'); _b.set_nthreads = lambda n: None
sys.modules['blosc'] = _b
import numpy as np, asdf
import abacusnbody
assert abacusnbody.__file__.startswith(WT), abacusnbody.__file__
try:
    import asdf._compression as _ac
except ImportError:
    import asdf.compression as _ac
try:
    _ac.validate('blsc')
except Exception:
    from abacusnbody.data.asdf import AbacusExtension
    asdf.get_config().add_extension(AbacusExtension())
from abacusnbody.data.compaso_halo_catalog import CompaSOHaloCatalog
warnings.simplefilter('ignore')

HEADER = dict(BoxSize=32.0, VelZSpace_to_kms=3200.0, ppd=64.0, SimName='Synth', Redshift=0.0)

def write(fn, data, header):
    fn.parent.mkdir(parents=True, exist_ok=True)
    asdf.AsdfFile(dict(data=data, header=dict(header))).write_to(fn, all_array_storage='internal')

def build(root, nhalos=(6, 0, 9)):
    rng = np.random.default_rng(42)
    zdir = root / 'Synth' / 'halos' / 'z0.000'
    cdir = root / 'cleaning' / 'Synth' / 'z0.000'
    for i, n in enumerate(nhalos):
        raw = {'id': np.arange(n, dtype=np.uint64) + np.uint64(1000 * i),
               'N': rng.integers(30, 999, n).astype(np.uint32),
               'x_com': rng.uniform(-.5, .5, (n, 3)).astype(np.float32),
               'r10_com_i16': rng.integers(0, 32000, n).astype(np.int16)}
        cl = {'N_merge': rng.integers(0, 9, n).astype(np.uint32),
              'haloindex': np.arange(n, dtype=np.uint64)}
        dead = rng.random(n) < 0.25
        cl['N_total'] = np.where(dead, 0, raw['N'] + cl['N_merge']).astype(np.uint32)
        rvp = {}
        for AB in 'AB':
            raw['npout' + AB] = rng.integers(0, 5, n).astype(np.uint32)
            gap = rng.integers(0, 3, n)
            raw['npstart' + AB] = (np.cumsum(gap + raw['npout' + AB]) - raw['npout' + AB]).astype(np.uint64)
            m = rng.integers(0, 4, n).astype(np.uint32); m[dead] = 0
            cl[f'npout{AB}_merge'] = m
            cl[f'npstart{AB}_merge'] = (np.cumsum(m) - m).astype(np.int64)
            npart = int((raw['npstart' + AB] + raw['npout' + AB]).max()) + 1 if n else 1
            write(zdir / f'halo_rv_{AB}' / f'halo_rv_{AB}_{i:03d}.asdf',
                  dict(rvint=rng.integers(-2**31, 2**31 - 1, (npart, 3)).astype(np.int32)), HEADER)
            write(zdir / f'halo_pid_{AB}' / f'halo_pid_{AB}_{i:03d}.asdf',
                  dict(packedpid=rng.integers(0, 2**62, npart).astype(np.uint64)), HEADER)
            nm = int(m.sum()) + 1
            rvp[f'rvint_{AB}'] = rng.integers(-2**31, 2**31 - 1, (nm, 3)).astype(np.int32)
            rvp[f'packedpid_{AB}'] = rng.integers(0, 2**62, nm).astype(np.uint64)
        write(zdir / 'halo_info' / f'halo_info_{i:03d}.asdf', raw, HEADER)
        write(cdir / 'cleaned_halo_info' / f'cleaned_halo_info_{i:03d}.asdf', cl,
              dict(HEADER, TimeSliceRedshiftsPrev=[0.1, 0.2]))
        write(cdir / 'cleaned_rvpid' / f'cleaned_rvpid_{i:03d}.asdf', rvp, HEADER)
    return zdir

RAW = ['id', 'N', 'x_com', 'r10_com_i16', 'npstartA', 'npoutA', 'npstartB', 'npoutB']
CLEAN = ['N_merge', 'haloindex', 'N_total', 'npstartA_merge', 'npoutA_merge', 'npstartB_merge', 'npoutB_merge']

def same(a, b):
    a = np.asarray(a); b = np.asarray(b)
    return a.dtype == b.dtype and a.shape == b.shape and np.array_equal(a, b)

def main():
    tmp = Path(tempfile.mkdtemp(prefix='c02demo_'))
    problems = []
    try:
        zdir = build(tmp)
        SUBS = [False, True, dict(A=True, rvint=True), dict(B=True, packedpid=True)]
        for sub in SUBS:
            mk = lambda: dict(sub) if isinstance(sub, dict) else sub
            # reference: the same catalog through fields='all' (works on the unmodified tree)
            ref = CompaSOHaloCatalog(zdir, cleaned=True, passthrough=True, fields='all', subsamples=mk())
            requests = [[c] for c in RAW + CLEAN]
            requests += [['id', 'N_total'], ['N_total', 'id'], ['haloindex', 'x_com', 'N_merge'],
                         RAW + CLEAN, (RAW + CLEAN)[::-1], None]   # None = default field set
            for req in requests:
                kw = {} if req is None else dict(fields=list(req))
                tag = f'subsamples={sub!r} fields={"<default>" if req is None else req}'
                try:
                    cat = CompaSOHaloCatalog(zdir, cleaned=True, passthrough=True, subsamples=mk(), **kw)
                except Exception as e:
                    problems.append(f'RAISES  {tag}: {e!r}')
                    continue
                for c in (req or []):
                    if c not in ref.halos.colnames:
                        continue  # merge index columns are consumed by the subsample reindexing, also under 'all'
                    if c not in cat.halos.colnames:
                        problems.append(f'DROPPED {tag}: requested column {c!r} not in result {cat.halos.colnames}')
                    elif not same(cat.halos[c], ref.halos[c]):
                        problems.append(f'DIFFERS {tag}: column {c!r}')
                for c in ref.subsamples.colnames:
                    if c not in cat.subsamples.colnames or not same(cat.subsamples[c], ref.subsamples[c]):
                        problems.append(f'SUBSAMPLES DIFFER {tag}: {c!r}')
    finally:
        shutil.rmtree(tmp, ignore_errors=True)
    for p in problems[:25]:
        print(p)
    if problems:
        print(f'... {len(problems)} problems in total')
        print('FAIL: C02 violated (passthrough: result depends on how the columns were requested)')
        return 1
    print('PASS: every requested column loads, with values identical to fields="all"')
    return 0

if __name__ == '__main__':
    sys.exit(main())
