#!/venv/bin/python
"""C17 demo: partition_parallel puts particles that lie exactly ON a stripe
boundary (and float32 particles one ulp below it) into the wrong stripe.

Clause: "stripe s holds exactly the particles with
floor(x*npartition/BoxSize) = s (the last stripe closed above)", quantified
over "values on stripe boundaries" x npartition x dtype.

Run with cwd=/repo:
    cd /repo && PYTHONPATH=/repo /venv/bin/python /tmp/hunt_C17/demo.py
Exit status 1 on the unmodified tree, 0 with fix.diff applied.
"""
import sys
from fractions import Fraction

import numpy as np

sys.path.insert(0, '/repo')
import abacusnbody  # noqa: E402
from abacusnbody.analysis.tsc import partition_parallel  # noqa: E402

assert abacusnbody.__file__.startswith('/repo'), abacusnbody.__file__


def oracle(x, npartition, box):
    """floor(x*npartition/BoxSize) in exact rational arithmetic on the stored
    values, last stripe closed above."""
    k = (Fraction(float(x)) * npartition / Fraction(float(box))).__floor__()
    return min(k, npartition - 1)


def stripe_of_rows(starts):
    return np.repeat(np.arange(len(starts) - 1), np.diff(starts))


nbad = 0
ncheck = 0


def run(xs, npartition, box, dtype, nthread, label):
    """Partition particles whose x are `xs`; y carries the row id."""
    global nbad, ncheck
    xs = np.asarray(xs, dtype=dtype)
    pos = np.zeros((len(xs), 3), dtype=dtype)
    pos[:, 0] = xs
    pos[:, 1] = np.arange(len(xs))
    w = np.arange(len(xs), dtype=dtype) + 100
    ps, starts, ws = partition_parallel(pos, npartition, box, weights=w, coord=0, nthread=nthread)
    got = stripe_of_rows(starts)
    for row in range(len(ps)):
        x = ps[row, 0]
        want = oracle(x, npartition, box)
        # same formula evaluated in floating point, for reference
        f64 = min(int(np.floor(np.float64(x) * npartition / box)), npartition - 1)
        f32 = min(int(np.floor(np.float32(x) * np.float32(npartition) / np.float32(box))), npartition - 1)
        ncheck += 1
        if got[row] != want:
            nbad += 1
            print(
                f'WRONG STRIPE [{label}] dtype={np.dtype(dtype).name} BoxSize={box} npartition={npartition} '
                f'nthread={nthread} x={x!r}: x*npartition/BoxSize = {Fraction(float(x)) * npartition / Fraction(float(box))} '
                f'-> stripe {want} expected (float64 eval {f64}, float32 eval {f32}), partition_parallel put it in stripe {got[row]}'
            )


for nthread in (1, 4):
    for dtype in (np.float32, np.float64):
        # (a) particles EXACTLY on a stripe boundary x = s*BoxSize/npartition,
        #     all quantities exactly representable; x*npartition/BoxSize is
        #     the integer s exactly, so the particle belongs to stripe s.
        run([1500.0], 36, 2000.0, dtype, nthread, 'on boundary')  # s = 27, AbacusSummit base box
        run([750.0], 36, 1000.0, dtype, nthread, 'on boundary')  # s = 27
        run([375.0], 36, 500.0, dtype, nthread, 'on boundary')  # s = 27
    # box = 22: float32 misfiles x=11 for npartition=26, float64 for npartition=30
    run([11.0], 26, 22.0, np.float32, nthread, 'on boundary')  # s = 13
    run([11.0], 30, 22.0, np.float64, nthread, 'on boundary')  # s = 15
    # whole set of boundaries of one box at once (0, BoxSize included)
    run([s * 750.0 / 54 for s in range(55) if (s * 750) % 54 == 0], 54, 750.0, np.float32, nthread, 'on boundary')
    # (b) float32 particle one ulp BELOW the boundary: belongs to the lower
    #     stripe under exact, float64 and float32 evaluation of the formula
    below = np.nextafter(np.float32(1000.0), np.float32(0))
    run([below], 2, 2000.0, np.float32, nthread, 'one ulp below boundary')  # stripe 0
    below = np.nextafter(np.float32(250.0), np.float32(0))
    run([below], 8, 2000.0, np.float32, nthread, 'one ulp below boundary')  # stripe 0

print(f'{ncheck} particles checked, {nbad} in the wrong stripe')
sys.exit(1 if nbad else 0)
