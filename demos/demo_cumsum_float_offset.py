import sys; sys.path.insert(0, '/repo')
"""C19: cumsum does not start from a fractional offset when the output is an
integer array: `total = dtype(offset)` truncates the offset to the output dtype
before the first addition (the part of F30 -- terms truncated one by one -- that
the repair c42f659 left in place for the offset).

Exits non-zero on the unmodified tree, zero once fix.diff is applied.
"""
import sys
import numpy as np
import abacusnbody
from abacusnbody.util import cumsum

print('abacusnbody from', abacusnbody.__file__)
bad = 0


def oracle(arr, odt, initial, final, offset):
    # partial sums S_0 = offset, S_k = offset + a_0 + ... + a_{k-1}, in float64
    # (all values used here are exactly representable), converted on the store
    S = [np.float64(offset)]
    for x in arr:
        S.append(S[-1] + np.float64(x))
    N = len(arr)
    sel = ([S[0]] if initial else []) + S[1:N] + ([S[N]] if final and N > 0 else [])
    if N == 0:
        sel = [S[0]] if (initial and final) else []
    return np.array(sel, dtype=np.float64).astype(odt), S[N]


cases = [
    # (input, offset)
    (np.array([0.5, 0.5, 0.5]), 0.5),          # float terms, fractional offset
    (np.array([0.25] * 6), 0.75),
    (np.array([0.5, 0.5, 0.5], np.float32), np.float32(0.5)),
    ([0.5, 0.5, 0.5], 0.5),                    # list input
    (np.array([-1, 1, 1], np.int64), 0.5),     # integer terms: sign change
    (np.array([1, 2, 3], np.uint32), 2.5),     # integer terms: only the total shows it
    (np.array([0.5]), 0.5),                    # length 1
    (np.zeros(0), 0.5),                        # length 0
    (np.array([0.5, 0.5, 0.5]), 0.0),          # controls: must stay right
    (np.array([0.5, 0.5, 0.5]), 2),
    (np.array([1, 2, 3]), 2),
]
for arr, offset in cases:
    for odt in (np.int64, np.uint64, np.int32):
        for initial in (False, True):
            for final in (False, True):
                N = len(arr)
                n_out = N - 1 + initial + final
                if n_out < 0:
                    continue
                out = np.full(n_out, 99, dtype=odt)
                total = cumsum(arr, out, initial=initial, final=final, offset=offset)
                exp, exp_total = oracle(arr, odt, initial, final, offset)
                if not np.array_equal(out, exp) or float(total) != float(exp_total):
                    bad += 1
                    if bad <= 12:
                        print(f'MISMATCH arr={list(arr)} offset={offset!r} out={odt.__name__} '
                              f'initial={initial} final={final}: got {out.tolist()} total={total!r}; '
                              f'expected {exp.tolist()} total={exp_total!r}')

# the integer fast path must be unchanged: exact 64-bit sums, integer total
out = np.zeros(4, np.uint64)
t = cumsum(np.array([1, 1, 1], np.int64), out, initial=True, final=True, offset=np.uint64(2**63 + 1))
if [int(v) for v in out] != [2**63 + 1 + i for i in range(4)] or not isinstance(t, (int, np.integer)):
    bad += 1
    print('integer path changed', out, t, type(t))

print('mismatches:', bad)
sys.exit(1 if bad else 0)
