import sys, types, os
import numpy as np
import numba
import astropy.table
import importlib.machinery
# scipy.fft stand-in
try:
    import scipy.fft  # noqa
except Exception:
    sp = types.ModuleType('scipy'); spf = types.ModuleType('scipy.fft'); sp.__version__='1.11.0'; sp.__spec__=importlib.machinery.ModuleSpec('scipy', None); spf.__spec__=importlib.machinery.ModuleSpec('scipy.fft', None)
    def _w(f):
        def g(*a, workers=None, **k): return f(*a, **k)
        return g
    spf.rfftn = _w(np.fft.rfftn); spf.irfftn = _w(np.fft.irfftn); spf.fftfreq = np.fft.fftfreq
    sp.fft = spf; sys.modules['scipy'] = sp; sys.modules['scipy.fft'] = spf
sys.path.insert(0, '/tmp/wt_hunt3_C08'); import abacusnbody
assert abacusnbody.__file__.startswith('/tmp/wt_hunt3_C08'), abacusnbody.__file__
from abacusnbody.analysis import power_spectrum as ps

def full_modes(n):
    f = np.arange(n); f = np.where(f <= n//2, f, f - n)   # n/2 -> +n/2 for even
    a, b, c = np.meshgrid(f, f, f, indexing='ij')
    return a, b, c

def full_values(w, n):
    """value of the full mesh from half-complex real-valued mesh w (n,n,n//2+1) assuming hermitian symmetry"""
    full = np.empty((n, n, n), dtype=w.dtype)
    kz = n//2 + 1
    full[:, :, :kz] = w
    idx = (-np.arange(n)) % n
    for k in range(kz, n):
        full[:, :, k] = w[idx][:, idx][:, :, n - k]
    return full

def oracle_kmu(n, L, kedges, muedges, w, poles=(), fourier=True, tol=1e-12):
    a, b, c = full_modes(n)
    K2 = (a*a + b*b + c*c).astype(np.int64)
    dk = 2*np.pi/L if fourier else L/n
    e2 = (np.asarray(kedges, dtype=np.float64)/dk)**2
    m2e = np.asarray(muedges, dtype=np.float64)**2
    with np.errstate(invalid='ignore', divide='ignore'):
        mu2 = np.where(K2 > 0, (c*c)/K2.astype(np.float64), 0.0)
    K2f = K2.astype(np.float64)
    inr = (K2f >= e2[0]) & (K2f < e2[-1]) & (mu2 >= m2e[0]) & (mu2 <= m2e[-1])
    bk = np.searchsorted(e2, K2f, side='left') - 1; bk[K2f == e2[0]] = 0
    bm = np.searchsorted(m2e, mu2, side='left') - 1; bm[mu2 == m2e[0]] = 0
    # ambiguity (close to an edge)
    amb_k = np.zeros(K2.shape, bool)
    for e in e2:
        amb_k |= np.abs(K2f - e) <= tol*max(e, 1.0)
    amb_m = np.zeros(K2.shape, bool)
    for e in m2e:
        amb_m |= np.abs(mu2 - e) <= tol
    Nk, Nm = len(e2)-1, len(m2e)-1
    counts = np.zeros((Nk, Nm), np.int64)
    np.add.at(counts, (bk[inr], bm[inr]), 1)
    fv = full_values(np.asarray(w, dtype=np.float64), n) if w.shape[2] != n else np.asarray(w, np.float64)
    sw = np.zeros((Nk, Nm)); np.add.at(sw, (bk[inr], bm[inr]), fv[inr])
    sk = np.zeros((Nk, Nm)); np.add.at(sk, (bk[inr], bm[inr]), np.sqrt(K2f[inr])*dk)
    from numpy.polynomial import legendre
    sp = np.zeros((len(poles), Nk))
    mu = np.sqrt(mu2)
    for ip, l in enumerate(poles):
        cc = np.zeros(l+1); cc[l] = 1
        pl = legendre.legval(mu, cc)*(2*l+1)
        np.add.at(sp[ip], bk[inr], (fv*pl)[inr])
    cp = counts.sum(axis=1)
    with np.errstate(invalid='ignore', divide='ignore'):
        mean = np.where(counts > 0, sw/counts, 0); kav = np.where(counts > 0, sk/counts, 0)
        pm = np.where(cp > 0, sp/cp, 0)
    return dict(counts=counts, mean=mean, kavg=kav, poles=pm, cpoles=cp,
                amb=int((amb_k | amb_m)[(K2f >= e2[0]*(1-1e-9)) ].sum()), amb_k=amb_k, amb_m=amb_m, bk=bk, bm=bm, inr=inr, K2=K2, mu2=mu2, abc=(a,b,c))

def _bins(edges2, val, closed_top):
    """bin index with (lo,hi] inner convention, first bin closed at e0; -1 below, N above.
    closed_top: last edge included (mu) or excluded (k)."""
    b = np.searchsorted(edges2, val, side='left') - 1
    b = np.where(val == edges2[0], 0, b)
    N = len(edges2) - 1
    if closed_top:
        b = np.where(val > edges2[-1], N, b)
    else:
        b = np.where(val >= edges2[-1], N, b)
    b = np.where(val < edges2[0], -1, b)
    return b

def bounds_kmu(n, L, kedges, muedges, fourier=True, rel=1e-10):
    """returns (sure, maybe) count arrays: sure = modes decided with margin rel; maybe = sure + modes that might land in that cell"""
    a, b, c = full_modes(n)
    K2 = (a*a + b*b + c*c).astype(np.float64)
    dk = 2*np.pi/L if fourier else L/n
    e2 = (np.asarray(kedges, dtype=np.float64)/dk)**2
    m2e = np.asarray(muedges, dtype=np.float64)**2
    with np.errstate(invalid='ignore', divide='ignore'):
        mu2 = np.where(K2 > 0, (c*c)/K2, 0.0)
    Nk, Nm = len(e2)-1, len(m2e)-1
    bk_lo = _bins(e2, K2*(1-rel), False); bk_hi = _bins(e2, K2*(1+rel), False)
    bm_lo = _bins(m2e, mu2*(1-rel), True); bm_hi = _bins(m2e, np.minimum(mu2*(1+rel), np.where(mu2 == 1.0, 1.0, 2.0)), True)
    # mu2 == 0 and mu2 == 1 are computed exactly by the code (0*x, c2/c2): no ambiguity from rounding there
    sure_m = (bk_lo == bk_hi) & (bm_lo == bm_hi)
    sure = np.zeros((Nk+2, Nm+2), np.int64)
    np.add.at(sure, (bk_lo[sure_m]+1, bm_lo[sure_m]+1), 1)
    maybe = sure.copy()
    am = ~sure_m
    for kk in (bk_lo, bk_hi):
        for mm in (bm_lo, bm_hi):
            tmp = np.zeros_like(sure); np.add.at(tmp, (kk[am]+1, mm[am]+1), 1)
            maybe = np.maximum(maybe, sure + tmp) if False else maybe + tmp
    return sure[1:-1, 1:-1], maybe[1:-1, 1:-1], int(am.sum())
