import sys, types, numpy as np
def install():
    sf=types.ModuleType('scipy'); fft=types.ModuleType('scipy.fft')
    fft.rfftn=lambda a,workers=None,overwrite_x=False,**k: np.fft.rfftn(a,**k)
    fft.irfftn=lambda a,workers=None,**k: np.fft.irfftn(a,**k)
    fft.fftfreq=np.fft.fftfreq
    sf.fft=fft; sys.modules['scipy']=sf; sys.modules['scipy.fft']=fft
    _b=types.ModuleType('blosc'); _b.set_nthreads=lambda n: None; sys.modules['blosc']=_b
