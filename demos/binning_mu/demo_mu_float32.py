#!/usr/bin/env python
"""
C08 demo: bin_kmu files modes on the wrong side of a mu edge (float32 mu^2 and float32 squared mu edges).

Run with cwd=/repo:   /venv/bin/python /tmp/hunt3_C08/demo.py
Exit status 1 on the unmodified worktree, 0 with fix.diff applied.

Clause: "counts every mode ... exactly once ..., in the bin that contains its |k| and mu".

The mu search of bin_kmu compares   mu2 = dtype(k**2) * dtype(i2+j2+k**2)**-1   (float32, two roundings)
against   muedges2 = (muedges**2).astype(dtype)   (float32, one more rounding).  mu^2 is a ratio of two exact
integers; every mode whose mu^2 lies within ~1e-7 (relative) of a squared edge can land on the wrong side.
calc_pk_from_deltak / calc_power / project_3d_to_poles / pk_to_xi never pass dtype, so they always bin in float32.
The repair F35 (f59c090) moved the squared k / k_perp / pi edges to float64 but left the mu axis in float32.
"""
import sys
import types
import importlib.machinery
from fractions import Fraction

import numpy as np
import numba  # noqa: F401  (before the scipy stand-in: numba inspects scipy.__version__)
import astropy.table  # noqa: F401  (before the scipy stand-in)

try:
    import scipy.fft  # noqa: F401
except Exception:  # sandbox without scipy: the binning kernels do not use it
    sp = types.ModuleType('scipy')
    spf = types.ModuleType('scipy.fft')
    sp.__version__ = '1.11.0'
    sp.__spec__ = importlib.machinery.ModuleSpec('scipy', None)
    spf.__spec__ = importlib.machinery.ModuleSpec('scipy.fft', None)
    spf.rfftn = lambda *a, workers=None, **k: np.fft.rfftn(*a, **k)
    spf.irfftn = lambda *a, workers=None, **k: np.fft.irfftn(*a, **k)
    spf.fftfreq = np.fft.fftfreq
    sp.fft = spf
    sys.modules['scipy'] = sp
    sys.modules['scipy.fft'] = spf

sys.path.insert(0, '/repo')
import abacusnbody  # noqa: E402

assert abacusnbody.__file__.startswith('/repo'), abacusnbody.__file__
from abacusnbody.analysis import power_spectrum as ps  # noqa: E402

failures = []


def exact_mu_bin(kz, K2, muedges):
    """bin b with muedges[b] < mu <= muedges[b+1] (the code's own inner-edge convention), decided with
    exact rational arithmetic on the float64 edges the caller passed; also the distance to the nearest edge"""
    t = Fraction(kz * kz, K2)
    e2 = [Fraction(float(e)) ** 2 for e in muedges]
    b = max(i for i in range(len(e2)) if e2[i] < t)
    dist = min(abs(float(t - e)) for e in e2)
    return b, dist


# --------------------------------------------------------------------------------------------------
# Part 1: nmesh=256, 67 mu bins.  Mode histogram in mu against a brute-force float64 count.
# --------------------------------------------------------------------------------------------------
n, L, nmu = 256, 2000.0, 67
h = n // 2
kN = np.pi * n / L
kedges, muedges = ps.get_k_mu_edges(L, 0.9 * kN, 32, nmu, False)  # public helper: linspace edges
w = np.ones((n, n, h + 1), np.float32)

f = np.arange(n)
f = np.where(f <= h, f, f - n)
S = (f[:, None] ** 2 + f[None, :] ** 2).astype(np.int64)  # i^2 + j^2 of the full mesh
dk = 2 * np.pi / L
k2max = (kedges[-1] / dk) ** 2  # 13271.04: no shell sits on it
assert kedges[0] == 0.0 and abs(k2max - round(k2max)) > 1e-3
m2e = muedges**2  # float64
sure = np.zeros(nmu, np.int64)  # modes decided with a margin of 1e-13 (float64 is exact enough for them)
n_on = 0
slack = np.zeros(nmu, np.int64)  # modes sitting on an edge (|mu^2 - edge^2| <= 1e-13): either neighbour accepted
for cz in f:  # all n planes of the FULL mesh, every mode once
    K2 = S + cz * cz
    inr = K2 < k2max
    K2i = K2[inr]
    mu2 = np.where(K2i > 0, (cz * cz) / np.maximum(K2i, 1).astype(np.float64), 0.0)
    b = np.searchsorted(m2e, mu2, side='left') - 1  # (lo, hi]
    b[mu2 == m2e[0]] = 0
    d = np.min(np.abs(mu2[:, None] - m2e[None, :]), axis=1) if len(mu2) else np.zeros(0)
    on = (d <= 1e-13) & (mu2 > 0) & (mu2 < 1)  # mu2 == 0 and mu2 == 1 are exact in any precision
    np.add.at(sure, b[~on], 1)
    n_on += int(on.sum())
    for bb in (np.clip(b[on], 0, nmu - 1), np.clip(b[on] + 1, 0, nmu - 1), np.clip(b[on] - 1, 0, nmu - 1)):
        np.add.at(slack, bb, 1)

for nthread in (1, 4):
    power, counts, _, _, _ = ps.bin_kmu(n, L, kedges, muedges, w, nthread=nthread)  # default dtype
    hist = counts.sum(axis=0)
    lo = np.nonzero(hist < sure)[0]
    hi = np.nonzero(hist > sure + slack)[0]
    print(f'[1] nmesh={n} mubins={nmu} nthread={nthread}: modes counted {hist.sum()} (brute force: {sure.sum()} + {n_on} on an edge)')
    for b in lo:
        print(f'    mu bin {b} ({muedges[b]:.6f},{muedges[b+1]:.6f}]: counted {hist[b]}, at least {sure[b]} modes lie inside')
        failures.append(('hist-low', nthread, int(b)))
    for b in hi:
        print(f'    mu bin {b} ({muedges[b]:.6f},{muedges[b+1]:.6f}]: counted {hist[b]}, at most {sure[b]+slack[b]} modes lie inside')
        failures.append(('hist-high', nthread, int(b)))

# the shell behind it: kz = 53, i^2+j^2 = 5072 = 56^2 + 44^2, |k|^2 = 7881 (16 modes of the full mesh)
i0, j0, c0 = 56, 44, 53
K2 = i0 * i0 + j0 * j0 + c0 * c0
b_exact, dist = exact_mu_bin(c0, K2, muedges)
print(f'[1] mode ({i0},{j0},{c0}): mu = {np.sqrt(c0*c0/K2):.12f}; edge {b_exact} = {muedges[b_exact]:.12f} '
      f'-> mu bin {b_exact} (exact rationals); |mu^2 - edge^2| = {dist:.3e} (not an on-edge mode)')
# through the public entry point: a Fourier field that is non-zero at that mode only
field = np.zeros((n, n, h + 1), np.complex64)
field[i0, j0, c0] = 1.0
P = ps.calc_pk_from_deltak(field, L, kedges, muedges, nthread=2)
cell = np.argwhere(P['power'] != 0)
print(f'    calc_pk_from_deltak puts its power into (k bin, mu bin) = {cell.tolist()}, N_mode there {P["N_mode"][tuple(cell[0])]}')
if len(cell) != 1 or cell[0][1] != b_exact:
    failures.append(('single-mode-256', cell.tolist(), b_exact))

# --------------------------------------------------------------------------------------------------
# Part 2: nmesh=512, 50 mu bins (round numbers).  Mode (0,143,113): mu = 0.6200000194 > edge 0.62.
# --------------------------------------------------------------------------------------------------
n, nmu = 512, 50
h = n // 2
kedges, muedges = ps.get_k_mu_edges(L, np.pi * n / L, 64, nmu, False)
i0, j0, c0 = 0, 143, 113
K2 = i0 * i0 + j0 * j0 + c0 * c0
b_exact, dist = exact_mu_bin(c0, K2, muedges)
w = np.zeros((n, n, h + 1), np.float32)
w[i0, j0, c0] = 1.0
power, counts, _, _, _ = ps.bin_kmu(n, L, kedges, muedges, w, nthread=4)
cell = np.argwhere(power != 0)
print(f'[2] nmesh={n} mubins={nmu} mode ({i0},{j0},{c0}): mu = {np.sqrt(c0*c0/K2):.12f}, '
      f'edges ({muedges[b_exact]:.2f},{muedges[b_exact+1]:.2f}] -> mu bin {b_exact}; |mu^2 - edge^2| = {dist:.3e}')
print(f'    bin_kmu (default dtype) files it in (k bin, mu bin) = {cell.tolist()}')
if len(cell) != 1 or cell[0][1] != b_exact:
    failures.append(('single-mode-512', cell.tolist(), b_exact))
power64, _, _, _, _ = ps.bin_kmu(n, L, kedges, muedges, w, dtype=np.float64, nthread=4)
print(f'    bin_kmu (dtype=float64)  files it in {np.argwhere(power64 != 0).tolist()}')

if failures:
    print('FAIL: modes filed in a mu bin that does not contain their mu:', failures)
    sys.exit(1)
print('OK: every mode is in the mu bin that contains its mu')
