#!/usr/bin/env python
"""C11 demo: bin_kmu indexes past the mu-edge array and writes outside the
(zero-width) count/sum arrays when `muedges` has a single element.

A single-element edge array describes zero bins.  bin_kmu handles that on the k
axis (half-open range test), but on the mu axis the range test is closed at the
top (`mu2 > muedges2[-1]: break`), so a mode whose mu^2 EQUALS the single edge
passes it and reaches

    while mu2 > muedges2[bmu + 1]:        # reads muedges2[1] of a 1-element array
    counts[tid, bk, bmu] += ...           # writes into an array of shape (nthread, Nk, 0)

Triggers: muedges = [0.0] (every kz = 0 mode has mu = 0; this is what the public
calc_power(..., mubins=0) / get_k_mu_edges(..., mubins=0) builds) and
muedges = [1.0] (modes on the kz axis have mu = 1).

The compiled parallel kernel does these accesses silently (numba does not check
bounds), so the demo runs the package's own source of the kernel
(a) interpreted (`bin_kmu.py_func`, numpy raises IndexError) and
(b) recompiled serially with NUMBA_BOUNDSCHECK=1.
Exit status 1 = out-of-bounds access observed, 0 = none.

Run with cwd = the worktree:  /venv/bin/python /tmp/hunt3_C11/demo.py
"""
import os
import sys
import types
import warnings

os.environ['NUMBA_BOUNDSCHECK'] = '1'
warnings.simplefilter('ignore')
sys.path.insert(0, os.getcwd())

import numpy as np
import numba

try:
    import scipy.fft  # noqa: F401
except ImportError:  # sandbox without scipy: power_spectrum only needs the names
    import astropy.table  # noqa: F401  (must be imported before the stand-in exists)

    sp = types.ModuleType('scipy')
    fft = types.ModuleType('scipy.fft')
    fft.rfftn = lambda a, workers=None, overwrite_x=False, **k: np.fft.rfftn(a, **k)
    fft.irfftn = lambda a, workers=None, **k: np.fft.irfftn(a, **k)
    fft.fftfreq = np.fft.fftfreq
    sp.fft = fft
    sys.modules['scipy'] = sp
    sys.modules['scipy.fft'] = fft

import abacusnbody
from abacusnbody.analysis import power_spectrum as ps

print('package under test:', abacusnbody.__file__)

n1d, L = 8, 1000.0
weights = np.ones((n1d, n1d, n1d // 2 + 1), dtype=np.float32)

# the edges the public entry point builds for mubins=0
kedges, mu_from_api = ps.get_k_mu_edges(L, np.pi * n1d / L, 4, 0, False)
assert mu_from_api.shape == (1,) and mu_from_api[0] == 0.0

interpreted = ps.bin_kmu.py_func
checked = numba.njit(fastmath=True)(ps.bin_kmu.py_func)  # serial, bounds-checked

# make sure the checked compilation really checks (weights too small -> must raise)
try:
    checked(n1d, L, kedges, np.array([0.0, 1.0]), weights[:, :, :2], np.empty(0, 'i8'), np.float32, True, 1)
    print('harness problem: bounds checking is not active')
    sys.exit(2)
except IndexError:
    pass
# ... and that a regular call is clean in both modes
for f in (interpreted, checked):
    r = f(n1d, L, kedges, np.array([0.0, 1.0]), weights, np.empty(0, 'i8'), np.float32, True, 1)
    assert r[1].shape == (len(kedges) - 1, 1) and r[1].sum() > 0

bad = 0
for label, muedges in (
    ('muedges=[0.0]  (calc_power mubins=0)', mu_from_api),
    ('muedges=[1.0]', np.array([1.0])),
):
    for mode, f in (('interpreted', interpreted), ('bounds-checked', checked)):
        for dtype in (np.float32, np.float64):
            try:
                r = f(n1d, L, kedges, muedges, weights.astype(dtype), np.empty(0, 'i8'), dtype, True, 1)
                ok = r[1].shape == (len(kedges) - 1, 0) and r[3].sum() == 0
                print(f'{label:40s} {mode:15s} {dtype.__name__}: no out-of-bounds access, '
                      f'counts.shape={r[1].shape}' + ('' if ok else '  UNEXPECTED RESULT'))
                bad += not ok
            except IndexError as e:
                bad += 1
                print(f'{label:40s} {mode:15s} {dtype.__name__}: OUT OF BOUNDS -> IndexError: {e}')

if bad:
    print(f'\nFAIL: {bad} runs accessed memory outside an array (property C11 violated)')
    sys.exit(1)
print('\nPASS: a single-element mu edge array is handled without out-of-bounds access')
sys.exit(0)
