"""C19 finding 2: hod.menv.concat_to_arr hands util.cumsum a Python list; for length 0
numba cannot type the empty list and the helper raises
ValueError('cannot compute fingerprint of empty list') instead of writing [offset]
(numpy.cumsum([]) is fine).  Exit 1 on the defect, 0 when repaired."""
import sys, types
sys.path.insert(0, '/repo')
import numba  # import first: numba probes for a real scipy
# inert stand-in for scipy.spatial.KDTree (scipy is not installed under /venv)
sp = types.ModuleType('scipy'); sps = types.ModuleType('scipy.spatial')
sps.KDTree = type('KDTree', (), {}); sp.spatial = sps
sys.modules.setdefault('scipy', sp); sys.modules.setdefault('scipy.spatial', sps)
import numpy as np
import abacusnbody
from abacusnbody.hod.menv import concat_to_arr
print('using', abacusnbody.__file__)
fails = 0
# controls
res, starts = concat_to_arr([[1, 2], [], [3]])
assert res.tolist() == [1, 2, 3] and starts.tolist() == [0, 2, 2, 3]
res, starts = concat_to_arr([[]])
assert res.tolist() == [] and starts.tolist() == [0, 0]
for empty in ([], np.empty(0, dtype=object)):   # the latter is what KDTree.query_ball_point returns for 0 points
    try:
        res, starts = concat_to_arr(empty)
        if res.tolist() != [] or starts.tolist() != [0]:
            fails += 1; print('FAIL wrong result', res, starts)
    except Exception as e:
        fails += 1
        print(f'FAIL concat_to_arr({empty!r}) raised {type(e).__name__}: {e}')
print('failures:', fails)
sys.exit(1 if fails else 0)
