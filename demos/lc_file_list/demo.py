#!/venv/bin/python
"""
C01 demo: halo light cone catalogs given as a LIST of lc_halo_info files.

_setup_file_paths exempts light cone catalogs from the "Can't mix files from different
catalogs" test, reads the halo rows of every listed file, but _load_halo_lc_subsamples
loads only ONE particle file: <directory of the first file>/lc_pid_rv.asdf.  The stored
npstartA/npoutA of the halos of the second file index THEIR OWN lc_pid_rv.asdf, so their
slices subsamples[npstartA : npstartA+npoutA] hold particles of other halos (or nothing),
and the slice lengths do not sum to len(subsamples).

Exit status: 1 if some halo row's slice does not hold its own particles, 0 if every row
is right or if the loader refuses the request with a ValueError.
Run with cwd=/repo.
"""

import os
import pathlib
import shutil
import sys
import tempfile
import types
import warnings

_b = types.ModuleType('blosc')
_b.set_nthreads = lambda n: None
sys.modules['blosc'] = _b
sys.path.insert(0, os.getcwd())

import asdf  # noqa: E402
import numpy as np  # noqa: E402

import abacusnbody  # noqa: E402
from abacusnbody.data import asdf as _aasdf  # noqa: E402

asdf.get_config().add_extension(_aasdf.AbacusExtension())

from abacusnbody.data.compaso_halo_catalog import CompaSOHaloCatalog  # noqa: E402

print('abacusnbody from', abacusnbody.__file__)
warnings.simplefilter('ignore')


def write(fn, data, header):
    fn.parent.mkdir(parents=True, exist_ok=True)
    asdf.AsdfFile({'data': data, 'header': header}).write_to(fn)


def make_lc(zdir, npout, idbase, pidbase):
    """One light cone redshift directory: lc_halo_info.asdf + lc_pid_rv.asdf.
    Particle k of halo h carries pid = pidbase + 1000*h + k, pos = vel = pid everywhere."""
    n = len(npout)
    npout = np.asarray(npout, dtype=np.uint32)
    npstart = (np.cumsum(npout) - npout).astype(np.uint64)
    header = dict(BoxSize=2000.0, ppd=64.0, VelZSpace_to_kms=1.0, SimName='LC', Redshift=0.5)
    halos = dict(
        N=np.full(n, 50, np.uint32),
        N_interp=np.full(n, 50, np.uint32),
        npstartA=npstart,
        npoutA=npout,
        index_halo=np.arange(idbase, idbase + n, dtype=np.int64),
        origin=np.zeros(n, np.int8),
        pos_avg=np.zeros((n, 3), np.float32),
        pos_interp=np.zeros((n, 3), np.float32),
        vel_avg=np.zeros((n, 3), np.float32),
        vel_interp=np.zeros((n, 3), np.float32),
        redshift_interp=np.zeros(n, np.float32),
    )
    pid = np.concatenate(
        [pidbase + 1000 * h + np.arange(k) for h, k in enumerate(npout)] + [np.zeros(0)]
    ).astype(np.int64)
    parts = dict(
        pid=pid,
        pos=np.repeat(pid[:, None], 3, axis=1).astype(np.float32),
        vel=np.repeat(pid[:, None], 3, axis=1).astype(np.float32),
    )
    write(zdir / 'lc_halo_info.asdf', halos, header)
    write(zdir / 'lc_pid_rv.asdf', parts, header)
    return halos, parts


tmp = pathlib.Path(tempfile.mkdtemp(prefix='c01_lc_'))
status = 0
try:
    base = tmp / 'halo_light_cones' / 'LC'
    cats = [
        make_lc(base / 'z0.500', [2, 0, 3, 1], idbase=100, pidbase=100000),
        make_lc(base / 'z0.575', [1, 2, 2], idbase=200, pidbase=200000),
    ]
    files = [base / 'z0.500' / 'lc_halo_info.asdf', base / 'z0.575' / 'lc_halo_info.asdf']

    # sanity: each catalog alone is right (so the synthetic files are consistent)
    for fn, (h, p) in zip(files, cats):
        c = CompaSOHaloCatalog(fn, subsamples=dict(A=True, pid=True, rv=True), fields=['index_halo'])
        for r in range(len(c.halos)):
            a, n = int(c.halos['npstartA'][r]), int(c.halos['npoutA'][r])
            own = p['pid'][int(h['npstartA'][r]) : int(h['npstartA'][r]) + int(h['npoutA'][r])]
            assert np.array_equal(c.subsamples['pid'][a : a + n], own), 'harness inconsistent'
        assert len(c.subsamples) == int(c.halos['npoutA'].sum())
    print('single-file loads: every slice holds its own particles')

    try:
        cat = CompaSOHaloCatalog(files, subsamples=dict(A=True, pid=True, rv=True), fields=['index_halo'])
    except ValueError as e:
        print('file list refused:', e)
        print('OK')
        sys.exit(0)

    r = 0
    for h, p in cats:
        for i in range(len(h['index_halo'])):
            assert cat.halos['index_halo'][r] == h['index_halo'][i]
            a, n = int(cat.halos['npstartA'][r]), int(cat.halos['npoutA'][r])
            own = p['pid'][int(h['npstartA'][i]) : int(h['npstartA'][i]) + int(h['npoutA'][i])]
            got = np.asarray(cat.subsamples['pid'][a : a + n])
            ok = np.array_equal(got, own) and np.array_equal(
                np.asarray(cat.subsamples['pos'][a : a + n])[:, 0], own.astype(np.float32)
            )
            print(
                f'row {r} halo {h["index_halo"][i]}: slice [{a}:{a + n}] holds pids {got.tolist()}, own particles {own.tolist()}'
                + ('' if ok else '   <-- WRONG')
            )
            if not ok:
                status = 1
            r += 1
    tot = int(cat.halos['npoutA'].sum())
    print(f'sum of slice lengths = {tot}, len(subsamples) = {len(cat.subsamples)}')
    if tot != len(cat.subsamples):
        status = 1
finally:
    shutil.rmtree(tmp)

print('VIOLATION of C01' if status else 'OK')
sys.exit(status)
