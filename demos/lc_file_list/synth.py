"""Synthetic CompaSO catalog generator + independent oracle for property C01."""
exec(open('/verif/demos/lc_file_list/prelude.py').read())
import shutil, tempfile, pathlib, itertools, json
from abacusnbody.data import compaso_halo_catalog as chc
from abacusnbody.data.compaso_halo_catalog import CompaSOHaloCatalog

REAL = pathlib.Path('/repo/tests/Mini_N64_L32/halos/z0.000/halo_info/halo_info_000.asdf')


def raw_schema():
    """names -> (dtype, trailing shape) of the raw halo_info columns, from the real file's YAML"""
    out = {}
    with asdf.open(REAL, lazy_load=True) as af:
        for k, v in af['data'].items():
            out[k] = (np.dtype(v.dtype), tuple(v.shape[1:]))
    return out


_SCHEMA = None


def schema():
    global _SCHEMA
    if _SCHEMA is None:
        _SCHEMA = raw_schema()
    return _SCHEMA


def write_asdf(fn, data, header):
    fn = pathlib.Path(fn)
    fn.parent.mkdir(parents=True, exist_ok=True)
    af = asdf.AsdfFile({'data': data, 'header': header})
    af.write_to(fn)  # uncompressed


def rand_rvint(rng, n):
    return rng.integers(-(2**31), 2**31, size=(n, 3), dtype=np.int64).astype(np.int32)


def rand_pid(rng, n):
    return rng.integers(0, 2**63, size=n, dtype=np.uint64) | (
        rng.integers(0, 2, size=n, dtype=np.uint64) << np.uint64(63)
    )


class Cat:
    """In-memory description of the synthetic catalog = the oracle's knowledge"""


def make_catalog(
    root,
    rng,
    slabs=(0, 1, 2),
    nh_choices=(0, 1, 2, 5),
    nh=None,
    maxnp=4,
    maxgap=3,
    p_clean_away=0.25,
    maxmerge=3,
    full_raw=False,
    sim='Sim',
    zdir='z0.100',
    box=2000.0,
    ppd=64.0,
    big_start=0,
):
    root = pathlib.Path(root)
    cat = Cat()
    cat.root = root
    cat.groupdir = root / sim / 'halos' / zdir
    cat.cleandir = root / 'cleaning'
    cat.slabs = list(slabs)
    cat.box = box
    cat.ppd = ppd
    header = dict(
        BoxSize=box, ppd=ppd, VelZSpace_to_kms=1234.5, SimName=sim, Redshift=0.1
    )
    cheader = dict(header, TimeSliceRedshiftsPrev=[0.2, 0.3])
    cat.halos = {}  # slab -> dict of arrays
    cat.part = {}  # (slab, AB) -> dict(rvint, packedpid)
    cat.cpart = {}  # (slab, AB) -> dict(rvint, packedpid)
    gid = 1000
    for si, s in enumerate(cat.slabs):
        n = (nh[si] if nh is not None else int(rng.choice(nh_choices)))
        h = {}
        h['id'] = np.arange(gid, gid + n, dtype=np.uint64)
        gid += n + 7
        h['N'] = rng.integers(1, 1000, size=n).astype(np.uint32)
        cleaned_away = rng.random(n) < p_clean_away
        h['N_total'] = np.where(cleaned_away, 0, h['N'] + 3).astype(np.uint32)
        for AB in 'AB':
            npout = rng.integers(0, maxnp + 1, size=n).astype(np.uint32)
            gaps = rng.integers(0, maxgap + 1, size=n + 1)
            npstart = np.zeros(n, dtype=np.uint64)
            pos = big_start
            pos0 = pos
            for i in range(n):
                pos += int(gaps[i])
                npstart[i] = pos
                pos += int(npout[i])
            pos += int(gaps[n])
            ntot = pos - pos0
            # NB: for big_start the file can't be that big; only used in direct kernel tests
            h['npstart' + AB] = npstart
            h['npout' + AB] = npout
            cat.part[(s, AB)] = dict(rvint=rand_rvint(rng, ntot), packedpid=rand_pid(rng, ntot))
            # merged
            nm = rng.integers(0, maxmerge + 1, size=n).astype(np.uint32)
            nm[cleaned_away] = 0
            nm[rng.random(n) < 0.4] = 0
            gaps = rng.integers(0, 2, size=n + 1)
            ms = np.zeros(n, dtype=np.int64)
            pos = 0
            for i in range(n):
                pos += int(gaps[i])
                ms[i] = pos
                pos += int(nm[i])
            pos += int(gaps[n])
            # -1 start for some empty ones
            neg = (nm == 0) & (rng.random(n) < 0.5)
            ms[neg] = -1
            h['npstart' + AB + '_merge'] = ms
            h['npout' + AB + '_merge'] = nm
            cat.cpart[(s, AB)] = dict(rvint=rand_rvint(rng, pos), packedpid=rand_pid(rng, pos))
        h['N_merge'] = (h['npoutA_merge'] + h['npoutB_merge']).astype(np.uint32)
        h['haloindex'] = h['id'].copy()
        h['is_merged_to'] = np.where(cleaned_away, 5, -1).astype(np.int64)
        h['haloindex_mainprog'] = np.zeros(n, dtype=np.int64)
        h['v_L2com_mainprog'] = rng.random((n, 3)).astype(np.float32)
        h['N_mainprog'] = rng.integers(0, 100, size=(n, 2)).astype(np.uint32)
        h['vcirc_max_L2com_mainprog'] = rng.random((n, 2)).astype(np.float32)
        h['sigmav3d_L2com_mainprog'] = rng.random((n, 2)).astype(np.float32)
        cat.halos[s] = h

        raw = {k: h[k] for k in ('id', 'N', 'npstartA', 'npstartB', 'npoutA', 'npoutB')}
        if full_raw:
            for k, (dt, shp) in schema().items():
                if k not in raw:
                    if dt.kind == 'f':
                        raw[k] = rng.random((n,) + shp).astype(dt)
                    else:
                        raw[k] = rng.integers(0, 100, size=(n,) + shp).astype(dt)
        else:
            raw['x_L2com'] = rng.random((n, 3)).astype(np.float32)
        write_asdf(cat.groupdir / 'halo_info' / f'halo_info_{s:03d}.asdf', raw, header)
        for AB in 'AB':
            write_asdf(cat.groupdir / f'halo_rv_{AB}' / f'halo_rv_{AB}_{s:03d}.asdf',
                       dict(rvint=cat.part[(s, AB)]['rvint']), header)
            write_asdf(cat.groupdir / f'halo_pid_{AB}' / f'halo_pid_{AB}_{s:03d}.asdf',
                       dict(packedpid=cat.part[(s, AB)]['packedpid']), header)
        cdir = cat.cleandir / sim / zdir
        cl = {k: h[k] for k in chc.clean_dt_progen.names}
        write_asdf(cdir / 'cleaned_halo_info' / f'cleaned_halo_info_{s:03d}.asdf', cl, cheader)
        write_asdf(cdir / 'cleaned_rvpid' / f'cleaned_rvpid_{s:03d}.asdf',
                   {f'{c}_{AB}': cat.cpart[(s, AB)][c] for c in ('rvint', 'packedpid') for AB in 'AB'},
                   cheader)
    return cat


AUXX = np.uint64(0x7FFF); AUXY = np.uint64(0x7FFF0000); AUXZ = np.uint64(0x7FFF00000000)


def decode(rvint, packed, box, ppd):
    """independent decode of raw records (numpy, exact integer arithmetic then float64->float32)"""
    rv = rvint.astype(np.int64)
    out = {}
    out['rvint'] = rvint
    out['packedpid'] = packed
    out['pos'] = (np.floor_divide(rv, 4096).astype(np.float64) * (box / 1e6)).astype(np.float32)
    out['vel'] = (((rv % 4096) - 2048).astype(np.float64) * (6000.0 / 2048)).astype(np.float32)
    p = packed.astype(np.uint64)
    out['pid'] = (p & (AUXX | AUXY | AUXZ)).astype(np.int64)
    li = np.stack([(p & AUXX), (p & AUXY) >> np.uint64(16), (p & AUXZ) >> np.uint64(32)], axis=1)
    out['lagr_idx'] = li.astype(np.int16)
    out['tagged'] = ((p >> np.uint64(48)) & np.uint64(1)).astype(np.uint8)
    out['density'] = ((((p & np.uint64(0x07FE000000000000)) >> np.uint64(49)).astype(np.float64)) ** 2).astype(np.float32)
    inv = np.float32(box / ppd); half = np.float32(box / 2)
    out['lagr_pos'] = (li.astype(np.float64) * np.float64(inv) - np.float64(half)).astype(np.float32)
    return out


def oracle(cat, slabs, load_AB, cleaned, keep=None):
    """Expected rows: list over AB (A first) of list over halo rows of (id, rvint, packedpid).
    keep: optional function(slab, h dict) -> boolean mask of rows kept"""
    rows_ids = []
    exp = {}
    for AB in load_AB:
        lst = []
        for s in slabs:
            h = cat.halos[s]
            n = len(h['id'])
            m = np.ones(n, bool) if keep is None else keep(s, h)
            for i in range(n):
                if not m[i]:
                    continue
                st = int(h['npstart' + AB][i]); no = int(h['npout' + AB][i])
                P = cat.part[(s, AB)]
                if cleaned and h['N_total'][i] == 0:
                    no = 0
                rv = P['rvint'][st:st + no]; pp = P['packedpid'][st:st + no]
                if cleaned:
                    ms = int(h['npstart' + AB + '_merge'][i]); mo = int(h['npout' + AB + '_merge'][i])
                    C = cat.cpart[(s, AB)]
                    if mo > 0:
                        rv = np.concatenate([rv, C['rvint'][ms:ms + mo]])
                        pp = np.concatenate([pp, C['packedpid'][ms:ms + mo]])
                lst.append((int(h['id'][i]), rv, pp))
        exp[AB] = lst
    return exp


def check(cat, hc, slabs, load_AB, cleaned, which_cols, keep=None, tag=''):
    """Compare a loaded CompaSOHaloCatalog with the oracle. Returns list of problems."""
    probs = []
    exp = oracle(cat, slabs, load_AB, cleaned, keep)
    ids = np.asarray(hc.halos['id'])
    cursor = 0
    nsub = len(hc.subsamples)
    for AB in load_AB:
        lst = exp[AB]
        if len(lst) != len(ids):
            probs.append(f'{tag} nrows {len(ids)} != expected {len(lst)}')
            return probs
        st = np.asarray(hc.halos['npstart' + AB]); no = np.asarray(hc.halos['npout' + AB])
        for r, (hid, rv, pp) in enumerate(lst):
            if hid != int(ids[r]):
                probs.append(f'{tag} row {r} id {ids[r]} != {hid}')
                return probs
            if int(st[r]) != cursor:
                probs.append(f'{tag} {AB} row {r} npstart {st[r]} != cursor {cursor}')
                return probs
            if int(no[r]) != len(rv):
                probs.append(f'{tag} {AB} row {r} npout {no[r]} != expected {len(rv)}')
                return probs
            d = decode(rv, pp, cat.box, cat.ppd)
            for c in which_cols:
                got = np.asarray(hc.subsamples[c][cursor:cursor + len(rv)])
                if got.dtype != d[c].dtype or got.shape != d[c].shape or not np.array_equal(got, d[c]):
                    probs.append(f'{tag} {AB} row {r} col {c} mismatch got={got.tolist()} exp={d[c].tolist()} dtypes {got.dtype},{d[c].dtype}')
                    return probs
            cursor += len(rv)
    if which_cols or True:
        if cursor != nsub and (len(hc.subsamples.columns) > 0):
            probs.append(f'{tag} total {cursor} != len(subsamples) {nsub}')
    missing = [c for c in which_cols if c not in hc.subsamples.colnames]
    if missing:
        probs.append(f'{tag} missing cols {missing}')
    return probs
