#!/venv/bin/python
"""
C11 demo: power_spectrum.linear_interp (the interpolation kernel used by
expand_poles_to_3d) reads y[len(y)] -- one element past its array -- for an
abscissa xd that lies strictly inside (x[0], x[-1]).

Run with:  cd /repo && /venv/bin/python /verif/demos/demo_linear_interp.py
Exit status 1 on the unmodified tree, 0 once fix.diff is applied.

Input (all documented preconditions hold):
  * x = centres of 50 linear k bins on [0, 1] h/Mpc, i.e. exactly what the
    package's own caller (hod/zcv/tools_cv.py) passes: equidistant, increasing,
    and it passes the assertion at the top of expand_poles_to_3d;
  * L = 1500, n1d = 288; the Fourier mode (129, 137, 143), |n|^2 = 55859,
    has |k| = sqrt(55859) * 2 pi / 1500 = 0.98999995 < x[-1] = 0.99 in float32.
"""

import os
import sys
import types

os.chdir('/repo')
sys.path.insert(0, '/repo')

import numpy as np
import numba  # noqa: F401  (must be imported before the scipy stand-in)
import astropy.table  # noqa: F401

try:
    import scipy.fft  # noqa: F401
except Exception:  # sandbox has no scipy: map scipy.fft onto numpy.fft
    sp = types.ModuleType('scipy')
    sp.__version__ = '1.11.0'
    spf = types.ModuleType('scipy.fft')
    for _n in ('rfftn', 'irfftn', 'fftn', 'ifftn', 'fftfreq', 'rfftfreq'):
        setattr(spf, _n, getattr(np.fft, _n))
    sp.fft = spf
    sys.modules['scipy'] = sp
    sys.modules['scipy.fft'] = spf

import abacusnbody
from abacusnbody.analysis import power_spectrum as ps

assert abacusnbody.__file__.startswith('/repo'), abacusnbody.__file__

failures = []

L, n1d, nb, kmax = 1500.0, 288, 50, 1.0
k_edges = np.linspace(0.0, kmax, nb + 1)
k_binc = 0.5 * (k_edges[1:] + k_edges[:-1])  # float64, equidistant
assert np.isclose(np.min(np.diff(k_binc)), np.max(np.diff(k_binc)))

x = k_binc.astype(np.float32)  # what expand_poles_to_3d does internally
dk = np.float32(2.0 * np.pi / L)
xd = np.sqrt(np.float32(129**2 + 137**2 + 143**2)) * dk
print(f'xd = {xd!r}, x[0] = {x[0]!r}, x[-1] = {x[-1]!r}, len(x) = {len(x)}')
assert x[0] < xd < x[-1], 'xd must be strictly inside the tabulated range'

# ---------------------------------------------------------------------------
# (A) the real kernel body, interpreted (numpy checks the bounds for us)
# ---------------------------------------------------------------------------
y = np.linspace(2.0, 3.0, nb).astype(np.float32)
oracle = np.interp(np.float64(xd), x.astype(np.float64), y.astype(np.float64))
try:
    got = ps.linear_interp.py_func(xd, x, y)
    print(f'(A) interpreted linear_interp -> {got!r} (np.interp: {oracle!r})')
    if not np.isclose(got, oracle, rtol=1e-5):
        failures.append('(A) wrong value')
except IndexError as e:
    print(f'(A) interpreted linear_interp raised IndexError: {e}')
    failures.append(f'(A) IndexError: {e}')

# ---------------------------------------------------------------------------
# (B) the compiled kernel: y is a 50-element view of a 51-element buffer whose
#     extra element is a NaN marker.  All 50 elements of y are finite, so a
#     NaN result can only come from reading y[50], outside the array.
# ---------------------------------------------------------------------------
buf = np.empty(nb + 1, dtype=np.float32)
buf[:nb] = y
buf[nb] = np.nan
yview = buf[:nb]
assert np.isfinite(yview).all() and len(yview) == nb
got = ps.linear_interp(xd, x, yview)
print(f'(B) compiled linear_interp on an all-finite y -> {got!r} (np.interp: {oracle!r})')
if not np.isfinite(got) or not np.isclose(got, oracle, rtol=1e-5):
    failures.append('(B) compiled kernel result depends on the element after y')

# ---------------------------------------------------------------------------
# (C) the public kernel expand_poles_to_3d, two multipoles.  Row 0 (ell=0) is
#     all ones; row 1 (ell=2) is zero except a NaN marker in its first k bin
#     (k = 0.01).  Interpolating row 0 at |k| = 0.98999995 must give 1 and
#     row 1 contributes 0 there, so Pk[129,137,143] must be 1.  The overrun of
#     row 0 reads P_ell[1, 0] instead.
# ---------------------------------------------------------------------------
poles = np.array([0, 2])
P_ell = np.zeros((2, nb))
P_ell[0, :] = 1.0
P_ell[1, 0] = np.nan
Pk = ps.expand_poles_to_3d(k_binc, P_ell, n1d, L, poles)
val = Pk[129, 137, 143]
print(f'(C) expand_poles_to_3d: Pk[129,137,143] = {val!r} (expected 1.0)')
# every mode with |k| > x[1] is unaffected by the marker at x[0] and must be finite
ii = np.fft.fftfreq(n1d, 1.0 / n1d)
kk = np.sqrt(
    (ii[:, None, None] ** 2 + ii[None, :, None] ** 2 + ii[None, None, : n1d // 2 + 1] ** 2)
).astype(np.float32) * dk
nbad = int(np.isnan(Pk[kk > x[1]]).sum())
print(f'(C) non-finite Pk values among modes with |k| > x[1]: {nbad} (expected 0)')
if not val == 1.0 or nbad:
    failures.append(f'(C) {nbad} modes of expand_poles_to_3d contaminated by the next row')

if failures:
    print('\nFAIL: linear_interp reads outside its y array:')
    for f in failures:
        print('   ', f)
    sys.exit(1)
print('\nPASS: no out-of-bounds access')
sys.exit(0)
