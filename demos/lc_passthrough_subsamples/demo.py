#!/venv/bin/python
"""C01 / option quantifier: passthrough=True x light-cone layout x subsamples=True.

CompaSOHaloCatalog(<halo light cone dir>, subsamples=True, passthrough=True) raises
KeyError('rvint'): _setup_load_subsamples expands subsamples=True to the packed column
names rvint/packedpid in passthrough mode, but the light-cone particle file lc_pid_rv.asdf
only has the (already unpacked) columns pos / vel / pid, which _load_halo_lc_subsamples
reads by name.  Exit status 0 iff the load succeeds and every halo row indexes its own
particles; 1 otherwise.   Run with cwd=/repo.
"""
import sys, types, tempfile, warnings
sys.path.insert(0, '/repo')
sys.modules['blosc'] = types.ModuleType('blosc')
sys.modules['blosc'].set_nthreads = lambda n: None
import asdf
import numpy as np
from pathlib import Path
try:
    import abacusnbody.data.compaso_halo_catalog as chc
except Exception:
    import abacusnbody.data.asdf as _a
    asdf.get_config().add_extension(_a.AbacusExtension())
    import abacusnbody.data.compaso_halo_catalog as chc
import abacusnbody
assert abacusnbody.__file__.startswith('/repo'), abacusnbody.__file__
warnings.simplefilter('ignore')

HEADER = dict(BoxSize=2000.0, VelZSpace_to_kms=1234.5, ppd=6912, SimName='Synth', Redshift=0.1)


def write(fn, data):
    fn.parent.mkdir(parents=True, exist_ok=True)
    asdf.AsdfFile({'header': dict(HEADER), 'data': data}).write_to(fn)


rng = np.random.default_rng(0)
fail = 0
with tempfile.TemporaryDirectory() as td:
    d = Path(td) / 'halo_light_cones' / 'Sim' / 'z0.100'
    nh = 6
    npout = np.array([2, 0, 3, 1, 0, 4], dtype=np.uint32)
    gaps = np.array([1, 0, 2, 0, 1, 0])
    npstart = np.cumsum(gaps + np.concatenate([[0], npout[:-1]])).astype(np.uint64)
    ntot = int(npstart[-1] + npout[-1] + 2)
    halos = {}
    for nm in chc.halo_lc_dt.names:
        dt = chc.halo_lc_dt[nm]
        halos[nm] = rng.integers(0, 50, size=(nh,) + dt.shape).astype(dt.base)
    halos['npstartA'] = npstart
    halos['npoutA'] = npout
    halos['index_halo'] = np.arange(nh, dtype=np.int64)
    part = dict(pid=np.arange(1000, 1000 + ntot, dtype=np.int64),
                pos=rng.random((ntot, 3)).astype(np.float32),
                vel=rng.random((ntot, 3)).astype(np.float32))
    write(d / 'lc_halo_info.asdf', halos)
    write(d / 'lc_pid_rv.asdf', part)

    # reference behaviour: the same load without passthrough works
    ref = chc.CompaSOHaloCatalog(d, subsamples=True, fields=['index_halo'])
    print('passthrough=False, subsamples=True :', ref.subsamples.colnames)

    for fields in (['index_halo'], 'DEFAULT_FIELDS', 'all'):
        try:
            cat = chc.CompaSOHaloCatalog(d, subsamples=True, passthrough=True, fields=fields)
        except Exception as e:
            print(f'passthrough=True,  subsamples=True, fields={fields!r}: RAISED {e!r}')
            fail += 1
            continue
        print(f'passthrough=True,  subsamples=True, fields={fields!r}:', cat.subsamples.colnames)
        # C01: every halo row indexes exactly its own particles of the single lc_pid_rv file
        tot = 0
        for r in range(nh):
            s, n = int(cat.halos['npstartA'][r]), int(cat.halos['npoutA'][r])
            if (s, n) != (int(npstart[r]), int(npout[r])):
                print('row', r, 'index columns changed'); fail += 1
            for c in ('pos', 'vel', 'pid'):
                if c not in cat.subsamples.colnames:
                    print('missing column', c); fail += 1; continue
                if not np.array_equal(np.asarray(cat.subsamples[c][s:s + n]), part[c][int(npstart[r]):int(npstart[r]) + int(npout[r])]):
                    print('row', r, c, 'slice mismatch'); fail += 1
        if len(cat.subsamples) != ntot:
            print('subsample table length', len(cat.subsamples), '!=', ntot); fail += 1

print('FAIL' if fail else 'PASS')
sys.exit(1 if fail else 0)
