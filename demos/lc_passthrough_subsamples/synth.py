"""Synthetic CompaSO catalogs (uncompressed asdf) + independent oracle for property C01."""
import boot  # noqa
import numpy as np
import asdf
from pathlib import Path
from abacusnbody.data import bitpacked

BOX = 2000.0
PPD = 6912
HEADER = dict(BoxSize=BOX, VelZSpace_to_kms=1234.5, ppd=PPD, SimName='Synth', Redshift=0.1)


def write(fn, data, header=None):
    fn = Path(fn)
    fn.parent.mkdir(parents=True, exist_ok=True)
    af = asdf.AsdfFile({'header': dict(header or HEADER), 'data': data})
    af.write_to(fn)


class Gen:
    def __init__(self, rng):
        self.rng = rng
        self.g = 1  # global particle identity

    def particles(self, n):
        """n unique raw records: rvint (n,3) int32 and packedpid (n,) uint64"""
        ids = np.arange(self.g, self.g + n, dtype=np.int64)
        self.g += n
        assert self.g < 2**19
        rv = np.empty((n, 3), dtype=np.int32)
        vel = self.rng.integers(0, 4096, size=(n, 3))
        rv[:, 0] = ((ids - 2**18) << 12) | vel[:, 0]
        rv[:, 1] = ((-(ids) + 1000) << 12) | vel[:, 1]
        rv[:, 2] = ((ids % 977) << 12) | vel[:, 2]
        pp = (ids & 0x7FFF).astype(np.uint64) | (((ids >> 15) & 0x7FFF).astype(np.uint64) << np.uint64(16))
        pp |= self.rng.integers(0, 0x7FFF, size=n).astype(np.uint64) << np.uint64(32)
        pp |= self.rng.integers(0, 2, size=n).astype(np.uint64) << np.uint64(48)
        pp |= self.rng.integers(0, 1024, size=n).astype(np.uint64) << np.uint64(49)
        return rv, pp


def make_catalog(root, nhalos_per_slab, rng, slab_ids=None, maxnp=5, p_zero=0.3, p_cleaned_away=0.25,
                 p_merge=0.4, gap=3, clean_layout='nested', extra_cols=True, merge_on_cleaned=False):
    """Returns truth: list over slabs of dict(AB -> list per halo of (orig_rv, orig_pp, merge_rv, merge_pp)), N_total"""
    root = Path(root)
    gen = Gen(rng)
    groupdir = root / 'Sim' / 'halos' / 'z0.100'
    if clean_layout == 'nested':
        cinfo = root / 'cleaning' / 'Sim' / 'z0.100' / 'cleaned_halo_info'
        crv = root / 'cleaning' / 'Sim' / 'z0.100' / 'cleaned_rvpid'
    else:
        cinfo = crv = root / 'cleaning' / 'Sim' / 'z0.100'
    if slab_ids is None:
        slab_ids = list(range(len(nhalos_per_slab)))
    truth = []
    hid = 0
    for sid, nh in zip(slab_ids, nhalos_per_slab):
        data = {}
        cdata = {}
        crvdata = {}
        N_total = np.where(rng.random(nh) < p_cleaned_away, 0, rng.integers(1, 100, size=nh)).astype(np.uint32)
        slabtruth = dict(N_total=N_total, id=np.arange(hid, hid + nh, dtype=np.uint64))
        hid += nh
        for AB in 'AB':
            rvs, pps, starts, counts = [], [], [], []
            crvs, cpps, cstarts, ccounts = [], [], [], []
            pos = 0
            cpos = 0
            per = []
            for h in range(nh):
                # unindexed L0 gap
                g = int(rng.integers(0, gap + 1))
                rv, pp = gen.particles(g)
                rvs.append(rv); pps.append(pp); pos += g
                n = 0 if rng.random() < p_zero else int(rng.integers(1, maxnp + 1))
                rv, pp = gen.particles(n)
                rvs.append(rv); pps.append(pp)
                starts.append(pos); counts.append(n); pos += n
                # merged
                g = int(rng.integers(0, gap + 1))
                crv_, cpp_ = gen.particles(g)
                crvs.append(crv_); cpps.append(cpp_); cpos += g
                m = int(rng.integers(1, maxnp + 1)) if (rng.random() < p_merge and (N_total[h] > 0 or merge_on_cleaned)) else 0
                mrv, mpp = gen.particles(m)
                crvs.append(mrv); cpps.append(mpp)
                cstarts.append(cpos if m else (cpos if rng.random() < 0.5 else -1)); ccounts.append(m); cpos += m
                per.append((rv, pp, mrv, mpp))
            # trailing gap
            g = int(rng.integers(0, gap + 1))
            rv, pp = gen.particles(g); rvs.append(rv); pps.append(pp)
            crv_, cpp_ = gen.particles(g); crvs.append(crv_); cpps.append(cpp_)
            slabtruth[AB] = per
            data['npstart' + AB] = np.array(starts, dtype=np.uint64)
            data['npout' + AB] = np.array(counts, dtype=np.uint32)
            cdata[f'npstart{AB}_merge'] = np.array(cstarts, dtype=np.int64)
            cdata[f'npout{AB}_merge'] = np.array(ccounts, dtype=np.uint32)
            write(groupdir / f'halo_rv_{AB}' / f'halo_rv_{AB}_{sid:03d}.asdf',
                  {'rvint': np.concatenate(rvs).reshape(-1, 3).astype(np.int32)})
            write(groupdir / f'halo_pid_{AB}' / f'halo_pid_{AB}_{sid:03d}.asdf',
                  {'packedpid': np.concatenate(pps).astype(np.uint64)})
            crvdata[f'rvint_{AB}'] = np.concatenate(crvs).reshape(-1, 3).astype(np.int32)
            crvdata[f'packedpid_{AB}'] = np.concatenate(cpps).astype(np.uint64)
        data['id'] = slabtruth['id']
        data['N'] = rng.integers(1, 100, size=nh).astype(np.uint32)
        slabtruth['N'] = data['N']
        if extra_cols:
            data['ntaggedA'] = np.zeros(nh, dtype=np.uint32)
            data['x_com'] = rng.random((nh, 3)).astype(np.float32) - 0.5
        cdata['N_total'] = N_total
        cdata['N_merge'] = np.zeros(nh, dtype=np.uint32)
        cdata['haloindex'] = np.arange(nh, dtype=np.uint64)
        cdata['is_merged_to'] = np.full(nh, -1, dtype=np.int64)
        cdata['haloindex_mainprog'] = np.zeros(nh, dtype=np.int64)
        cdata['v_L2com_mainprog'] = np.zeros((nh, 3), dtype=np.float32)
        write(groupdir / 'halo_info' / f'halo_info_{sid:03d}.asdf', data)
        ch = dict(HEADER); ch['TimeSliceRedshiftsPrev'] = [0.2, 0.3]
        write(cinfo / f'cleaned_halo_info_{sid:03d}.asdf', cdata, header=ch)
        write(crv / f'cleaned_rvpid_{sid:03d}.asdf', crvdata, header=ch)
        truth.append(slabtruth)
    return groupdir, truth


def decode_rv(rv):
    p, v = bitpacked.unpack_rvint(np.ascontiguousarray(rv).reshape(-1, 3).astype(np.int32), BOX)
    return p, v


def decode_pid(pp, fields):
    kw = {f: True for f in fields if f != 'packedpid'}
    out = bitpacked.unpack_pids(np.asarray(pp, dtype=np.uint64), box=BOX, ppd=PPD, **kw) if kw else {}
    if 'packedpid' in fields:
        out['packedpid'] = np.asarray(pp, dtype=np.uint64)
    return out


def expected_rows(truth, slab_order, cleaned, AB, keep=None):
    """list over halo rows of (rv, pp) expected raw records"""
    rows = []
    for k, s in enumerate(slab_order):
        st = truth[s]
        nh = len(st['N_total'])
        for h in range(nh):
            if keep is not None and not keep[k][h]:
                continue
            rv, pp, mrv, mpp = st[AB][h]
            if cleaned:
                if st['N_total'][h] == 0:
                    rv = rv[:0]; pp = pp[:0]
                rv = np.concatenate([rv, mrv]); pp = np.concatenate([pp, mpp])
            rows.append((rv, pp))
    return rows


def check(cat, truth, slab_order, cleaned, load_AB, cols, keep=None, label=''):
    """Check C01 on a loaded catalog. cols: subsample columns expected. Returns list of error strings"""
    errs = []
    sub = cat.subsamples
    nsub = len(sub) if len(sub.colnames) else 0
    for c in cols:
        if c not in sub.colnames:
            errs.append(f'{label}: missing subsample column {c}')
    cursor = 0
    for AB in load_AB:
        rows = expected_rows(truth, slab_order, cleaned, AB, keep)
        if len(rows) != len(cat.halos):
            errs.append(f'{label}: nrows {len(cat.halos)} != {len(rows)}')
            return errs
        st = np.asarray(cat.halos['npstart' + AB]).astype(np.int64)
        no = np.asarray(cat.halos['npout' + AB]).astype(np.int64)
        for r, (rv, pp) in enumerate(rows):
            if st[r] != cursor:
                errs.append(f'{label}: {AB} row {r} start {st[r]} != cursor {cursor}')
                return errs
            if no[r] != len(rv):
                errs.append(f'{label}: {AB} row {r} npout {no[r]} != {len(rv)}')
                return errs
            sl = slice(st[r], st[r] + no[r])
            ep, ev = decode_rv(rv)
            for c in cols:
                if c == 'pos':
                    exp = ep
                elif c == 'vel':
                    exp = ev
                elif c == 'rvint':
                    exp = rv.reshape(-1, 3)
                else:
                    exp = decode_pid(pp, [c])[c]
                got = np.asarray(sub[c][sl])
                if got.shape != exp.shape or not np.array_equal(got, exp):
                    errs.append(f'{label}: {AB} row {r} col {c} mismatch got {got.tolist()} exp {exp.tolist()}')
                    return errs
                if got.dtype != exp.dtype:
                    errs.append(f'{label}: {AB} row {r} col {c} dtype {got.dtype} != {exp.dtype}')
                    return errs
            cursor += no[r]
    if cursor != nsub:
        errs.append(f'{label}: sum of slices {cursor} != len(subsamples) {nsub}')
    return errs
