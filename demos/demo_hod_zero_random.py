"""C09 demo: a host whose stored random number is exactly 0.0 loses its galaxy
whenever LRG is not among the enabled tracers.

Property clause: "a halo (particle) hosts a central (satellite) of tracer T exactly
when its random number falls in T's slice of [0,1], the slices being stacked in the
order LRG, ELG, QSO ..." with the quantifier "random numbers incl. 0" x "all tracer
subsets".  When LRG is disabled the first enabled tracer's slice starts at 0, so
r = 0.0 lies in it (whatever the open/closed convention at the upper edges), and the
selection {r <= w} must contain r = 0 if it contains r = 1e-300.

Run with cwd=/repo:  /venv/bin/python /tmp/hunt_C09/demo.py
exit status 0 = property holds, 1 = violated.
"""
import math
import os
import sys

sys.path.insert(0, os.getcwd())

import numpy as np  # noqa: E402

import abacusnbody  # noqa: E402
import abacusnbody.hod.GRAND_HOD as G  # noqa: E402

print('package under test:', abacusnbody.__file__)

S2 = 1.41421356

ELG = dict(p_max=0.6, Q=100.0, logM_cut=12.0, logM1=13.5, sigma=0.6, alpha=0.9, kappa=1.0,
           gamma=4.0, A_s=1.0, alpha_c=0.0, alpha_s=1.0, s=0.0, s_v=0.0, s_p=0.0, s_r=0.0)
QSO = dict(logM_cut=12.0, logM1=14.0, sigma=0.5, alpha=1.0, kappa=1.0,
           alpha_c=0.0, alpha_s=1.0, s=0.0, s_v=0.0, s_p=0.0, s_r=0.0)
LRG = dict(logM_cut=12.0, logM1=14.0, sigma=0.5, alpha=1.0, kappa=0.5,
           alpha_c=0.0, alpha_s=1.0, s=0.0, s_v=0.0, s_p=0.0, s_r=0.0)
ALL = dict(LRG=LRG, ELG=ELG, QSO=QSO)


# ---- independent mean-occupation functions (from the documented formulas) ----
def ncen(t, M):
    p = ALL[t]
    lm = math.log10(M)
    if t == 'LRG':
        return 0.5 * math.erfc((p['logM_cut'] - lm) / (S2 * p['sigma']))
    if t == 'QSO':
        return 0.5 * (1 + math.erf((lm - p['logM_cut']) / S2 / p['sigma']))
    phi = 0.3989422804014327 / p['sigma'] * math.exp(-((lm - p['logM_cut']) ** 2) / 2 / p['sigma'] ** 2)
    Phi = 0.5 * (1 + math.erf(p['gamma'] * (lm - p['logM_cut']) / p['sigma'] / math.sqrt(2)))
    return 2.0 * (p['p_max'] - 1.0 / p['Q']) * phi * Phi


def nsat(t, M):
    p = ALL[t]
    d = M - p['kappa'] * 10 ** p['logM_cut']
    if d < 0:
        return 0.0
    base = (d / 10 ** p['logM1']) ** p['alpha']
    if t == 'LRG':
        return base * ncen('LRG', M)
    if t == 'ELG':
        return p['A_s'] * base
    return base


def slices(order, widths):
    """slice index (0-based in `order`) of r, closed upper edges as in the package;
    the first slice is [0, w0]."""
    def which(r):
        edge = 0.0
        for k, w in enumerate(widths):
            edge += w
            if r <= edge:
                return k
        return -1
    return which


# ---- synthetic hosts ----
H = 5
hmass = np.full(H, 10 ** 12.3)
hrand = np.array([0.0, 1e-300, 1e-12, 0.3, 0.999999])
hid = np.arange(H, dtype=np.int64) + 100
hpos = np.arange(3.0 * H).reshape(H, 3) - 7.0
hvel = np.zeros((H, 3))
halos = dict(hpos=hpos, hvel=hvel, hmass=hmass, hid=hid, hmultis=np.ones(H),
             hrandoms=hrand, hveldev=np.zeros((H, 3)))
# two particles per halo, hosts massive enough to have satellites
pinds = np.repeat(np.arange(H), 2)
P = len(pinds)
phmass = np.full(P, 10 ** 14.0)
prand = np.array([0.0, 0.9, 1e-300, 0.9, 0.0, 1e-9, 0.999, 0.0, 0.2, 1e-300])
wgt = 0.01
parts = dict(ppos=hpos[pinds] + 0.25, pvel=np.zeros((P, 3)), phvel=np.zeros((P, 3)),
             phmass=phmass, phid=hid[pinds] + 5000, pweights=np.full(P, wgt), prandoms=prand,
             pinds=pinds, pranks=np.zeros(P), pranksv=np.zeros(P), pranksp=np.zeros(P),
             pranksr=np.zeros(P), pranksc=np.zeros(P))
params = dict(z=0.5, velz2kms=30.0, Lbox=100.0, origin=None, Mpart=2e9)

fail = 0
for sub in (['ELG'], ['QSO'], ['ELG', 'QSO'], ['LRG', 'ELG', 'QSO'], ['LRG']):
    tracers = {t: ALL[t] for t in sub}
    wc = slices(sub, [ncen(t, hmass[0]) for t in sub])
    ws = slices(sub, [nsat(t, phmass[0]) * wgt for t in sub])
    for nt in (1, 2):
        got = G.gen_gals(halos, parts, tracers, params, nt, False, False, False, False)
        for k, t in enumerate(sub):
            exp_c = [int(hid[i]) for i in range(H) if wc(hrand[i]) == k]
            exp_s = [int(parts['phid'][i]) for i in range(P) if ws(prand[i]) == k]
            nc = got[t]['Ncent']
            got_c = [int(v) for v in got[t]['id'][:nc]]
            got_s = [int(v) for v in got[t]['id'][nc:]]
            ok = got_c == exp_c and got_s == exp_s
            print(f'tracers={sub} Nthread={nt} {t}: centrals got {got_c} expected {exp_c}; '
                  f'satellites got {got_s} expected {exp_s} -> {"ok" if ok else "VIOLATION"}')
            fail += not ok

# the keep code returned by gen_cent (drives ELG conformity in gen_sats)
import numba as nb  # noqa: E402

d = nb.typed.Dict.empty(key_type=nb.types.unicode_type, value_type=nb.types.float64)
e = nb.typed.Dict.empty(key_type=nb.types.unicode_type, value_type=nb.types.float64)
for k, v in ELG.items():
    e[k] = v
for k, v in dict(Acent=0.0, Bcent=0.0, Ccent=0.0, ic=1.0).items():
    e[k] = v
keep = G.gen_cent(hpos, hvel, hmass, hid, np.ones(H), hrand, np.zeros((H, 3)), np.zeros(H), np.zeros(H),
                  np.zeros(H), d, e, d, False, 1 / 30.0, 100.0, False, True, False, 1, None)[4]
exp_keep = [2 if r <= ncen('ELG', hmass[0]) else 0 for r in hrand]
okk = list(keep) == exp_keep
print('gen_cent keep codes with only ELG enabled:', list(keep), 'expected', exp_keep,
      '->', 'ok' if okk else 'VIOLATION (code 1 = LRG central although LRG is disabled)')
fail += not okk

print('FAILURES:', fail)
sys.exit(1 if fail else 0)
