import sys, types, os
import numpy as np
import numba
import astropy.table
# scipy.fft stand-in
sp = types.ModuleType('scipy'); spf = types.ModuleType('scipy.fft')
def _rfftn(x, workers=None, overwrite_x=False, **kw): return np.fft.rfftn(x, **kw)
def _irfftn(x, workers=None, **kw): return np.fft.irfftn(x, **kw)
spf.rfftn=_rfftn; spf.irfftn=_irfftn; spf.fftfreq=np.fft.fftfreq
sp.fft=spf
sys.modules.setdefault('scipy', sp); sys.modules.setdefault('scipy.fft', spf)
os.chdir('/repo'); sys.path.insert(0,'/repo')
import abacusnbody
assert abacusnbody.__file__.startswith('/repo'), abacusnbody.__file__
from abacusnbody.analysis import power_spectrum as ps

def legendre(l, mu):
    from numpy.polynomial import legendre as L
    c = np.zeros(l+1); c[l]=1
    return L.legval(mu, c)

def oracle_kmu(n, L, kedges, muedges, full, poles, fourier=True):
    """full: real array (n,n,n) of values over the full mesh (must be symmetric under k->-k for comparison).
    bins: k range [e0,eN), inner (lo,hi]; mu similarly with mu in [m0, mN] inclusive of top"""
    dk = 2*np.pi/L if fourier else L/n
    f = np.fft.fftfreq(n, 1.0/n).round().astype(np.int64)
    # even n: index n/2 -> -n/2 ; magnitude same
    I,J,K = np.meshgrid(f,f,f,indexing='ij')
    k2 = I**2+J**2+K**2
    from fractions import Fraction
    Nk=len(kedges)-1; Nmu=len(muedges)-1
    ke2 = ((np.asarray(kedges,dtype=np.float64)/dk)**2)
    mu2e = np.asarray(muedges,dtype=np.float64)**2
    mu2 = np.where(k2>0, K**2/np.maximum(k2,1), 0.0)
    inr = (k2>=ke2[0])&(k2<ke2[-1])
    bk = np.searchsorted(ke2, k2, side='left')-1   # (lo,hi]
    bk = np.where(k2<=ke2[0], 0, bk)  # k2==e0 included in bin 0
    bm = np.searchsorted(mu2e, mu2, side='left')-1
    bm = np.where(mu2<=mu2e[0], 0, bm)
    inm = (mu2>=mu2e[0])&(mu2<=mu2e[-1])
    sel = inr&inm
    counts=np.zeros((Nk,Nmu),np.int64); ws=np.zeros((Nk,Nmu)); wk=np.zeros((Nk,Nmu))
    np.add.at(counts,(bk[sel],bm[sel]),1)
    np.add.at(ws,(bk[sel],bm[sel]),full[sel])
    np.add.at(wk,(bk[sel],bm[sel]),np.sqrt(k2[sel])*dk)
    wp=np.zeros((len(poles),Nk))
    for ip,l in enumerate(poles):
        np.add.at(wp[ip], bk[sel], full[sel]*(2*l+1)*legendre(l,np.sqrt(mu2[sel])))
    cp=counts.sum(1)
    with np.errstate(all='ignore'):
        m=np.where(counts>0, ws/np.maximum(counts,1),0); mk=np.where(counts>0, wk/np.maximum(counts,1),0)
        mp=np.where(cp>0, wp/np.maximum(cp,1),0)
    return m,counts,mp,cp,mk

def half(full,n): return np.ascontiguousarray(full[:,:,:n//2+1])

def sym_field(n, rng):
    """random real field over the full mesh symmetric under k -> -k (like |delta_k|^2)"""
    x = rng.standard_normal((n,n,n))
    d = np.fft.fftn(x)
    return (np.abs(d)**2)/n**3
