"""C08 demo 1: bin_kmu with a mu binning that does not span [0, 1].

Modes whose mu lies outside [muedges[0], muedges[-1]] must not be counted in any
bin ("in the bin that contains its |k| and mu").  The unmodified bin_kmu has no
range test on the mu axis (unlike the k axis, and unlike the pi axis of bin_kppi):
  * muedges[0] > 0 : modes with mu < muedges[0] are counted in the first mu bin;
  * muedges[-1] < 1: the incremental search reads muedges2 past its end and then
    writes counts[tid, bk, bmu] with bmu >= Nmu (other bins / foreign memory):
    wrong and run-to-run varying counts.
Exit status 0 iff all counts/means agree with a brute-force enumeration of the full mesh.
"""
import sys, os, types
import numpy as np
import numba
import astropy.table  # noqa  (import before installing the scipy stand-in)
if 'scipy' not in sys.modules:
    try:
        import scipy.fft  # noqa
    except Exception:
        sp = types.ModuleType('scipy'); spf = types.ModuleType('scipy.fft')
        spf.rfftn = lambda x, workers=None, overwrite_x=False, **kw: np.fft.rfftn(x, **kw)
        spf.irfftn = lambda x, workers=None, **kw: np.fft.irfftn(x, **kw)
        spf.fftfreq = np.fft.fftfreq
        sp.fft = spf
        sys.modules['scipy'] = sp; sys.modules['scipy.fft'] = spf
os.chdir('/repo'); sys.path.insert(0, '/repo')
import abacusnbody
assert abacusnbody.__file__.startswith('/repo'), abacusnbody.__file__
from abacusnbody.analysis.power_spectrum import bin_kmu


def brute(n, L, kedges, muedges, full):
    """enumerate the FULL n^3 mesh; k range [e0,eN), inner (lo,hi]; mu range [m0,mN], inner (lo,hi]"""
    dk = 2 * np.pi / L
    f = np.rint(np.fft.fftfreq(n, 1.0 / n)).astype(np.int64)
    I, J, K = np.meshgrid(f, f, f, indexing='ij')
    k2 = I**2 + J**2 + K**2
    mu2 = np.where(k2 > 0, K**2 / np.maximum(k2, 1), 0.0)
    ke2 = (kedges / dk) ** 2
    me2 = muedges**2
    sel = (k2 >= ke2[0]) & (k2 < ke2[-1]) & (mu2 >= me2[0]) & (mu2 <= me2[-1])
    bk = np.where(k2 <= ke2[0], 0, np.searchsorted(ke2, k2, side='left') - 1)
    bm = np.where(mu2 <= me2[0], 0, np.searchsorted(me2, mu2, side='left') - 1)
    c = np.zeros((len(kedges) - 1, len(muedges) - 1), np.int64)
    s = np.zeros(c.shape)
    np.add.at(c, (bk[sel], bm[sel]), 1)
    np.add.at(s, (bk[sel], bm[sel]), full[sel])
    return np.where(c > 0, s / np.maximum(c, 1), 0.0), c


rng = np.random.default_rng(8)
fail = 0
for n in (8, 9):
    L = 100.0
    dk = 2 * np.pi / L
    full = np.abs(np.fft.fftn(rng.standard_normal((n, n, n)))) ** 2 / n**3  # symmetric under k -> -k
    w = np.ascontiguousarray(full[:, :, : n // 2 + 1])
    kedges = np.array([0.3, 1.7, 2.9, 4.2]) * dk  # no mode on an edge
    for muedges in (
        np.array([0.0, 0.5, 1.0]),  # control: full range
        np.array([0.2, 0.5, 1.0]),  # starts above 0
        np.array([0.0, 0.3, 0.55]),  # ends below 1
    ):
        ref_mean, ref_c = brute(n, L, kedges, muedges, full)
        for nthread in (1, 2):
            for rep in range(3):
                mean, c, _, cp, _ = bin_kmu(n, L, kedges, muedges, w, np.array([0]), np.float64, True, nthread)
                ok = np.array_equal(c, ref_c) and np.allclose(mean, ref_mean, rtol=1e-9, atol=0) and np.array_equal(cp, ref_c.sum(1))
                if not ok:
                    fail += 1
                    print(f'MISMATCH n={n} muedges={muedges} nthread={nthread} rep={rep}\n got counts\n{c}\n expected\n{ref_c}')
print('FAIL' if fail else 'OK', fail)
sys.exit(1 if fail else 0)
