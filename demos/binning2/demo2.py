"""C08 demo 2: squared bin edges rounded to float32 move a whole |k| shell into the wrong bin.

bin_kmu / bin_kppi compare the exact integer |k|^2 (in units of dk^2) with
kedges2 = ((kedges/dk)**2).astype(float32).  When (kedges[b]/dk)**2 lies just BELOW an
integer N (closer than half a float32 ulp) it is rounded UP to N, and every mode with
|k|^2 == N, which lies strictly ABOVE the edge, fails `kmag2 > kedges2[b]` and is counted
in bin b-1.  This happens with ordinary parameters: the defaults of calc_power
(k_max = Nyquist, linear bins) with nmesh=256, kbins=65: edge 56 is 128*56/65 = 110.27692...,
its square 12160.99976..., float32 -> 12161.0; exact rational test: 12161*65^2 = 51380225 > (128*56)^2 = 51380224.
(dtype=float32 is the default and the only mode reachable through calc_pk_from_deltak / calc_power.)
Exit status 0 iff the counts agree with exact integer arithmetic.
"""
import sys, os, types
import numpy as np
import numba
import astropy.table  # noqa
if 'scipy' not in sys.modules:
    try:
        import scipy.fft  # noqa
    except Exception:
        sp = types.ModuleType('scipy'); spf = types.ModuleType('scipy.fft')
        spf.rfftn = lambda x, workers=None, overwrite_x=False, **kw: np.fft.rfftn(x, **kw)
        spf.irfftn = lambda x, workers=None, **kw: np.fft.irfftn(x, **kw)
        spf.fftfreq = np.fft.fftfreq
        sp.fft = spf
        sys.modules['scipy'] = sp; sys.modules['scipy.fft'] = spf
os.chdir('/repo'); sys.path.insert(0, '/repo')
import abacusnbody
assert abacusnbody.__file__.startswith('/repo'), abacusnbody.__file__
from abacusnbody.analysis.power_spectrum import bin_kmu, bin_kppi, get_k_mu_edges

n, L, kb = 256, 1000.0, 65
dk = 2 * np.pi / L
kedges, muedges = get_k_mu_edges(L, np.pi * n / L, kb, 1, False)  # what calc_power does by default

# exact oracle: shell populations of the full mesh, exact rational bin test
f = np.rint(np.fft.fftfreq(n, 1.0 / n)).astype(np.int64)
k2 = (f[:, None, None] ** 2 + f[None, :, None] ** 2 + f[None, None, :] ** 2).ravel()
shell = np.bincount(k2)  # number of modes of the full mesh with |k|^2 == N
N = np.arange(len(shell))
# edge b is (n/2)*b/kb in units of dk:  N > edge^2  <=>  N*kb^2 > (n/2*b)^2   (integers)
num = (n // 2 * np.arange(kb + 1)) ** 2
lhs = N * kb**2
bk = np.searchsorted(num, lhs, side='left') - 1  # (lo, hi]
bk[lhs <= num[0]] = 0
sel = lhs < num[-1]
ref_c = np.bincount(bk[sel], weights=shell[sel], minlength=kb).astype(np.int64)
# the float64 edges really are these rationals to 1e-15, and no shell is closer than 1e-9 to an edge except b = 0, kb
e2 = (kedges / dk) ** 2
assert np.allclose(e2 * kb**2, num, rtol=1e-13)
inner = e2[1:-1]
assert np.min(np.abs(inner - np.rint(inner)) / inner) > 1e-9

# weights: value = |k|^2 of the mode, so a misplaced shell also shows in the mean
I = f[:, None, None] ** 2 + f[None, :, None] ** 2 + f[None, None, : n // 2 + 1] ** 2
w = I.astype(np.float64)
ref_mean = np.bincount(bk[sel], weights=(shell * N)[sel], minlength=kb) / np.maximum(ref_c, 1)

fail = 0
for nthread in (1, 3):
    mean, c, _, _, _ = bin_kmu(n, L, kedges, muedges, w, nthread=nthread)  # default dtype, as calc_pk_from_deltak
    c = c[:, 0]
    d = np.nonzero(c != ref_c)[0]
    if len(d):
        fail += 1
        for b in d:
            print(f'bin_kmu nthread={nthread} k bin {b} [{kedges[b]/dk:.6f},{kedges[b+1]/dk:.6f}) dk: N_mode {c[b]} expected {ref_c[b]} (diff {c[b]-ref_c[b]}); mean {mean[b,0]:.4f} expected {ref_mean[b]:.4f}')
# same rounding in bin_kppi (k_perp edges): compare the k_perp marginal with exact arithmetic
kp2 = (f[:, None] ** 2 + f[None, :] ** 2).ravel()
ring = np.bincount(kp2)
Np_ = np.arange(len(ring))
lhs = Np_ * kb**2
bp = np.searchsorted(num, lhs, side='left') - 1
bp[lhs <= num[0]] = 0
selp = lhs < num[-1]
ref_cp = np.bincount(bp[selp], weights=ring[selp] * n, minlength=kb).astype(np.int64)  # pimax beyond Nyquist: all n kz planes
_, cpp = bin_kppi(n, L, kedges, 2 * np.pi * n / L, 1, w, nthread=2)
d = np.nonzero(cpp[:, 0] != ref_cp)[0]
if len(d):
    fail += 1
    for b in d:
        print(f'bin_kppi k_perp bin {b}: N_mode {cpp[b,0]} expected {ref_cp[b]}')
print('FAIL' if fail else 'OK')
sys.exit(1 if fail else 0)
