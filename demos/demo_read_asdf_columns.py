"""C16 demo: read_asdf silently accepts columns that cannot be decoded from the
detected raw column.

  * packedpid/pid file + load containing 'pos' or 'vel'  -> the table gets a
    'pos'/'vel' column that is never written (np.empty): uninitialised memory
    is returned as particle positions.
  * rvint/pack9 file + load containing a PID-derived name -> the name is
    silently dropped (returned columns != requested columns); if neither 'pos'
    nor 'vel' is requested the decoded count is 0 and e.g. 'aux' comes back
    with zero rows for a file with N particles.
  * the deprecated flags reach the same paths: read_asdf(pidfile, load_pos=True)

Clauses: "returns a table with exactly the requested columns ... one row per
particle ... whose values equal the direct decoding of the file's raw column".

Exit status 0 iff every such request either raises ValueError or returns a
table that satisfies the clauses.
"""
import os
import sys
import tempfile
import types
import warnings

sys.modules.setdefault('blosc', types.ModuleType('blosc'))
os.chdir('/repo')
sys.path.insert(0, '/repo')

import numpy as np
import asdf
import abacusnbody

assert abacusnbody.__file__.startswith('/repo'), abacusnbody.__file__
from abacusnbody.data.asdf import AbacusExtension

try:
    import asdf._compression as _c
except ImportError:
    import asdf.compression as _c
try:
    _c.validate('blsc')
except Exception:
    asdf.get_config().add_extension(AbacusExtension())

from abacusnbody.data.read_abacus import read_asdf

warnings.simplefilter('ignore')
tmp = tempfile.mkdtemp(prefix='c16demo_', )
hdr = {'BoxSize': 100.0, 'ppd': 16.0, 'VelZSpace_to_kms': 1000.0, 'OutputType': 'TimeSlice'}
N = 1000
rng = np.random.default_rng(0)


def write(name, data):
    fn = os.path.join(tmp, name)
    asdf.AsdfFile({'data': data, 'header': dict(hdr)}).write_to(fn)
    return fn


pidfn = write('pid.asdf', {'packedpid': rng.integers(0, 2**62, size=N).astype(np.uint64)})
rvfn = write('rv.asdf', {'rvint': rng.integers(-(2**31), 2**31, size=(N, 3)).astype(np.int32)})
p9 = rng.integers(0, 255, size=(N + 1, 9)).astype(np.uint8)  # no 0xFF first bytes ...
p9[0] = [0xFF, 0x08, 0x05, 0x80, 0x88, 0x00, 0x80, 0x08, 0x00]  # ... except one cell header
p9fn = write('p9.asdf', {'pack9': p9})

bad = 0


def check(label, fn, npart, **kw):
    """A request is handled correctly if it raises ValueError, or returns exactly
    the requested columns with one row per particle."""
    global bad
    req = kw.get('load')
    # poison the allocator so that reuse of freed blocks shows up as 7.0
    junk = np.full((N, 3), 7.0, dtype=np.float32)
    del junk
    try:
        t = read_asdf(fn, verbose=False, **kw)
    except ValueError as e:
        print(f'ok    {label}: ValueError({str(e)[:60]}...)')
        return
    msg = []
    if req is not None and sorted(t.colnames) != sorted(set(req)):
        msg.append(f'requested {tuple(req)} but got {t.colnames}')
    if t.colnames and len(t) != npart:
        msg.append(f'{len(t)} rows for {npart} particles')
    for c in ('pos', 'vel'):
        if c in t.colnames and 'pid' in fn:
            a = np.asarray(t[c])
            msg.append(
                f"'{c}' returned from a PID file (never written by any decoder; "
                f'first row {a[0] if len(a) else None})'
            )
    if msg:
        bad += 1
        print(f'WRONG {label}: ' + '; '.join(msg))
    else:
        print(f'ok    {label}: {t.colnames} x {len(t)}')


check('packedpid load=(pos,)', pidfn, N, load=('pos',))
check('packedpid load=(pid,vel)', pidfn, N, load=('pid', 'vel'))
check('packedpid load_pos=True (deprecated)', pidfn, N, load_pos=True)
check('rvint load=(pos,pid)', rvfn, N, load=('pos', 'pid'))
check('rvint load=(aux,)', rvfn, N, load=('aux',))
check('pack9 load=(vel,density)', p9fn, N, load=('vel', 'density'))
check('pack9 load=(aux,)', p9fn, N, load=('aux',))
# controls: legitimate requests must keep working
check('control packedpid all', pidfn, N, load=('pid', 'lagr_pos', 'tagged', 'density', 'lagr_idx', 'aux'))
check('control rvint pos', rvfn, N, load=('pos',))
check('control pack9 default', p9fn, N)
for fn, want in ((pidfn, ['pid']), (rvfn, ['pos', 'vel']), (p9fn, ['pos', 'vel'])):
    t = read_asdf(fn, verbose=False)
    if sorted(t.colnames) != want or len(t) != N:
        bad += 1
        print('WRONG control default', fn, t.colnames, len(t))

import shutil
shutil.rmtree(tmp, ignore_errors=True)
print('violations:', bad)
sys.exit(1 if bad else 0)
