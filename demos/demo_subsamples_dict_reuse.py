#!/venv/bin/python
"""C03 demo 1: the `subsamples` selection dict passed by the caller is emptied by
CompaSOHaloCatalog._setup_load_subsamples, so the SAME selection gives particles on the
first load and silently none on every later load.  Consequently

  (a) loading a directory is NOT the concatenation of loading each file on its own
      with the same arguments (the per-file loads have no particle slices at all), and
  (b) loading with a filter_func is NOT the masked version of the unfiltered load
      made with the same arguments.

Run with cwd=/repo.  Exit status 1 = defect present, 0 = property holds.
"""
import os, sys, types, shutil, tempfile
sys.modules.setdefault('blosc', types.ModuleType('blosc'))
sys.modules['blosc'].set_nthreads = lambda n: None
sys.path.insert(0, os.getcwd())
import numpy as np, asdf
import abacusnbody
import abacusnbody.data.asdf as _abacus_asdf
asdf.get_config().add_extension(_abacus_asdf.AbacusExtension())   # registers the 'blsc' label (entry point absent in sandbox)
from abacusnbody.data.compaso_halo_catalog import CompaSOHaloCatalog

print('abacusnbody from', abacusnbody.__file__)
rng = np.random.default_rng(0)
root = tempfile.mkdtemp(prefix='c03demo_')
gdir = os.path.join(root, 'Sim', 'halos', 'z0.000')
header = dict(BoxSize=32.0, VelZSpace_to_kms=1000.0, ppd=64, SimName='Sim', Redshift=0.0)
for d in ('halo_info', 'halo_rv_A'):
    os.makedirs(os.path.join(gdir, d))
nhalo = [4, 3, 5]
hid = 0
for i, nh in enumerate(nhalo):
    npout = rng.integers(1, 5, nh).astype(np.uint32)
    npstart = np.concatenate([[0], np.cumsum(npout)[:-1]]).astype(np.uint64)
    data = dict(id=(hid + np.arange(nh)).astype(np.uint64), N=rng.integers(50, 150, nh).astype(np.uint32),
                npstartA=npstart, npoutA=npout)
    hid += nh
    asdf.AsdfFile(dict(header=header, data=data)).write_to(os.path.join(gdir, 'halo_info', f'halo_info_{i:03d}.asdf'))
    rvint = rng.integers(-2**31, 2**31 - 1, (int(npout.sum()), 3)).astype(np.int32)
    asdf.AsdfFile(dict(header=header, data=dict(rvint=rvint))).write_to(os.path.join(gdir, 'halo_rv_A', f'halo_rv_A_{i:03d}.asdf'))
files = sorted(os.path.join(gdir, 'halo_info', f) for f in os.listdir(os.path.join(gdir, 'halo_info')))

def slices(cat):
    """list of per-halo particle position arrays ([] if the catalog has no particle indexing)"""
    if 'npstartA' not in cat.halos.colnames or 'pos' not in cat.subsamples.colnames:
        return None
    return [np.asarray(cat.subsamples['pos'][s:s + n]) for s, n in zip(cat.halos['npstartA'], cat.halos['npoutA'])]

bad = 0
selection = dict(A=True, pos=True)          # one selection object, reused as any caller would
kw = dict(cleaned=False, fields=['id', 'N'], subsamples=selection)

whole = CompaSOHaloCatalog(gdir, **kw)
print('selection dict after the first load:', selection)
parts = [CompaSOHaloCatalog(f, **kw) for f in files]
sw = slices(whole)
sp = [slices(p) for p in parts]
print('directory load : %d halos, %d particles' % (len(whole.halos), len(whole.subsamples)))
print('per-file loads : halos', [len(p.halos) for p in parts], 'particles', [len(p.subsamples) for p in parts])
if any(s is None for s in sp) or sw is None:
    print('FAIL (a): a load made with the same `subsamples` selection has no particle slices')
    bad = 1
else:
    cat_sp = sum(sp, [])
    if len(cat_sp) != len(sw) or not all(np.array_equal(a, b) for a, b in zip(sw, cat_sp)):
        print('FAIL (a): per-halo particle slices differ'); bad = 1

selection = dict(A=True, pos=True)
kw = dict(cleaned=False, fields=['id', 'N'], subsamples=selection)
unfilt = CompaSOHaloCatalog(gdir, **kw)
filt = CompaSOHaloCatalog(gdir, filter_func=lambda h: h['N'] >= 100, **kw)
mask = np.asarray(unfilt.halos['N'] >= 100)
su, sf = slices(unfilt), slices(filt)
print('unfiltered load: %d particles; filtered load: %d particles; expected %d' % (
    len(unfilt.subsamples), len(filt.subsamples), int(np.asarray(unfilt.halos['npoutA'])[mask].sum())))
if su is None or sf is None:
    print('FAIL (b): filtered load made with the same `subsamples` selection has no particle slices'); bad = 1
else:
    exp = [s for s, k in zip(su, mask) if k]
    if len(exp) != len(sf) or not all(np.array_equal(a, b) for a, b in zip(sf, exp)):
        print('FAIL (b): filtered particle slices differ'); bad = 1

shutil.rmtree(root)
print('DEFECT PRESENT' if bad else 'OK')
sys.exit(bad)
