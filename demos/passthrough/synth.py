"""Synthetic CompaSO catalog builder + independent oracle for property C01."""
import sys, types, os, shutil, tempfile
from pathlib import Path

bl = types.ModuleType('blosc')
bl.set_nthreads = lambda n: None
sys.modules['blosc'] = bl

import numpy as np
import asdf

# register extension by hand
import abacusnbody
import abacusnbody.data.asdf as _aa
try:
    asdf.get_config().add_extension(_aa.AbacusExtension())
except Exception as e:  # pragma: no cover
    print('ext reg fail', e)

from abacusnbody.data import compaso_halo_catalog as chc
from abacusnbody.data import bitpacked

assert abacusnbody.__file__.startswith('/repo'), abacusnbody.__file__

HEADER = dict(
    BoxSize=100.0,
    VelZSpace_to_kms=1000.0,
    ppd=64.0,
    SimName='synth',
    Redshift=1.0,
    TimeSliceRedshiftsPrev=[1.1, 1.2],
)


def write_asdf(fn, data, header=None):
    fn = Path(fn)
    fn.parent.mkdir(parents=True, exist_ok=True)
    tree = {'data': data, 'header': dict(header or HEADER)}
    af = asdf.AsdfFile(tree)
    af.write_to(fn)


def rand_rvint(rng, n):
    return rng.integers(-(2**31), 2**31 - 1, size=(n, 3), dtype=np.int64).astype(np.int32)


def rand_pid(rng, n):
    return rng.integers(0, 2**62, size=n, dtype=np.int64).astype(np.uint64)


def make_slab(rng, nh, cleaned, gaps=True, zero_frac=0.3, away_frac=0.3, maxn=5):
    """Make one superslab: halo table columns + particle files content (A and B)
    Returns dict with halo cols, clean cols, particle arrays, and per-halo truth."""
    out = {}
    cols = {}
    ccols = {}
    cols['id'] = rng.integers(0, 2**40, size=nh).astype(np.uint64)
    cols['N'] = rng.integers(1, 100, size=nh).astype(np.uint32)
    N_total = cols['N'].copy()
    away = rng.random(nh) < away_frac
    N_total[away] = 0
    ccols['N_total'] = N_total.astype(np.uint32)
    ccols['N_merge'] = np.zeros(nh, dtype=np.uint32)
    parts = {}
    for AB in 'AB':
        npout = rng.integers(0, maxn + 1, size=nh).astype(np.uint32)
        npout[rng.random(nh) < zero_frac] = 0
        # L0 gaps between halos
        gap = rng.integers(0, 4, size=nh + 1) if gaps else np.zeros(nh + 1, dtype=int)
        npstart = np.zeros(nh, dtype=np.uint64)
        pos = 0
        for i in range(nh):
            pos += gap[i]
            npstart[i] = pos
            pos += npout[i]
        pos += gap[nh]
        ntot = int(pos)
        cols[f'npstart{AB}'] = npstart
        cols[f'npout{AB}'] = npout
        parts[f'rv{AB}'] = rand_rvint(rng, ntot)
        parts[f'pid{AB}'] = rand_pid(rng, ntot)
        # merged
        npout_m = rng.integers(0, maxn + 1, size=nh).astype(np.uint32)
        npout_m[rng.random(nh) < 0.5] = 0
        # merged ranges: lay out in shuffled order with gaps to be adversarial
        order = rng.permutation(nh)
        npstart_m = np.zeros(nh, dtype=np.int64)
        pos = 0
        for i in order:
            pos += rng.integers(0, 3)
            npstart_m[i] = pos
            pos += npout_m[i]
        pos += rng.integers(0, 3)
        ccols[f'npstart{AB}_merge'] = npstart_m
        ccols[f'npout{AB}_merge'] = npout_m
        parts[f'crv{AB}'] = rand_rvint(rng, int(pos))
        parts[f'cpid{AB}'] = rand_pid(rng, int(pos))
    out['cols'] = cols
    out['ccols'] = ccols
    out['parts'] = parts
    out['nh'] = nh
    return out


def build_catalog(root, rng, nhs, slab_inds=None, layout=1, **kw):
    """Write to root/Sim/halos/z1.000/... and root/cleaning/Sim/z1.000/..."""
    root = Path(root)
    if slab_inds is None:
        slab_inds = list(range(len(nhs)))
    zdir = root / 'Sim' / 'halos' / 'z1.000'
    cdir = root / 'cleaning' / 'Sim' / 'z1.000'
    slabs = []
    for nh, si in zip(nhs, slab_inds):
        s = make_slab(rng, nh, True, **kw)
        s['ind'] = si
        slabs.append(s)
        write_asdf(zdir / 'halo_info' / f'halo_info_{si:03d}.asdf', s['cols'])
        for AB in 'AB':
            write_asdf(zdir / f'halo_rv_{AB}' / f'halo_rv_{AB}_{si:03d}.asdf', {'rvint': s['parts'][f'rv{AB}']})
            write_asdf(zdir / f'halo_pid_{AB}' / f'halo_pid_{AB}_{si:03d}.asdf', {'packedpid': s['parts'][f'pid{AB}']})
        write_asdf(cdir / 'cleaned_halo_info' / f'cleaned_halo_info_{si:03d}.asdf', s['ccols'])
        write_asdf(
            cdir / 'cleaned_rvpid' / f'cleaned_rvpid_{si:03d}.asdf',
            {
                'rvint_A': s['parts']['crvA'],
                'rvint_B': s['parts']['crvB'],
                'packedpid_A': s['parts']['cpidA'],
                'packedpid_B': s['parts']['cpidB'],
            },
        )
    return zdir, slabs


def oracle(slabs, cleaned, load_AB, keep=None):
    """Expected raw records per (AB, halo-row). Returns list over AB of list of (rv, pid) per halo, in catalog order.
    keep: optional list (per slab) of boolean masks (filter)."""
    res = {}
    for AB in load_AB:
        per = []
        for k, s in enumerate(slabs):
            c, cc, p = s['cols'], s['ccols'], s['parts']
            for i in range(s['nh']):
                if keep is not None and not keep[k][i]:
                    continue
                st, n = int(c[f'npstart{AB}'][i]), int(c[f'npout{AB}'][i])
                if cleaned and cc['N_total'][i] == 0:
                    n = 0
                rv = p[f'rv{AB}'][st : st + n]
                pid = p[f'pid{AB}'][st : st + n]
                if cleaned:
                    ms, mn = int(cc[f'npstart{AB}_merge'][i]), int(cc[f'npout{AB}_merge'][i])
                    rv = np.concatenate([rv, p[f'crv{AB}'][ms : ms + mn]])
                    pid = np.concatenate([pid, p[f'cpid{AB}'][ms : ms + mn]])
                per.append((rv, pid))
        res[AB] = per
    return res


def decode_rv(rv, box):
    pos = ((rv >> 12).astype(np.float64) * (box / 1e6)).astype(np.float32)
    vel = (((rv & 0xFFF).astype(np.int64) - 2048) * (6000.0 / 2048)).astype(np.float32)
    return pos, vel


AUXPID = np.uint64(0x7FFF) | np.uint64(0x7FFF0000) | np.uint64(0x7FFF00000000)


def check(cat, slabs, cleaned, load_AB, which, keep=None, unpack_bits=False, passthrough=False, box=100.0, ppd=64):
    """Return list of error strings"""
    errs = []
    exp = oracle(slabs, cleaned, load_AB, keep=keep)
    nrows = len(exp[load_AB[0]])
    if len(cat.halos) != nrows:
        errs.append(f'nrows {len(cat.halos)} != {nrows}')
        return errs
    running = 0
    sub = cat.subsamples
    for AB in 'AB':
        if AB not in load_AB:
            continue
        st = np.asarray(cat.halos[f'npstart{AB}']).astype(np.int64)
        n = np.asarray(cat.halos[f'npout{AB}']).astype(np.int64)
        for i in range(nrows):
            rv, pid = exp[AB][i]
            if st[i] != running:
                errs.append(f'{AB} row {i}: npstart {st[i]} != running {running}')
            if n[i] != len(rv):
                errs.append(f'{AB} row {i}: npout {n[i]} != expected {len(rv)}')
            sl = slice(int(st[i]), int(st[i] + n[i]))
            m = min(n[i], len(rv))
            if passthrough:
                if 'rvint' in sub.colnames and not np.array_equal(np.asarray(sub['rvint'][sl])[:m], rv[:m]):
                    errs.append(f'{AB} row {i}: rvint mismatch')
                if 'packedpid' in sub.colnames and not np.array_equal(np.asarray(sub['packedpid'][sl])[:m], pid[:m]):
                    errs.append(f'{AB} row {i}: packedpid mismatch')
            else:
                epos, evel = decode_rv(rv, box)
                if 'pos' in sub.colnames and not np.allclose(np.asarray(sub['pos'][sl])[:m], epos[:m], rtol=1e-6, atol=1e-6):
                    errs.append(f'{AB} row {i}: pos mismatch')
                if 'vel' in sub.colnames and not np.allclose(np.asarray(sub['vel'][sl])[:m], evel[:m], rtol=1e-6, atol=1e-6):
                    errs.append(f'{AB} row {i}: vel mismatch')
                if 'pid' in sub.colnames and not np.array_equal(np.asarray(sub['pid'][sl])[:m].astype(np.uint64), (pid & AUXPID)[:m]):
                    errs.append(f'{AB} row {i}: pid mismatch')
                if 'tagged' in sub.colnames and not np.array_equal(np.asarray(sub['tagged'][sl])[:m], ((pid >> np.uint64(48)) & np.uint64(1))[:m]):
                    errs.append(f'{AB} row {i}: tagged mismatch')
                if 'density' in sub.colnames:
                    ed = (((pid & np.uint64(0x07FE000000000000)) >> np.uint64(49)).astype(np.float64) ** 2).astype(np.float32)
                    if not np.array_equal(np.asarray(sub['density'][sl])[:m], ed[:m]):
                        errs.append(f'{AB} row {i}: density mismatch')
                if 'lagr_idx' in sub.colnames:
                    eli = np.stack([(pid & np.uint64(0x7FFF)), (pid >> np.uint64(16)) & np.uint64(0x7FFF), (pid >> np.uint64(32)) & np.uint64(0x7FFF)], axis=-1).astype(np.int16)
                    if not np.array_equal(np.asarray(sub['lagr_idx'][sl])[:m], eli[:m]):
                        errs.append(f'{AB} row {i}: lagr_idx mismatch')
                if 'lagr_pos' in sub.colnames:
                    eli = np.stack([(pid & np.uint64(0x7FFF)), (pid >> np.uint64(16)) & np.uint64(0x7FFF), (pid >> np.uint64(32)) & np.uint64(0x7FFF)], axis=-1).astype(np.float64)
                    elp = (eli * np.float32(box / ppd) - np.float32(box / 2)).astype(np.float32)
                    if not np.allclose(np.asarray(sub['lagr_pos'][sl])[:m], elp[:m], rtol=1e-5, atol=1e-4):
                        errs.append(f'{AB} row {i}: lagr_pos mismatch')
                if 'packedpid' in sub.colnames and not np.array_equal(np.asarray(sub['packedpid'][sl])[:m], pid[:m]):
                    errs.append(f'{AB} row {i}: packedpid mismatch')
            running += len(rv)
    if len(sub.colnames) and len(sub) != running:
        errs.append(f'len(subsamples) {len(sub)} != sum {running}')
    if not len(sub.colnames):
        errs.append('no subsample columns loaded')
    return errs
