#!/venv/bin/python
"""
Demo for property C01 (each halo row indexes exactly its own subsample particles),
loader option `passthrough=True`.

Run as:   cd /repo && /venv/bin/python /verif/demos/passthrough/demo.py

Builds a small synthetic, uncompressed CompaSO catalog (3 superslabs, one of
them with 0 halos, L0 gaps between halo particle ranges, zero-particle halos,
cleaned-away halos, merged-particle ranges) plus its cleaning files, loads it
with the REAL CompaSOHaloCatalog in passthrough mode and compares every
slice subsamples[npstart:npstart+npout] with an independent numpy oracle
derived directly from the raw records.

Exit status 0: all option combinations satisfy the property.
Exit status 1: at least one combination fails (exception or wrong slice).
"""

import os
import shutil
import sys
import tempfile
import types
import warnings
from pathlib import Path

sys.path.insert(0, os.getcwd())  # pick up the worktree in the cwd
_bl = types.ModuleType('blosc')
_bl.set_nthreads = lambda n: None
sys.modules['blosc'] = _bl

import asdf
import numpy as np

import abacusnbody
import abacusnbody.data.asdf as _aa

asdf.get_config().add_extension(_aa.AbacusExtension())
from abacusnbody.data.compaso_halo_catalog import CompaSOHaloCatalog

print('abacusnbody from', abacusnbody.__file__)
warnings.simplefilter('ignore')

HEADER = dict(
    BoxSize=100.0,
    VelZSpace_to_kms=1000.0,
    ppd=64.0,
    SimName='synth',
    Redshift=1.0,
    TimeSliceRedshiftsPrev=[1.1, 1.2],
)


def write_asdf(fn, data):
    fn.parent.mkdir(parents=True, exist_ok=True)
    asdf.AsdfFile({'data': data, 'header': dict(HEADER)}).write_to(fn)


def make_slab(rng, nh):
    cols = {
        'id': rng.integers(0, 2**40, size=nh).astype(np.uint64),
        'N': rng.integers(1, 100, size=nh).astype(np.uint32),
    }
    N_total = cols['N'].copy()
    N_total[rng.random(nh) < 0.3] = 0  # cleaned-away halos
    ccols = {'N_total': N_total, 'N_merge': np.zeros(nh, dtype=np.uint32)}
    parts = {}
    for AB in 'AB':
        npout = rng.integers(0, 6, size=nh).astype(np.uint32)
        npout[rng.random(nh) < 0.3] = 0  # zero-particle halos
        gap = rng.integers(0, 4, size=nh + 1)  # unindexed L0 particles
        npstart = np.zeros(nh, dtype=np.uint64)
        p = 0
        for i in range(nh):
            p += gap[i]
            npstart[i] = p
            p += npout[i]
        p += gap[nh]
        cols[f'npstart{AB}'], cols[f'npout{AB}'] = npstart, npout
        parts[f'rv{AB}'] = rng.integers(-(2**31), 2**31 - 1, size=(p, 3)).astype(np.int32)
        parts[f'pid{AB}'] = rng.integers(0, 2**62, size=p).astype(np.uint64)

        npout_m = rng.integers(0, 6, size=nh).astype(np.uint32)
        npout_m[rng.random(nh) < 0.5] = 0
        npstart_m = np.zeros(nh, dtype=np.int64)
        p = 0
        for i in rng.permutation(nh):
            p += rng.integers(0, 3)
            npstart_m[i] = p
            p += npout_m[i]
        ccols[f'npstart{AB}_merge'], ccols[f'npout{AB}_merge'] = npstart_m, npout_m
        parts[f'crv{AB}'] = rng.integers(-(2**31), 2**31 - 1, size=(p, 3)).astype(np.int32)
        parts[f'cpid{AB}'] = rng.integers(0, 2**62, size=p).astype(np.uint64)
    return dict(cols=cols, ccols=ccols, parts=parts, nh=nh)


def build(root, rng, nhs):
    zdir = root / 'Sim' / 'halos' / 'z1.000'
    cdir = root / 'cleaning' / 'Sim' / 'z1.000'
    slabs = []
    for si, nh in enumerate(nhs):
        s = make_slab(rng, nh)
        slabs.append(s)
        write_asdf(zdir / 'halo_info' / f'halo_info_{si:03d}.asdf', s['cols'])
        for AB in 'AB':
            write_asdf(
                zdir / f'halo_rv_{AB}' / f'halo_rv_{AB}_{si:03d}.asdf',
                {'rvint': s['parts'][f'rv{AB}']},
            )
            write_asdf(
                zdir / f'halo_pid_{AB}' / f'halo_pid_{AB}_{si:03d}.asdf',
                {'packedpid': s['parts'][f'pid{AB}']},
            )
        write_asdf(cdir / 'cleaned_halo_info' / f'cleaned_halo_info_{si:03d}.asdf', s['ccols'])
        write_asdf(
            cdir / 'cleaned_rvpid' / f'cleaned_rvpid_{si:03d}.asdf',
            {
                'rvint_A': s['parts']['crvA'],
                'rvint_B': s['parts']['crvB'],
                'packedpid_A': s['parts']['cpidA'],
                'packedpid_B': s['parts']['cpidB'],
            },
        )
    return zdir, slabs


def oracle(slabs, cleaned, AB):
    """The raw records each halo row must index, straight from the property text"""
    per = []
    for s in slabs:
        c, cc, p = s['cols'], s['ccols'], s['parts']
        for i in range(s['nh']):
            st, n = int(c[f'npstart{AB}'][i]), int(c[f'npout{AB}'][i])
            if cleaned and cc['N_total'][i] == 0:
                n = 0  # no original particles for a halo that was cleaned away
            rv, pid = p[f'rv{AB}'][st : st + n], p[f'pid{AB}'][st : st + n]
            if cleaned:
                ms, mn = int(cc[f'npstart{AB}_merge'][i]), int(cc[f'npout{AB}_merge'][i])
                rv = np.concatenate([rv, p[f'crv{AB}'][ms : ms + mn]])
                pid = np.concatenate([pid, p[f'cpid{AB}'][ms : ms + mn]])
            per.append((rv, pid))
    return per


def check(cat, slabs, cleaned, load_AB):
    errs = []
    sub = cat.subsamples
    if not sub.colnames:
        return ['no subsample columns loaded']
    running = 0
    for AB in load_AB:
        exp = oracle(slabs, cleaned, AB)
        if len(cat.halos) != len(exp):
            return [f'{len(cat.halos)} halo rows, expected {len(exp)}']
        st = np.asarray(cat.halos[f'npstart{AB}']).astype(np.int64)
        n = np.asarray(cat.halos[f'npout{AB}']).astype(np.int64)
        for i, (rv, pid) in enumerate(exp):
            if st[i] != running or n[i] != len(rv):
                errs.append(f'{AB} row {i}: (npstart,npout)=({st[i]},{n[i]}) expected ({running},{len(rv)})')
                running += len(rv)
                continue
            sl = slice(running, running + len(rv))
            if 'rvint' in sub.colnames and not np.array_equal(np.asarray(sub['rvint'][sl]), rv):
                errs.append(f'{AB} row {i}: rvint slice is not the halo\'s own records')
            if 'packedpid' in sub.colnames and not np.array_equal(np.asarray(sub['packedpid'][sl]), pid):
                errs.append(f'{AB} row {i}: packedpid slice is not the halo\'s own records')
            running += len(rv)
    if len(sub) != running:
        errs.append(f'len(subsamples)={len(sub)} but slice lengths sum to {running}')
    return errs


IDX = ['npstartA', 'npoutA', 'npstartB', 'npoutB']
CIDX = ['N_total', 'npstartA_merge', 'npoutA_merge', 'npstartB_merge', 'npoutB_merge']

root = Path(tempfile.mkdtemp(prefix='c01_demo_'))
nfail = ncase = 0
try:
    zdir, slabs = build(root, np.random.default_rng(2024), [4, 0, 5])
    cases = []
    for cleaned in (False, True):
        for load_AB in (['A'], ['B'], ['A', 'B']):
            ab = {k: True for k in load_AB}
            for fields in ('all', ['id', 'N'] + IDX + CIDX, ['id']):
                for sub in (dict(ab, rvint=True, packedpid=True), dict(ab, rvint=True), dict(ab, packedpid=True)):
                    cases.append((cleaned, load_AB, fields, sub))
        cases.append((cleaned, ['A', 'B'], 'all', True))
    for cleaned, load_AB, fields, sub in cases:
        ncase += 1
        label = f'cleaned={cleaned} passthrough=True subsamples={sub} fields={fields if fields == "all" else "[" + ",".join(fields) + "]"}'
        try:
            cat = CompaSOHaloCatalog(
                zdir,
                cleaned=cleaned,
                subsamples=dict(sub) if isinstance(sub, dict) else sub,
                fields=fields,
                passthrough=True,
            )
            errs = check(cat, slabs, cleaned, load_AB)
        except Exception as e:
            errs = [f'raised {type(e).__name__}: {e}']
        if errs:
            nfail += 1
            print('FAIL', label, '->', errs[0])
finally:
    shutil.rmtree(root)

print(f'{ncase - nfail}/{ncase} passthrough option combinations satisfy C01')
sys.exit(1 if nfail else 0)
