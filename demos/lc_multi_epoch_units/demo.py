"""C05 demo: halo light cone given as a list of lc_halo_info.asdf files from two redshift
directories (the halo-only load that the F37 repair explicitly keeps working).

Every epoch of a simulation has its own VelZSpace_to_kms (= 100 * BoxSize * E(z) / (1+z)), so
the two file headers differ in it.  The loaders take the factor from the header of the FIRST
file only, so with convert_units=True the velocity-like columns of the halos of the second
file are  stored * VelZSpace_to_kms(first file)  instead of  stored * VelZSpace_to_kms(own file).

Exit status 0: every velocity-like column of every halo equals stored * (its own file's)
VelZSpace_to_kms, and equals what a load of that file alone returns.  Non-zero otherwise.
"""
import os
import sys
import tempfile
import types
from pathlib import Path

os.chdir('/repo')
sys.path.insert(0, '/repo')
_b = types.ModuleType('blosc')
_b.set_nthreads = lambda n: None
sys.modules.setdefault('blosc', _b)

import numpy as np
import asdf
import abacusnbody

assert abacusnbody.__file__.startswith('/repo'), abacusnbody.__file__
from abacusnbody.data import asdf as _aasdf

asdf.get_config().add_extension(_aasdf.AbacusExtension())
from abacusnbody.data.compaso_halo_catalog import CompaSOHaloCatalog

BOX = 2000.0
# the values of AbacusSummit_base at z=2.25 (header of tests/halo_light_cones/...) and z=0.2
EPOCHS = [('z2.250', 2.25169292433221, 208774.9025637363), ('z0.200', 0.2, 184531.0)]
VEL_COLS = ['v_L2com', 'sigmav3d_L2com', 'meanSpeed_L2com', 'sigmav3d_r50_L2com', 'meanSpeed_r50_L2com',
            'vcirc_max_L2com', 'sigmavMin_L2com', 'sigmavMid_L2com', 'sigmavMaj_L2com', 'sigmavrad_L2com', 'sigmavtan_L2com']
LEN_COLS = ['x_L2com', 'r100_L2com', 'r50_L2com', 'SO_L2max_radius']


def make_file(d, n, z, vz, rng):
    f4 = np.float32
    c = {
        'N': rng.integers(50, 500, n).astype('u4'), 'N_interp': rng.integers(50, 500, n).astype('u4'),
        'npstartA': np.zeros(n, 'u8'), 'npoutA': np.zeros(n, 'u4'),
        'index_halo': np.arange(n, dtype='i8'), 'origin': np.zeros(n, 'i1'),
        'pos_avg': rng.random((n, 3)).astype(f4), 'pos_interp': rng.random((n, 3)).astype(f4),
        'vel_avg': rng.random((n, 3)).astype(f4), 'vel_interp': rng.random((n, 3)).astype(f4),
        'redshift_interp': np.full(n, z, f4),
        'x_L2com': (rng.random((n, 3)) - 0.5).astype(f4), 'v_L2com': ((rng.random((n, 3)) - 0.5) * 1e-2).astype(f4),
        'r100_L2com': (rng.random(n) * 1e-3).astype(f4), 'SO_L2max_radius': (rng.random(n) * 1e-3).astype(f4),
        'r50_L2com_i16': rng.integers(1, 32001, n).astype('i2'),
    }
    for k in ['sigmav3d', 'meanSpeed', 'sigmav3d_r50', 'meanSpeed_r50', 'vcirc_max']:
        c[k + '_L2com'] = (rng.random(n) * 1e-2 + 1e-4).astype(f4)
    rmin = rng.integers(1, 15000, n)
    rmaj = rng.integers(15000, 27000, n)
    c['sigmavMin_to_sigmav3d_L2com_i16'] = rmin.astype('i2')
    c['sigmavMax_to_sigmav3d_L2com_i16'] = rmaj.astype('i2')
    c['sigmavrad_to_sigmav3d_L2com_i16'] = rng.integers(1, 32001, n).astype('i2')
    c['sigmavtan_to_sigmav3d_L2com_i16'] = rng.integers(1, 32001, n).astype('i2')
    hdr = dict(BoxSize=BOX, VelZSpace_to_kms=vz, Redshift=z, SimName='AbacusSummit_base_c000_ph001')
    d.mkdir(parents=True)
    asdf.AsdfFile({'data': c, 'header': hdr}).write_to(d / 'lc_halo_info.asdf', all_array_compression=None)
    asdf.AsdfFile({'data': {'pos': np.zeros((1, 3), f4), 'vel': np.zeros((1, 3), f4), 'pid': np.zeros(1, 'u8')},
                   'header': hdr}).write_to(d / 'lc_pid_rv.asdf', all_array_compression=None)
    return c


def oracle(c, box, vz):
    """The property text, in float64."""
    f8 = lambda a: np.asarray(a, dtype=np.float64)
    o = {k: f8(c[k]) * vz for k in ['v_L2com', 'sigmav3d_L2com', 'meanSpeed_L2com', 'sigmav3d_r50_L2com',
                                    'meanSpeed_r50_L2com', 'vcirc_max_L2com']}
    s3d = o['sigmav3d_L2com']
    rmin, rmaj = f8(c['sigmavMin_to_sigmav3d_L2com_i16']), f8(c['sigmavMax_to_sigmav3d_L2com_i16'])
    o['sigmavMin_L2com'] = rmin / 32000 * s3d
    o['sigmavMaj_L2com'] = rmaj / 32000 * s3d
    o['sigmavMid_L2com'] = np.sqrt(32000.0**2 - rmin**2 - rmaj**2) / 32000 * s3d
    o['sigmavrad_L2com'] = f8(c['sigmavrad_to_sigmav3d_L2com_i16']) / 32000 * s3d
    o['sigmavtan_L2com'] = f8(c['sigmavtan_to_sigmav3d_L2com_i16']) / 32000 * s3d
    o['x_L2com'] = f8(c['x_L2com']) * box
    o['r100_L2com'] = f8(c['r100_L2com']) * box
    o['SO_L2max_radius'] = f8(c['SO_L2max_radius']) * box
    o['r50_L2com'] = f8(c['r50_L2com_i16']) / 32000 * o['r100_L2com']
    return o


def main():
    rng = np.random.default_rng(505)
    bad = 0
    with tempfile.TemporaryDirectory(dir=None) as td:
        root = Path(td) / 'halo_light_cones' / 'AbacusSummit_base_c000_ph001'
        ns = [7, 5]
        raws = [make_file(root / zn, n, z, vz, rng) for (zn, z, vz), n in zip(EPOCHS, ns)]
        files = [root / zn / 'lc_halo_info.asdf' for zn, _, _ in EPOCHS]
        fields = VEL_COLS + LEN_COLS

        for conv in (True, False):
            joint = CompaSOHaloCatalog(files, convert_units=conv, fields=fields)
            assert joint.halo_lc and len(joint.halos) == sum(ns)
            alone = [CompaSOHaloCatalog([f], convert_units=conv, fields=fields) for f in files]
            start = 0
            for i, (n, raw) in enumerate(zip(ns, raws)):
                exp = oracle(raw, BOX if conv else 1.0, EPOCHS[i][2] if conv else 1.0)
                for name in fields:
                    got = np.asarray(joint.halos[name][start:start + n], dtype=np.float64)
                    e = exp[name]
                    rel = np.max(np.abs(got - e) / np.abs(e))
                    same = np.array_equal(np.asarray(joint.halos[name][start:start + n]), np.asarray(alone[i].halos[name]))
                    if rel > 1e-6 or not same:
                        bad += 1
                        print(f'convert_units={conv} file {i} ({EPOCHS[i][0]}) {name}: max rel. deviation from '
                              f'stored*factor(own header) = {rel:.3e}; ratio got/expected = {np.median(got / e):.6f}; '
                              f'equal to loading this file alone: {same}')
                start += n
    if bad:
        print(f'\nFAIL: {bad} column blocks not in the units of their own file header '
              f'(VelZSpace_to_kms ratio first/second file = {EPOCHS[0][2] / EPOCHS[1][2]:.6f})')
        return 1
    print('OK: all velocity-like and length-like columns of both files are in consistent physical units')
    return 0


if __name__ == '__main__':
    sys.exit(main())
