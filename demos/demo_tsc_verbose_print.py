"""F39: tsc_parallel(verbose=True) raises TypeError for an accepted configuration (nthread > 1, npartition < 2*nthread):
the advisory message is printed with print(..., stacklevel=2) -- a keyword of warnings.warn, not of print."""
import sys
sys.path.insert(0, '/repo')
import numpy as np
from abacusnbody.analysis.tsc import tsc_parallel
pos = np.random.default_rng(1).random((100, 3), dtype=np.float32) * 100.
ref = tsc_parallel(pos, 16, 100., nthread=1)
try:
    out = tsc_parallel(pos, 16, 100., nthread=4, npartition=2, verbose=True)
except TypeError as e:
    print('FAIL: accepted configuration (ngrid=16, nthread=4, npartition=2, verbose=True) raised', repr(e))
    sys.exit(1)
assert np.allclose(out, ref)
print('OK: verbose=True returns the same grid as the serial deposit')
