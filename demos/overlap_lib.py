import sys, warnings
import numpy as np
warnings.filterwarnings('ignore')
sys.path.insert(0, '/repo')
import abacusnbody
assert abacusnbody.__file__.startswith('/repo'), abacusnbody.__file__
from abacusnbody.analysis.tsc import partition_parallel, _tsc_scatter, tsc_parallel

def written_rows(p, n, box, offset):
    """rows of the partition axis (0) that the real kernel stores to for one particle"""
    g = np.zeros((n, 4, 1), dtype=np.float64)
    _tsc_scatter(p.reshape(1, 3), g, box, weights=np.array([np.nan]), offset=offset)
    r = np.nonzero(np.isnan(g).any(axis=(1, 2)))[0]
    assert len(r) == 3
    return set(r.tolist())

def boundary_particles(P, box, dtype, ks, nulps):
    xs = []
    for k in ks:
        b = dtype(k * box / P)
        lo = hi = b
        xs.append(b)
        for _ in range(nulps):
            lo = np.nextafter(lo, dtype(-np.inf)); hi = np.nextafter(hi, dtype(np.inf))
            xs += [lo, hi]
    xs = np.array([x for x in xs if 0 <= x < box], dtype=dtype)
    pos = np.zeros((len(xs), 3), dtype=dtype); pos[:, 0] = xs; pos[:, 1] = dtype(0.3 * box)
    return pos

def find_overlaps(n, P, box, dtype, offset, ks=None, nulps=8):
    if ks is None: ks = range(1, P)
    pos = boundary_particles(P, box, dtype, ks, nulps)
    ps, starts, _ = partition_parallel(pos, P, box, nthread=1)
    stripe = np.searchsorted(starts, np.arange(len(ps)), side='right') - 1
    rows = {}
    for i in range(len(ps)):
        rows.setdefault(int(stripe[i]), []).append((float(ps[i, 0]), written_rows(ps[i], n, box, offset)))
    out = []
    for s in rows:
        for s2 in ((s + 2) % P,):
            if s2 == s or s2 not in rows: continue
            for x, r in rows[s]:
                for x2, r2 in rows[s2]:
                    if r & r2:
                        out.append((s, x, sorted(r), s2, x2, sorted(r2)))
    return out
