"""
C07 demo: two stripes of the SAME pass of tsc_parallel store to the same grid row.

For every configuration below we ask the real tsc_parallel which npartition it
uses (default choice, observed at its call of partition_parallel) or whether it accepts the
user-supplied one.  Then, with the real partition_parallel and the real
_tsc_scatter kernel, we determine for a handful of particles lying within a few
ulps of the stripe edges (a) their stripe and (b) the grid rows the kernel
stores to (weights=NaN marks every stored cell, including stores of +0.0).
Two particles whose stripes are two apart (same pass => processed concurrently)
and whose stored rows intersect contradict
  "No accepted configuration lets two stripes that are processed concurrently
   update the same grid cell".
Exit status 1 if such a pair exists in an accepted configuration, else 0.
Run with cwd=/repo.
"""
import sys, warnings
import numpy as np
warnings.filterwarnings('ignore')
sys.path.insert(0, '/repo')
import abacusnbody
assert abacusnbody.__file__.startswith('/repo'), abacusnbody.__file__
from abacusnbody.analysis.tsc import partition_parallel, _tsc_scatter, tsc_parallel


def stored_rows(p, n, box, offset):
    g = np.zeros((n, 4, 1), dtype=np.float64)
    _tsc_scatter(p.reshape(1, 3), g, box, weights=np.array([np.nan]), offset=offset)
    r = np.nonzero(np.isnan(g).any(axis=(1, 2)))[0]
    assert len(r) == 3
    return set(r.tolist())


def edge_particles(P, box, dtype, ks, nulps=6):
    xs = []
    for k in ks:
        b = dtype(k * box / P)
        lo = hi = b
        xs.append(b)
        for _ in range(nulps):
            lo = np.nextafter(lo, dtype(-np.inf))
            hi = np.nextafter(hi, dtype(np.inf))
            xs += [lo, hi]
    xs = np.array([x for x in xs if 0 <= x < box], dtype=dtype)
    pos = np.zeros((len(xs), 3), dtype=dtype)
    pos[:, 0] = xs
    pos[:, 1] = dtype(0.3 * box)
    return pos


def accepted_npartition(n, box, dtype, nthread, npartition, offset):
    """npartition that the real tsc_parallel runs with, or None if it rejects.
    (Observed by wrapping the module-level partition_parallel it calls; verbose=True is
    not used because its hint line is a print(..., stacklevel=2) that raises TypeError.)"""
    import abacusnbody.analysis.tsc as T
    seen = []
    real = T.partition_parallel

    def spy(pos, npart, *a, **k):
        seen.append(npart)
        return real(pos, npart, *a, **k)

    pos = np.array([[0.5 * box, 0.5 * box, 0.0]], dtype=dtype)
    T.partition_parallel = spy
    try:
        tsc_parallel(pos, np.zeros((n, 4, 1), dtype=np.float32), box, nthread=nthread,
                     npartition=npartition, offset=offset)
    except ValueError as e:
        return None, str(e)
    finally:
        T.partition_parallel = real
    return (seen[0] if seen else 1), ''


def check(label, n, box, dtype, nthread, npartition, offcells, ks=None):
    offset = offcells * box / n
    P, why = accepted_npartition(n, box, dtype, nthread, npartition, offset)
    if P is None:
        print(f'{label}: rejected ({why}) -> ok')
        return 0
    if P < 4:
        print(f'{label}: runs with npartition={P}: at most one stripe per pass -> ok')
        return 0
    pos = edge_particles(P, box, dtype, ks(n, P) if ks else range(1, P))
    ps, starts, _ = partition_parallel(pos, P, box, nthread=1)
    stripe = np.searchsorted(starts, np.arange(len(ps)), side='right') - 1
    per = {}
    for i in range(len(ps)):
        per.setdefault(int(stripe[i]), []).append((ps[i, 0], stored_rows(ps[i], n, box, offset)))
    bad = []
    for s in per:
        s2 = (s + 2) % P
        if s2 == s or s2 not in per:
            continue
        for x, r in per[s]:
            for x2, r2 in per[s2]:
                if r & r2:
                    bad.append((s, x, sorted(r), s2, x2, sorted(r2)))
    if bad:
        s, x, r, s2, x2, r2 = bad[0]
        print(f'{label}: ACCEPTED with npartition={P} (stripe width {n / P:g} cells), but\n'
              f'    x={x!r} is in stripe {s} and stores to rows {r}\n'
              f'    x={x2!r} is in stripe {s2} and stores to rows {r2}\n'
              f'    -> stripes {s} and {s2} run in the same pass and share row {sorted(set(r) & set(r2))}'
              f' ({len(bad)} such pairs)')
        return 1
    print(f'{label}: npartition={P} (stripe width {n / P:g} cells): no shared row -> ok')
    return 0


def near_half(n, P):
    w = n / P
    return [k for k in range(1, P) if abs((k * w) % 1 - 0.5) < 2.0 / P or abs(((k + 1) * w) % 1 - 0.5) < 2.0 / P]


fails = 0
# interlacing-style call (power_spectrum.get_field passes offset = half a cell), default npartition
fails += check('A  n=24 f4 box=2000 nthread=4 default P, offset=h/2', 24, 2000.0, np.float32, 4, None, 0.5)
fails += check('B  n=96 f4 box=1000 nthread=16 default P, offset=h/2', 96, 1000.0, np.float32, 16, None, 0.5)
fails += check('C  n=96 f8 box=2000 nthread=16 default P, offset=h/2', 96, 2000.0, np.float64, 16, None, 0.5)
# user-supplied maximum
fails += check('D  n=12 f4 box=1 nthread=2 P=4, offset=h/2', 12, 1.0, np.float32, 2, 4, 0.5)
# no offset at all: long axis, stripes a hair wider than three cells
fails += check('E  n=9001 f4 box=2000 nthread=2 P=3000, offset=0', 9001, 2000.0, np.float32, 2, 3000, 0.0, ks=near_half)
print('violations:', fails)
sys.exit(1 if fails else 0)
