"""C15 demo: unpack_pack9 with the default float_dtype=np.float32 does not recover
encoded positions to within one 12-bit quantum when the header's cells-per-dimension
is a few thousand (e.g. cpd=3981 in a 2000 box, cpd=4007 in a 296 box).

Run with cwd = the worktree:   PYTHONPATH=. /venv/bin/python /tmp/hunt2_C15/demo.py
Exit status 0 = property holds, 1 = violated.
"""
import os
import sys

sys.path.insert(0, os.getcwd())  # run with cwd = the worktree
from fractions import Fraction as F

import numpy as np

import abacusnbody
from abacusnbody.data.pack9 import unpack_pack9

print('using', abacusnbody.__file__)


def pack_fields(f):
    """(N,6) 12-bit field values -> (N,9) bytes; exact inverse of pack9._expand_to_short"""
    f = np.asarray(f, dtype=np.int64)
    assert f.min() >= 0 and f.max() < 4096
    c = np.empty((len(f), 9), dtype=np.uint8)
    for k in range(3):
        a, b = f[:, 2 * k], f[:, 2 * k + 1]
        c[:, 3 * k] = a >> 4
        c[:, 3 * k + 1] = (a & 0xF) | ((b >> 8) << 4)
        c[:, 3 * k + 2] = b & 0xFF
    return c


def header(cpd, cell, vscale=2000):
    # header record: first field 0xFFF, then cpd, vscale, cell ijk, each stored as value-2000+2048
    return [0xFFF, cpd + 48, vscale + 48, cell[0] + 48, cell[1] + 48, cell[2] + 48]


def encode(x, box, cpd):
    """Encode a position (box-centred coordinate) to (cell index, 12-bit offset code)."""
    csize = box / cpd
    cell = int(np.floor((x + box / 2) / csize))
    cell = min(max(cell, 0), cpd - 1)
    centre = (cell + 0.5) * csize - box / 2
    s = int(round((x - centre) / (0.0005 * csize)))  # |s| <= 1000
    return cell, s


fail = 0

# ---- 1. one concrete particle, exact rational reference ------------------------------
box, cpd, vz = 2000.0, 3981, 1.0
x_true = 996.6508415  # a position near the +box/2 edge
cell, s = encode(x_true, box, cpd)
stream = pack_fields([header(cpd, (cell, cell, cell)), [s + 2048] * 3 + [2048] * 3])
q = F(box) / cpd * F(5, 10000)
exact = float(s * q + (F(cell) + F(1, 2)) * F(box) / cpd - F(box) / 2)
p32, _ = unpack_pack9(stream, box, vz)  # default float_dtype=np.float32
p64, _ = unpack_pack9(stream, box, vz, float_dtype=np.float64)
assert p32.shape == (1, 3) and p64.shape == (1, 3)
q = float(q)
e32 = abs(float(p32[0, 0]) - x_true) / q
e64 = abs(float(p64[0, 0]) - x_true) / q
ideal = abs(float(np.float32(exact)) - x_true) / q
print(f'box={box} cpd={cpd} cell={cell} code={s} quantum={q:.6e}')
print(f'  encoded position      {x_true!r}')
print(f'  exact decode          {exact!r}')
print(f'  float64 decode        {float(p64[0, 0])!r}   off by {e64:.3f} quanta')
print(f'  float32(exact decode) {float(np.float32(exact))!r}   off by {ideal:.3f} quanta  (what rounding alone costs)')
print(f'  float32 decode        {float(p32[0, 0])!r}   off by {e32:.3f} quanta')
if not e32 <= 1.0:
    print('  VIOLATION: encoded position not recovered to within one quantum (float32, the default)')
    fail = 1
d = abs(float(p32[0, 0]) - float(p64[0, 0]))
ulp = float(np.spacing(np.float32(exact)))
print(f'  float32 vs float64 result differ by {d / ulp:.2f} float32 ulps')
if d > 1.0 * ulp:
    print('  VIOLATION: float32 and float64 results differ by more than rounding')
    fail = 1

# ---- 2. sweep: every cell of several (box, cpd), a few offsets --------------------------
svals = np.array([-1000, -333, 0, 1, 777, 1000])
for box, cpd in ((2000.0, 3981), (296.0, 4007), (1185.0, 4007), (2000.0, 1701), (500.0, 875), (2000.0, 4047)):
    cells = np.arange(cpd)
    f = np.zeros((cpd, 1 + len(svals), 6), dtype=np.int64)
    f[:, 0, :] = header(cpd, (0, 0, 0))
    f[:, 0, 3:] = cells[:, None] + 48
    f[:, 1:, :3] = svals[None, :, None] + 2048
    f[:, 1:, 3:] = 2048
    data = pack_fields(f.reshape(-1, 6))
    csize = box / cpd
    qq = 0.0005 * csize
    ex = (svals[None, :] * qq + (cells[:, None] + 0.5) * csize - box / 2).reshape(-1)  # float64 reference
    pos, nv = unpack_pack9(data, box, 1.0, velout=False)
    assert nv == 0 and pos.dtype == np.float32 and len(pos) == cpd * len(svals)
    err = np.abs(pos.astype(np.float64) - ex[:, None]).max(axis=1) / qq
    # a position is encoded by rounding to the nearest code, i.e. it lies within half a quantum of
    # the exact decode; it is "recovered to within one quantum" for every such position only if the
    # decoder itself stays within half a quantum of the exact decode
    n_half = int((err > 0.5).sum())
    n_one = int((err > 1.0).sum())
    print(f'box={box} cpd={cpd}: max |float32 decode - exact decode| = {err.max():.3f} quanta; '
          f'{n_one} of {len(err)} records off by > 1 quantum, {n_half} by > 1/2 quantum')
    if n_half:
        fail = 1

print('RESULT:', 'VIOLATED' if fail else 'ok')
sys.exit(fail)
