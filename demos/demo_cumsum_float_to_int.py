#!/usr/bin/env python
"""C19 demo: util.cumsum adds every term *after* converting it to the output
dtype, so whenever the output dtype cannot hold the terms / running sum exactly
(float input -> integer output, int64/float64 input -> float32 output) the
written partial sums and the returned grand total are wrong, although the
correct partial sums are representable in the output dtype and
numpy.cumsum(arr, out=out) produces them.

Run with cwd = the worktree (or PYTHONPATH pointing to it).
Exit status 0 = all partial sums / totals right, 1 = violation shown.
"""
import os
import sys
from fractions import Fraction

sys.path.insert(0, os.getcwd())
import numpy as np

import abacusnbody
from abacusnbody.util import cumsum

print('abacusnbody from', abacusnbody.__file__)

INT = [np.int8, np.uint8, np.int16, np.uint16, np.int32, np.uint32, np.int64, np.uint64]
FLT = [np.float32, np.float64]


def exact_oracle(arr, dout, initial, final, offset):
    """Independent oracle: exact rational partial sums S_0..S_N, the selected
    ones converted ONCE to the output dtype (truncation toward zero and
    two's-complement wrap for integers, round-to-nearest for floats)."""
    S = [Fraction(offset)]
    for x in arr:
        S.append(S[-1] + Fraction(x if not isinstance(x, np.generic) else x.item()))
    N = len(arr)
    sel = S[(0 if initial else 1) : (N + 1 if final else N)]
    dout = np.dtype(dout)
    if dout.kind in 'iu':
        bits = 8 * dout.itemsize
        vals = []
        for s in sel:
            v = int(s)  # truncation toward zero
            v %= 1 << bits
            if dout.kind == 'i' and v >= 1 << (bits - 1):
                v -= 1 << bits
            vals.append(v)
        exp = np.array(vals, dtype=object).astype(dout) if vals else np.empty(0, dout)
    else:
        # every S is exactly representable in float64 for the inputs used here
        exp = np.array([float(s) for s in sel], dtype=np.float64).astype(dout)
    return exp, S[-1]


def total_ok(tot, arr, dout, offset, S_N):
    """The returned value is the grand total: either exact, or the exact grand
    total converted once to the output dtype (wrap for integers, only if it is
    an integer; round-to-nearest for floats)."""
    if Fraction(tot) == S_N:
        return True
    conv, _ = exact_oracle(list(arr) + [0], dout, False, False, offset)  # S_N as dout
    if np.dtype(dout).kind in 'iu':
        return S_N.denominator == 1 and Fraction(tot) == Fraction(conv[-1].item())
    return Fraction(tot) == Fraction(conv[-1].item())


failures = []


def check(label, arr, dout, initial=False, final=True, offset=0):
    N = len(arr)
    L = N - 1 + int(initial) + int(final)
    G = 3
    buf = np.full(L + 2 * G, 77, dtype=dout)
    out = buf[G : G + L]
    tot = cumsum(arr, out, initial=initial, final=final, offset=offset)
    exp, S_N = exact_oracle(arr, dout, initial, final, offset)
    ok = np.array_equal(out, exp) and (buf[:G] == 77).all() and (buf[G + L :] == 77).all()
    tok = total_ok(tot, arr, dout, offset, S_N)
    if not (ok and tok):
        failures.append(label)
        print(f'FAIL {label}: N={N} initial={initial} final={final} offset={offset}')
        print(f'     wrote    {out!r}  returned {tot!r}')
        print(f'     expected {exp!r}  grand total {S_N}')
    return ok and tok


# ---------------------------------------------------------------- named cases
print('--- named cases')
check('A float64->int64 [0.5]*4', np.array([0.5] * 4), np.int64)
check('B float32->uint64 [0.75]*8 initial, offset 3',
      np.array([0.75] * 8, dtype=np.float32), np.uint64, initial=True, offset=3)
check('C int64->float32 [2**24,1,1,1,1]',
      np.array([2**24, 1, 1, 1, 1], dtype=np.int64), np.float32)
check('D float64->float32 [2**24,1,1,1,1]',
      np.array([2**24, 1, 1, 1, 1], dtype=np.float64), np.float32)
check('E list of floats -> int32', [0.5, 0.5, 0.5], np.int32)
check('F uint32->float32 counts', np.array([2**24, 3, 3, 3], dtype=np.uint32), np.float32)

# the same inputs through numpy.cumsum(arr, out=out) for comparison
for arr, dout in [(np.array([0.5] * 4), np.int64),
                  (np.array([2**24, 1, 1, 1, 1], dtype=np.int64), np.float32)]:
    o = np.empty(len(arr), dtype=dout)
    np.cumsum(arr, out=o)
    o2 = np.empty(len(arr), dtype=dout)
    t = cumsum(arr, o2)
    print(f'   numpy.cumsum({arr.dtype}, out={np.dtype(dout)}) = {o}   util.cumsum = {o2} total {t!r}')

# regression guards for the earlier repairs (must pass before and after)
print('--- guards (F1, F16)')
check('G int64->uint64 above 2**53 (F16)',
      np.array([2**62 + 1, 2**62 + 1, 7], dtype=np.int64), np.uint64, initial=True)
check('H empty input (F1)', np.empty(0, dtype=np.uint32), np.uint64, initial=True, final=True, offset=5)
check('I uint32->uint64', np.array([2**32 - 1] * 5, dtype=np.uint32), np.uint64, initial=True)

# ---------------------------------------------------------------- full sweep
print('--- sweep: all dtype pairings x N=0..6 x flags x offsets')
rng = np.random.default_rng(19)
nbad = 0
ncase = 0
bad_pairs = {}
for din in INT + FLT:
    for dout in INT + FLT:
        for N in range(0, 7):
            for initial in (False, True):
                for final in (False, True):
                    if N - 1 + initial + final < 0:
                        continue
                    for offset in (0, 2):
                        if np.dtype(din).kind == 'f':
                            arr = (rng.integers(0, 12, size=N) * 0.25).astype(din)
                        else:
                            lo = 0 if np.dtype(din).kind == 'u' else -9
                            arr = rng.integers(lo, 9, size=N).astype(din)
                        L = N - 1 + initial + final
                        out = np.full(L, 77, dtype=dout)
                        tot = cumsum(arr, out, initial=initial, final=final, offset=offset)
                        exp, S_N = exact_oracle(arr, dout, initial, final, offset)
                        ncase += 1
                        good = np.array_equal(out, exp)
                        good_tot = total_ok(tot, arr, dout, offset, S_N)
                        if not (good and good_tot):
                            nbad += 1
                            key = (np.dtype(din).name, np.dtype(dout).name)
                            if key not in bad_pairs:
                                bad_pairs[key] = (arr.tolist(), initial, final, offset, out.tolist(), exp.tolist(), tot, str(S_N))
print(f'    {ncase} cases, {nbad} wrong, in {len(bad_pairs)} dtype pairings')
for k, v in list(bad_pairs.items())[:6]:
    print('    e.g.', k, 'arr', v[0], 'initial', v[1], 'final', v[2], 'offset', v[3])
    print('         wrote', v[4], 'expected', v[5], 'returned', v[6], 'grand total', v[7])
if nbad:
    failures.append('sweep')

if failures:
    print('\nVIOLATION of C19 ("writes exactly the partial sums ... returns the grand total, '
          'matching numpy.cumsum, for ... every integer/float dtype pairing"):', failures)
    sys.exit(1)
print('\nOK: all partial sums and totals right')
sys.exit(0)
