#!/venv/bin/python
"""C20 finding 1: pipe_asdf on an ASDF column that is stored as a strided /
non-C-contiguous array (views sharing one block, Fortran order, reversed) writes
the (count, width) header and then dies with
    ValueError: ndarray is not C-contiguous
so the client receives a 12-byte header and NO payload (partial output after an
error), instead of count x width raw bytes.

Runs the real CLI entry point (abacusnbody.data.pipe_asdf.main) in a child process
writing to a real OS pipe.  Exit status 0 = property holds, 1 = violated.
Run with cwd=/repo.
"""
import os, struct, subprocess, sys, tempfile, types, warnings

WT = '/repo'
sys.path.insert(0, WT)
sys.modules.setdefault('blosc', types.ModuleType('blosc'))
warnings.simplefilter('ignore')
import numpy as np
import asdf

BOOT = r'''
import sys, types, warnings
warnings.simplefilter('ignore')
sys.path.insert(0, %r)
sys.modules.setdefault('blosc', types.ModuleType('blosc'))
import asdf, abacusnbody
assert abacusnbody.__file__.startswith(%r), abacusnbody.__file__
from abacusnbody.data.asdf import AbacusExtension
asdf.get_config().add_extension(AbacusExtension())
from abacusnbody.data import pipe_asdf
sys.argv = ['pipe_asdf'] + sys.argv[1:]
pipe_asdf.main()
''' % (WT, WT)


def cli(fns, fields):
    cmd = [sys.executable, '-c', BOOT]
    for f in fields:
        cmd += ['-f', f]
    cmd += fns
    r = subprocess.run(cmd, cwd=WT, stdout=subprocess.PIPE, stderr=subprocess.PIPE)
    return r.returncode, r.stdout, r.stderr.decode()


def oracle(cols_per_file, fields):
    out = b''
    for f in fields:
        arrs = [c[f] for c in cols_per_file]
        out += struct.pack('<q', sum(a.size for a in arrs))
        out += struct.pack('<i', arrs[0].dtype.itemsize)
        out += b''.join(a.tobytes() for a in arrs)  # element bytes, C order
    return out


def main():
    d = tempfile.mkdtemp(prefix='c20demo_')
    bad = 0
    pos = np.arange(12, dtype='f4').reshape(4, 3)
    pos2 = pos[:2] + 100
    cases = {
        # ordinary contiguous control: must pass before and after the repair
        'control': ([{'pos': pos.copy(), 'x': pos[:, 0].copy()}], ['x', 'pos']),
        # 'x' is a column view of 'pos': asdf stores ONE block + offset/strides
        'shared-block view': ([{'pos': pos, 'x': pos[:, 0]}], ['x']),
        'view, 2 files': ([{'pos': pos, 'x': pos[:, 0]}, {'pos': pos2, 'x': pos2[:, 0]}],
                          ['pos', 'x']),
        'fortran order': ([{'F': np.asfortranarray(pos.astype('f8'))}], ['F']),
        'reversed 1-D': ([{'r': np.arange(6, dtype='i4')[::-1]}], ['r']),
        'view + zlib': ([{'pos': pos, 'x': pos[:, 0]}], ['x']),
    }
    for name, (cols, fields) in cases.items():
        fns = []
        for i, c in enumerate(cols):
            fn = os.path.join(d, f'{name.replace(" ", "_").replace(",", "")}_{i}.asdf')
            asdf.AsdfFile({'data': dict(c), 'header': {}}).write_to(
                fn, all_array_compression='zlib' if 'zlib' in name else None)
            fns.append(fn)
        rc, out, err = cli(fns, fields)
        exp = oracle(cols, fields)
        ok = (rc == 0 and out == exp)
        # the error clause: an error must not come after bytes were written
        partial = (rc != 0 and len(out) > 0)
        print(f'{name:20s} rc={rc} bytes={len(out)} expected={len(exp)} '
              f'{"OK" if ok else "VIOLATION"}'
              f'{" (error AFTER %d bytes were written)" % len(out) if partial else ""}')
        if not ok:
            bad += 1
            last = [ln for ln in err.strip().splitlines() if ln.strip()][-1:]
            print('    stderr:', *last)
    print('violations:', bad)
    return 1 if bad else 0


if __name__ == '__main__':
    sys.exit(main())
