"""F15: AbacusHOD.staging, 1-D velocity-deviate randoms (files without x/y randoms): the fallback
    np.concatenate((v, v, v)).reshape(-1, 3)
puts three CONSECUTIVE halos' deviates on each row instead of (v_r, v_r, v_r).
Runs the real AbacusHOD constructor / staging() of /repo on synthetic h5 subsample files.
Run: cd /repo && /venv/bin/python /verif/demos/demo_hod_veldev.py   (exit 1 = defect present)
Harness derived from the sub-agent demonstration kept in seeded/C12d/demo.py."""

import os
import sys
import types
import tempfile
from pathlib import Path

NTHREAD = int(os.environ.get('DEMO_NTHREAD', '4'))
os.environ.setdefault('NUMBA_NUM_THREADS', '16')

# ---------------------------------------------------------------- stand-ins
# (sandbox has no scipy / Corrfunc / parallel_numpy_rng; none is used by staging)
def _standin(name, **attrs):
    m = types.ModuleType(name)
    m.__dict__.update(attrs)
    sys.modules[name] = m
    return m


import numpy as np  # noqa: E402
import numba  # noqa: E402
import h5py  # noqa: E402
import asdf  # noqa: E402
import astropy.io.ascii  # noqa: E402,F401
import astropy.table  # noqa: E402,F401

# stand-ins are installed only now: numba / astropy probe for a real scipy at import
_noop = lambda *a, **k: None  # noqa: E731
_standin('scipy')
_standin('scipy.fft', rfftn=_noop, irfftn=_noop, fftfreq=_noop)
_standin('scipy.special', legendre=_noop)
_standin('scipy.interpolate', interp1d=_noop)
_standin('Corrfunc')
_standin('Corrfunc.theory', DDrppi=_noop, DDsmu=_noop, wp=_noop)
_standin('parallel_numpy_rng', MTGenerator=_noop)
_standin('blosc')


sys.path.insert(0, os.getcwd())
import abacusnbody  # noqa: E402
from abacusnbody.hod import abacus_hod  # noqa: E402
from abacusnbody.hod.abacus_hod import AbacusHOD  # noqa: E402

print('abacusnbody from', abacusnbody.__file__)

numba.set_num_threads(min(NTHREAD, numba.config.NUMBA_NUM_THREADS))
print('numba threads:', numba.get_num_threads())

SIM = 'AbacusSummit_demo_c000_ph000'
Z = 0.5
MPART = 2.0e9

HALO_DT = np.dtype(
    [
        ('id', np.int64),
        ('x_L2com', np.float32, 3),
        ('v_L2com', np.float32, 3),
        ('randoms_exp', np.float32),
        ('randoms_gaus_vrms', np.float32),
        ('sigmav3d_L2com', np.float32),
        ('r98_L2com', np.float32),
        ('r25_L2com', np.float32),
        ('N', np.int64),
        ('deltac_rank', np.float32),
        ('fenv_rank', np.float32),
        ('shear_rank', np.float32),
        ('multi_halos', np.float32),
        ('randoms', np.float32),
    ]
)
PART_DT = np.dtype(
    [
        ('pos', np.float32, 3),
        ('vel', np.float32, 3),
        ('halo_vel', np.float32, 3),
        ('halo_mass', np.float32),
        ('halo_id', np.int64),
        ('Np', np.float32),
        ('downsample_halo', np.float32),
        ('randoms', np.float32),
        ('halo_deltac', np.float32),
        ('halo_fenv', np.float32),
        ('halo_shear', np.float32),
        ('ranks', np.float32),
        ('ranksv', np.float32),
        ('ranksp', np.float32),
        ('ranksr', np.float32),
        ('ranksc', np.float32),
    ]
)


def make_halo(hid):
    """every attribute is a deterministic function of the id, so that row
    agreement can be checked exactly after staging."""
    h = np.zeros((), dtype=HALO_DT)
    f = float(hid)
    h['id'] = hid
    h['x_L2com'] = (f, f + 0.25, f + 0.5)
    h['v_L2com'] = (-f, -f - 0.25, -f - 0.5)
    h['randoms_exp'] = f + 1000
    h['randoms_gaus_vrms'] = f + 4000
    h['sigmav3d_L2com'] = 10 * f + 1
    h['r98_L2com'] = 4 * f + 8
    h['r25_L2com'] = 2.0
    h['N'] = 100 + hid
    h['deltac_rank'] = f / 4096.0 - 0.25
    h['fenv_rank'] = -f / 4096.0 + 0.25
    h['shear_rank'] = f / 8192.0
    h['multi_halos'] = 1.0 + (hid % 3)
    h['randoms'] = (hid % 128) / 128.0
    return h


def build(root, slab_ids, slab_parts, want_ranks):
    """slab_ids: list (one per slab) of halo id arrays;
    slab_parts: list (one per slab) of arrays of host halo ids, one per particle."""
    root = Path(root)
    hinfo = root / 'sim' / SIM / 'halos' / ('z%4.3f' % Z) / 'halo_info'
    hinfo.mkdir(parents=True)
    sub = root / 'sub' / SIM / ('z%4.3f' % Z)
    sub.mkdir(parents=True)
    header = dict(
        H0=67.36, BoxSize=2000.0, ParticleMassHMsun=MPART, VelZSpace_to_kms=1200.0
    )
    for i, (ids, pids) in enumerate(zip(slab_ids, slab_parts)):
        asdf.AsdfFile({'header': header}).write_to(
            str(hinfo / ('halo_info_%03d.asdf' % i))
        )
        halos = np.zeros(len(ids), dtype=HALO_DT)
        for j, hid in enumerate(ids):
            halos[j] = make_halo(int(hid))
        with h5py.File(
            sub / ('halos_xcom_%d_seed600_abacushod_oldfenv_new.h5' % i), 'w'
        ) as f:
            f.create_dataset('halos', data=halos)
        parts = np.zeros(len(pids), dtype=PART_DT)
        parts['halo_id'] = pids
        parts['pos'] = np.asarray(pids, dtype=np.float32)[:, None] + 0.125
        parts['Np'] = 3.0
        parts['downsample_halo'] = 0.5
        parts['halo_mass'] = (100 + np.asarray(pids)) * MPART
        pname = 'particles_xcom_%d_seed600_abacushod_oldfenv' % i
        if want_ranks:
            pname += '_withranks'
        with h5py.File(sub / (pname + '_new.h5'), 'w') as f:
            f.create_dataset('particles', data=parts)
    return root


def check(case, slab_ids, slab_parts, want_AB, want_shear, want_ranks, want_expvel):
    errors = []
    with tempfile.TemporaryDirectory() as tmp:
        build(tmp, slab_ids, slab_parts, want_ranks)
        sim_params = dict(
            sim_name=SIM,
            sim_dir=str(Path(tmp) / 'sim'),
            subsample_dir=str(Path(tmp) / 'sub'),
            output_dir=str(Path(tmp) / 'out'),
            z_mock=Z,
        )
        HOD_params = dict(
            tracer_flags={'LRG': True, 'ELG': False, 'QSO': False},
            LRG_params={},
            want_ranks=want_ranks,
            want_AB=want_AB,
            want_shear=want_shear,
            want_expvel=want_expvel,
            want_rsd=True,
        )
        ball = AbacusHOD(sim_params, HOD_params)
    hd, pd = ball.halo_data, ball.particle_data

    all_ids = np.concatenate(slab_ids)
    all_pids = np.concatenate(slab_parts)
    hid = hd['hid']
    n = len(all_ids)

    # (1) rows in increasing id order, nothing lost
    if len(hid) != n or not np.array_equal(hid, np.sort(all_ids)):
        errors.append('hid is not the sorted set of input ids')

    # (2) every per-halo array describes the halo whose id is on that row
    for row in range(len(hid)):
        t = make_halo(int(hid[row]))
        exp = {
            'hpos': t['x_L2com'],
            'hvel': t['v_L2com'],
            'hmass': t['N'] * MPART,
            'hmultis': t['multi_halos'],
            'hrandoms': t['randoms'],
            'hveldev': np.repeat(t['randoms_exp'] if want_expvel else t['randoms_gaus_vrms'], 3),
            'hsigma3d': t['sigmav3d_L2com'],
            'hc': t['r98_L2com'] / t['r25_L2com'],
            'hrvir': t['r98_L2com'],
        }
        if want_AB:
            exp['hdeltac'] = t['deltac_rank']
            exp['hfenv'] = t['fenv_rank']
        if want_shear:
            exp['hshear'] = t['shear_rank']
        for k, v in exp.items():
            if not np.allclose(hd[k][row], v, rtol=1e-6, atol=0):
                errors.append(
                    'row %d (id %d): %s = %r, expected %r'
                    % (row, hid[row], k, hd[k][row], v)
                )

    # (3) each particle's host index points to the halo whose id it records
    phid = pd['phid']
    pinds = pd['pinds']
    if not np.array_equal(phid, all_pids):
        errors.append('phid differs from the concatenated particle files')
    if len(pinds) != len(phid):
        errors.append('len(pinds) != len(phid)')
    else:
        inr = (pinds >= 0) & (pinds < len(hid))
        ok = inr.copy()
        ok[inr] = hid[pinds[inr]] == phid[inr]
        bad = np.flatnonzero(~ok)
        if len(bad):
            errors.append(
                '%d of %d particles have a wrong host index; first bad: particle %d '
                'records halo id %d but pinds=%d%s'
                % (
                    len(bad),
                    len(phid),
                    bad[0],
                    phid[bad[0]],
                    pinds[bad[0]],
                    (' -> hid %d' % hid[pinds[bad[0]]]) if inr[bad[0]] else ' (out of range)',
                )
            )

    status = 'FAIL' if errors else 'ok'
    print(
        '[%s] %s: slabs=%d halos=%d parts=%d AB=%d shear=%d ranks=%d expvel=%d'
        % (
            status,
            case,
            len(slab_ids),
            n,
            len(all_pids),
            want_AB,
            want_shear,
            want_ranks,
            want_expvel,
        )
    )
    for e in errors[:6]:
        print('      ', e)
    return not errors


def particles_for(ids, per_halo, rng):
    p = np.repeat(ids, per_halo)
    return p


def main():
    rng = np.random.default_rng(12)
    ok = True

    # ids increasing across slabs, particle count a multiple of the thread count
    ids = np.arange(1, 61, dtype=np.int64) * 7
    s = [ids[:20], ids[20:40], ids[40:]]
    p = [np.repeat(x, 2) for x in s]  # 120 particles
    ok &= check('increasing, 120 parts', s, p, False, False, False, False)

    # ids decreasing across slabs (sorted inside every slab), all options on,
    # particle count NOT a multiple of the thread count (121 = 4*30 + 1)
    s = [ids[40:], ids[20:40], ids[:20]]
    p = [np.repeat(x, 2) for x in s]
    p[-1] = np.append(p[-1], ids[19])
    ok &= check('decreasing, 121 parts', s, p, True, True, True, True)

    # ids interleaved across slabs, uneven slab sizes, 4*k+3 particles,
    # the last few particles live in the highest-id halos
    perm = rng.permutation(ids)
    s = [np.sort(perm[:7]), np.sort(perm[7:30]), np.sort(perm[30:31]), np.sort(perm[31:])]
    p = [np.repeat(x, 3) for x in s]  # 180
    p[-1] = np.concatenate([p[-1], ids[-3:]])  # 183
    ok &= check('interleaved, 183 parts', s, p, True, False, True, False)

    # unsorted inside the slabs too, shear only, 4*k+2 particles
    s = [perm[:25], perm[25:26], perm[26:]]
    p = [rng.permutation(np.repeat(x, 2)) for x in s]  # 120
    p[0] = np.concatenate([p[0], ids[-2:]])  # 122
    ok &= check('scrambled, 122 parts', s, p, False, True, False, True)

    # fewer particles than threads
    s = [ids[30:], ids[:30]]
    p = [ids[58:60], ids[3:4]]
    ok &= check('tiny, 3 parts', s, p, True, True, False, False)

    if not ok:
        print('PROPERTY C12 VIOLATED')
        sys.exit(1)
    print('all C12 checks passed')


if __name__ == '__main__':
    main()
