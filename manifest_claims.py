# Data for tools_manifest.py: what is claimed per property, and what is not (with the reason).
CLAIMS = {
 'C19': dict(
   technique='static analysis: linear-integer bounds prover (Fourier-Motzkin entailment) + interval tiling of write/read sets + syntax-directed accumulator rule',
   text='Decides the indexing behaviour of util.cumsum for every length N>=0 and all flag combinations from the source: '
        'all subscripts in bounds, written indices tile [0,len(out)) exactly once, each input element accumulated once, '
        'wrong-length output rejected before any store, every package call site passes a matching output length.',
   note='Trusted: CPython ast, the avs analyser, numba wrapping of negative scalar indices. Not decided: numeric overflow of narrow dtypes, agreement of float results with numpy.cumsum.',
   design_ref='DESIGN.md section 4, C19'),
 'C04': dict(
   technique='static analysis: bit-provenance abstract domain (64 symbolic input bits) + exact polynomial normal forms, compared with the documented layout table',
   text='Decides the integer part of the RVint and aux decoders for every word at once: each output bit of every store is traced to its input bit, '
        'the affine/scale part is normalised to an exact polynomial (boxsize/1e6, (f-2048)*6000/2048, f*box/ppd-box/2, f^2) and compared with the layout; '
        'output selection guards, axis agreement and the wrappers\' allocation tables are checked structurally.',
   note='Trusted: numba integer promotion (int32 op uint32 -> int64 sign-extended), CPython ast. Not decided: float rounding (the half-quantum bound follows analytically), library allocation behaviour.',
   design_ref='DESIGN.md section 4, C04'),
 'C15': dict(
   technique='static analysis: bit-provenance domain over the 72 record bits (bijection check) + polynomial normal forms of the header/particle formulas + syntax-directed record-discipline rule + resolved-argument rule for the pack9 branch of read_asdf',
   text='Decides that the nibble expansion partitions the 72 bits of a record into six 12-bit fields for every byte pattern, that header records store nothing and particle records '
        'store at the write counter which is incremented exactly once and returned, and that positions/velocities of the three axes have one consistent cell-relative polynomial form; read_asdf keeps max(npos, nvel) rows of a pack9 read, so the particle count does not depend on which outputs were requested. The header test must read byte 0 of the current record.',
   note='The repository has no independent description of the pack9 constants: the oracle is internal consistency plus the property statement. Float rounding not modelled.',
   design_ref='DESIGN.md section 4, C15'),
 'C05': dict(
   technique='static analysis: partial evaluation of the regex-dispatched loaders over match groups + exact polynomial (units-of-measure) normal form per column, compared with a reviewed class table',
   text='Decides the scaling law of every halo column of the literal dtype tables, for every stored value and every (BoxSize, VelZSpace_to_kms): length = raw*B, velocity = raw*Z, '
        'ratio = i16*ref/32000*conv(ref), sigmavMid^2 = sigmav3d^2-Maj^2-Min^2 homogeneous in Z^2, integers/dimensionless unchanged; the convert_units switch binds (B,Z) to the header keys or to (1,1). The loader table is rebuilt by every instance from its own header (bound once to a new dict, no exit on instance or class state, never stored in shared state).',
   note='Columns whose class the statement does not fix (sigman, *_mainprog, light-cone columns) are computed and reported but not asserted. Values in files and astropy casting are not modelled.',
   design_ref='DESIGN.md section 4, C05'),
 'C02': dict(
   technique='static analysis: regex/loader table totality, partial-evaluated dependency graph, allocation key agreement, stale-loop-variable lint, guarded set inclusion (required columns subset of ensured columns per configuration)',
   text='Decides the request-independence mechanisms: exactly one loader per column; loader dependencies valid and acyclic with the requested key always returned; temporary columns typed by their own '
        'name; no stale loop variable; for every (cleaned, loaded subsamples) configuration the index columns read by the subsample code are force-added; loaders are pure. Every array built in _read_halo_info that becomes a column carries an explicit dtype that depends on the column.',
   note='Not decided: astropy casting on assignment, file contents, numeric equality between two loads (follows from the mechanisms, argued not checked).',
   design_ref='DESIGN.md section 4, C02'),
 'C06': dict(
   technique='static analysis: exact polynomial normal forms of the assignment weights in the sub-cell offset (kernel equality, partition of unity, non-negativity) + structural deposit-table / index-offset matching',
   text='Decides for all positions, weights, grid shapes and offsets: the per-axis weights of _tsc_scatter and cic_serial equal the standard TSC/CIC kernels at cell offsets -1,0,+1, sum to 1 identically (conservation), '
        'are non-negative on |d|<=1/2; the 27 deposits pair each cell offset with its weight exactly once and accumulate with += into the supplied grid; periodic indices are rightwrap(i+o, g_axis); in-place wrap and grid plumbing are intact. The parallel front end hands the kernel each particle with its own weight (the partition\'s cursor and weights-follow-positions obligations are obligations of this property too).',
   note='Trusted: |round(x)-x| <= 1/2, numba negative-index wrap. Not decided: floating-point rounding; "shifting rolls the grid" follows from geometry+table+wrap and is argued, not separately checked.',
   design_ref='DESIGN.md section 4, C06'),
 'C07': dict(
   technique='static analysis: path-sensitive symbolic evaluation of the npartition choice/validation with linear-integer entailment (floor-div, min/max, parity by integer tightening) + schedule/ownership rules on the prange phases',
   text='Decides the premises of the stripe lemma on the source for all grid sizes, thread counts and user/default npartition: every accepted parallel multi-stripe configuration has 3*npartition <= ngrid and npartition even, the default is never rejected, '
        'the two prange phases take stripes 2i and 2i+1 (weights alike) covering every stripe once within the stripe table, one coord drives key and grid axis, key = min(int(x*P/box),P-1), footprint is 3 cells, no other shared store. The stripes hold the input particles each with its own weight for every sort option (partition obligations C17-R2/R3/R4 imported).',
   note='The stripe lemma itself (3-cell clouds of stripes >=3 wide and two apart are disjoint; P even handles the periodic seam) is a paper argument in DESIGN.md. Float32 rounding of keys at exact stripe boundaries not modelled; numeric equality with the serial sum is not decided.',
   design_ref='DESIGN.md section 4, C07'),
 'C17': dict(
   technique='static analysis: ownership classification of stores under prange + structural layout/agreement rules on the counting sort + linear-integer bounds prover relative to documented preconditions',
   text='Decides the structure that makes partition_parallel a stripe-ordered permutation for every thread count: private key/histogram/cursor ranges, identical block table and keys in both passes, '
        'transposed exclusive prefix sum paired with its reshape, stripe offsets copied before the scatter, weights moved with the same cursor and source row, inputs never stored to, all subscripts in bounds. The outputs are allocated with the element type of their inputs.',
   note='Assumed (listed in the evidence): positions in [0,boxsize) so keys are >= 0; cursors stay inside [0,N) by the prefix-sum construction. Not decided: float32 rounding of keys at stripe boundaries; numerical correctness of np.cumsum.',
   design_ref='DESIGN.md section 4, C17'),
 'C08': dict(
   technique='static analysis: linear-integer entailment on fold switches (both mesh parities), monotonicity lattice for early exits and carried search cursors, dominance of range guards, case evaluation of Hermitian weights, ownership of per-thread accumulators',
   text='Decides the counting skeleton of bin_kmu/bin_kppi for all mesh sizes, edges and thread counts: folded squares equal min(X,n-X)^2, breaks and forward-only cursors only on monotone quantities, every bin search dominated by its range test, '
        'mode weight 1 on kz=0 and 2kz=n else 2 for counts and all weighted sums alike, per-thread int64 accumulators reduced after the loop, guarded means, monopole = mode-weighted mu-average, loops cover the half mesh once.',
   note='Assumed: mu^2 <= 1 <= muedges[-1] (docstring). Not decided: membership of modes lying exactly on an edge (float32), Legendre closed form P_n, values of the means.',
   design_ref='DESIGN.md section 4, C08'),
 'C12': dict(
   technique='static analysis: computed set of per-halo arrays (allocation dimension + flow into halo_data) compared with the set permuted in the re-sort branch; slab-slice agreement; ordering rules',
   text='Decides that concatenation and re-sorting treat every per-halo array alike for every file layout and flag combination: every array allocated per halo that reaches halo_data is permuted by the argsort of the ids under the flags of its allocation, '
        'all per-halo / per-particle arrays are filled through one slab slice with the ticker advanced once after the stores, sortedness is asserted after the re-sort and pinds is the sorted search of phid in the re-sorted hid. Both sides of the sorted id search are integer buffers.',
   note='Precondition (not decided): ids duplicate-free and present; HDF5 contents.',
   design_ref='DESIGN.md section 4, C12'),
 'C14': dict(
   technique='static analysis: pairing / must-follow rules on the structured control flow of the frame reassembly loop, struct-format agreement by constant folding',
   text='Decides the pairing conditions necessary for chunk independence on every path: one length-prefix format in writer and reader with matching literal header lengths, every prefix read consumed by the same amount, '
        'every decompressed frame advances the output cursor and resets the frame state, the buffer cursor is bounded by min(frame remainder, chunk), parser state is per call, the writer tiles the data with one header per frame.',
   note='That these conditions imply chunk independence (a history property) is a hand argument in DESIGN.md; blosc itself is not modelled.',
   design_ref='DESIGN.md section 4, C14'),
 'C16': dict(
   technique='static analysis: key agreement between membership tests and column names, constant propagation of _resolve_columns and of the column-detection block over their finite input domains (144 option combinations, 16 sets of raw columns), decoder arguments resolved through the locals of read_asdf',
   text='Decides the column-set and plumbing clauses: each column is added iff its own name is in the resolved load list (PID fields via the kwargs comprehension over what unpack_pids accepts), defaults per raw column as documented, '
        'auto-detection raises for zero or several known columns, each raw column selects exactly one decode branch which writes into the table buffers with the requested dtype and defines the truncation count; meta is the header. The header ppd reaches the pid decoder rounded to nearest or unchanged, never truncated.',
   note='Value independence from co-requested columns is C04-R6/C15-R5. asdf/astropy behaviour and file contents are not modelled.',
   design_ref='DESIGN.md section 4, C16'),
 'C18': dict(
   technique='static analysis: floor-division normal forms of the code decomposition; per-cap abstract interpretation of the vectorised decoder over exact Laurent polynomials with sqrt / reciprocal / row-norm / trig symbols and a polynomial-identity checker modulo their defining relations; numeric-kind rule for unsigned wraparound',
   text='Decides the algebraic structure of _unpack_euler16 for all 65340 codes: cap/cell/azimuth decomposition with A=45, T=11; for each of the 12 caps the major axis is identically a signed permutation of the unit vector of the documented inverse cell map and the 12 permutations are distinct; '
        'minor . major = 0 identically, every division in the construction is by a strictly positive quantity, minor carries (cos az, sin az) with az = (iaz + 1/2) pi / 45; '
        'middle = minor x major identically; minor and middle normalised; integer subtractions on the (possibly unsigned) code cannot wrap. The per-cap evaluator executes constant loops and conditional expressions, so a table written as a loop over the 12 caps is decided like the unrolled one.',
   note='Not decided: distinctness within a cap (injectivity of the real-valued cell map) and the 4-degree angular coverage, which are numerical.',
   design_ref='DESIGN.md section 4, C18'),
 'C20': dict(
   technique='static analysis: statement-order (dominance) rule for validate-before-write, frame-grammar matching of the write sequence, reader/writer width agreement (C client parsed by regex)',
   text='Decides the framing: no write is reachable before validation of all files x fields; per field the writes are exactly an int64 count accumulating prod(shape) over the files, an int32 itemsize, then one payload per file in argument order; '
        'no reordering of files/fields, CLI forwards them in order; widths agree with client.c and the documented 8-byte / 4-byte ints. Count and width are accumulated for every file without exits; diagnostics go to stderr only.',
   note='The payload bytes delivered by asdf/blosc are not modelled.',
   design_ref='DESIGN.md section 4, C20'),
 'C01': dict(
   technique='static analysis: provenance of the write-offset cumulative sums, key agreement of the kernel-call table (f-string keys partially evaluated for A/B x cleaned), zipper typestate rule on both kernels, guarded set comparison of removed/added columns, bounds prover on the zipper kernels',
   text='Decides the index-arithmetic skeleton: write offsets are one (initial,final) cumulative sum per subsample of npout[+npout_merge] with the running total carried A->B; cleaned-away halos are zeroed first; the kernel call pairs read offsets/lengths with the summed columns and hands each file its halo rows (+1 offset); '
        'both zipper kernels slice every output to the halo write range, decode originals, advance every output by the original length, then decode the merged particles; index columns are replaced by new[:-1] / diff(new); table length is the last offset. The callee util.cumsum is decided too (out[0] is the carried offset, each element added once before its store, total returned).',
   note='Not decided: that the stored npstart/npout address the right records (file contents), decoding values (C04), astropy slicing semantics. Zipper bounds are relative to the call-site contract (lengths of the sliced columns) listed as ASSUMED.',
   design_ref='DESIGN.md section 4, C01'),
 'C03': dict(
   technique='static analysis: reaching-definition style agreement rules on the per-file compaction bookkeeping, order-preservation (no reordering constructs, position pairing), must-raise rules, guard equivalence of the two N_total->N renames',
   text='Decides the bookkeeping that makes concatenation/filtering commute with loading: slot [N_written:N_written+len], halos[:n]=halos[mask] with n=mask.sum(), the same n advances N_written and is recorded per file, truncation to N_written, post-filter counts select each file\'s halos for its particle file; '
        'file order preserved end to end; duplicates and mixed catalogs raise; the filter-path rename and the final rename have the same guard (cleaning files loaded and not passthrough); empty results are safe (cumsum).',
   note='Not decided: equality of row values with masking an unfiltered load (follows from the bookkeeping plus astropy semantics), ndarray.resize.',
   design_ref='DESIGN.md section 4, C03'),
 'C09': dict(
   technique='static analysis: re-discovered bijection across count pass / prefix sums / allocations / fill pass / dict assembly (set and map comparisons), factor-structure and suffix-discipline rules on the marker chain, polynomial normal forms of the fill formulas, alpha-equivalence of sibling blocks',
   text='Decides the host-attachment and slice-stacking bookkeeping of gen_cent / gen_sats / gen_gals: one consistent mapping tracer<->keep code<->counter<->prefix column<->cursor<->arrays<->dict; markers stacked LRG, ELG, QSO with own-tracer parameters times ic times multiplicity/weight and an if/elif chain on the stored random; '
        'host arrays indexed by the host row only and tracer arrays by their cursor only; component-wise position/velocity-bias formulas, host mass/id, box-observer RSD with the [-L/2,L/2) wrap, centrals-then-satellites assembly and Ncent.',
   note='Not decided: the occupation formulas against the literature, slice end-points at exact equality, light-cone RSD geometry, velocity statistics.',
   design_ref='DESIGN.md section 4, C09'),
 'C10': dict(
   technique='static analysis: ownership classification of stores under prange, block-table / prefix-sum idiom rules, count-fill agreement (exactly-once increments per branch), purity (call and thread-id reachability), copy-map analysis (intervals and shifts as linear forms) of the serial and parallel concatenate paths with a block-count obligation',
   text='Decides thread-count independence structurally: nothing shared under prange; count and fill pass iterate identical blocks from rint(linspace(0,H,T+1)) (tiles [0,H) for every T incl. T>H and H=0); cursors are prefix sums of the per-thread counts; each branch increments its counter / cursor exactly once; '
        'no randomness, time or thread id in row values; fast_concatenate copies out[0:N1] <- a1 and out[N1:N1+N2] <- a2 on both paths (any equivalent placement of the N1 offset), every block table has at least one block (the share of the first array is rounded down) and every thread id is dispatched to exactly one block.',
   note='Lemma used: floor(T*N1/(N1+N2)) <= T-1 for N2>0 (real arithmetic; rounding up or to nearest is refuted). Bitwise float equality under fastmath is argued from purity (no cross-row arithmetic), not separately decided.',
   design_ref='DESIGN.md section 4, C10'),
 'C11': dict(
   technique='static analysis: modular array-bounds prover (syntax-directed abstract interpretation with linear-integer entailment by Fourier-Motzkin, case symbols, loop lemmas for block tables / counters / search cursors / content invariants) relative to written kernel contracts',
   text='Decides, for every numba kernel of the eight anchored files and every scalar subscript on every axis, that the index stays within [-dim, dim) for all sizes, flags and loop iterations: PROVEN from the code alone, or ASSUMED relative to a named contract entry (docstring precondition or caller fact, printed with its reason); '
        'refutations carry a small integer witness; an access decided on the reviewed tree that can no longer be decided is reported as a lost proof.',
   note='Contracts (avs/spec/contracts.py) are reviewed data and part of the trusted base; value-dependent accesses (prefix-sum cursors, float->int truncation of in-domain positions, equidistant interpolation grids, the experimental NFW path) are ASSUMED, each with its reason. numba code generation is not modelled.',
   design_ref='DESIGN.md section 4, C11'),
 'C13': dict(
   technique='static analysis: interprocedural dependence (information-flow) analysis with shape/value separation and per-key tracking of result dictionaries; ownership classification of stores under prange',
   text='Decides only the second sentence of C13 and the schedule part of the first: neither the values nor the lengths of pos, w, pos2, w2 can reach N_mode, N_mode_poles, the k and mu range columns or the shape of any result column of calc_power (with a positive control that the power column does depend on them); '
        'every store under prange in the kernels on that path is private, so the thread count only changes floating-point summation order; the in-place normalisation passes visit every cell of the mesh (direct, block-table or chunked forms; a dropped remainder is refuted); get_raw_power is the Hermitian product, evaluated over complex algebra: the cross branch with field2 = field equals the auto branch and a phase factor common to both fields cancels. The two get_field_fft calls of calc_power bind every parameter alike up to (pos,w)<->(pos2,w2) and no same-named arguments are crossed at calls on the path.',
   note='NOT decided: permutation invariance, translation invariance of the painting / interlacing / compensation stages and cross=auto upstream of get_raw_power (numerical identities of the pipeline; e.g. mis-indexed interlacing phases or transposed compensation axes are invisible to these rules). Termination-insensitive; library calls modelled conservatively.',
   design_ref='DESIGN.md section 4, C13'),
}
_NB = 'rule family not built yet in this session (claimed only once its checker exists; see DESIGN.md section 4)'
NOT_APPLICABLE = {f'C{n:02d}': _NB for n in range(1, 21) if f'C{n:02d}' not in CLAIMS}
