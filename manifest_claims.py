# Data for tools_manifest.py: what is claimed per property, and what is not (with the reason).
CLAIMS = {
 'C19': dict(
   technique='static analysis: linear-integer bounds prover (Fourier-Motzkin entailment) + interval tiling of write/read sets + syntax-directed accumulator rule',
   text='Decides the indexing behaviour of util.cumsum for every length N>=0 and all flag combinations from the source: '
        'all subscripts in bounds, written indices tile [0,len(out)) exactly once, each input element accumulated once, '
        'wrong-length output rejected before any store, every package call site passes a matching output length.',
   note='Trusted: CPython ast, the avs analyser, numba wrapping of negative scalar indices. Not decided: numeric overflow of narrow dtypes, agreement of float results with numpy.cumsum.',
   design_ref='DESIGN.md section 4, C19'),
}
_NB = 'rule family not built yet in this session (claimed only once its checker exists; see DESIGN.md section 4)'
NOT_APPLICABLE = {f'C{n:02d}': _NB for n in range(1, 21) if f'C{n:02d}' not in CLAIMS}
