#!/usr/bin/env python3
"""Robustness probe: alpha-rename one local variable at a time in the functions a property's rules read
(behaviour-preserving edit) and report which checks raise an alarm (false alarm) or give up (exit 2).
Usage: python3-vt tools_rename_probe.py C17 [C08 ...]"""
import ast, sys, os, importlib, multiprocessing as mp
sys.path.insert(0, os.path.dirname(os.path.abspath(__file__)))
from avs.core.srcmodel import Source, AnalysisError
from avs.core import report
from avs.__main__ import run_rules


def locals_of(fn):
    params = {a.arg for a in fn.args.posonlyargs + fn.args.args + fn.args.kwonlyargs}
    names = set()
    for n in ast.walk(fn):
        if isinstance(n, ast.Name) and isinstance(n.ctx, ast.Store):
            names.add(n.id)
    return sorted(names - params)


class Ren(ast.NodeTransformer):
    def __init__(self, fn, old, new):
        self.fn, self.old, self.new = fn, old, new
        self.inside = False

    def visit_FunctionDef(self, node):
        if node is self.fn:
            self.inside = True
            self.generic_visit(node)
            self.inside = False
            return node
        if self.inside:
            self.generic_visit(node)
        return node

    def visit_Name(self, node):
        if self.inside and node.id == self.old:
            return ast.copy_location(ast.Name(id=self.new, ctx=node.ctx), node)
        return node


class Alias(ast.NodeTransformer):
    """Reads of parameter `old` go through a fresh alias `old_a = old` inserted at the top of the function."""
    def __init__(self, fn, old):
        self.fn, self.old, self.inside = fn, old, False

    def visit_FunctionDef(self, node):
        if node is self.fn:
            self.inside = True
            self.generic_visit(node)
            self.inside = False
            k = 1 if node.body and isinstance(node.body[0], ast.Expr) and isinstance(node.body[0].value, ast.Constant) else 0
            node.body.insert(k, ast.Assign(targets=[ast.Name(id=self.old + '_a', ctx=ast.Store())], value=ast.Name(id=self.old, ctx=ast.Load()), lineno=node.lineno))
            return node
        if self.inside:
            self.generic_visit(node)
        return node

    def visit_Name(self, node):
        if self.inside and node.id == self.old and isinstance(node.ctx, ast.Load):
            return ast.copy_location(ast.Name(id=self.old + '_a', ctx=node.ctx), node)
        return node


class InsertLog(ast.NodeTransformer):
    """Insert a print statement at a given position: 'top' of the function, or at the top of its k-th loop body."""
    def __init__(self, fn, where):
        self.fn, self.where, self.k = fn, where, -1

    def visit_FunctionDef(self, node):
        if node is not self.fn:
            return node
        stmt = ast.parse("print('probe: reached')").body[0]
        if self.where == 'top':
            k = 1 if node.body and isinstance(node.body[0], ast.Expr) and isinstance(node.body[0].value, ast.Constant) else 0
            node.body.insert(k, stmt)
            return node
        idx = int(self.where[4:])
        loops = [n for n in ast.walk(node) if isinstance(n, (ast.For, ast.While))]
        loops.sort(key=lambda n: (n.lineno, n.col_offset))
        if idx < len(loops):
            loops[idx].body.insert(0, stmt)
        return node


def params_of(fn):
    from avs.core.canon import _binding_counts
    cnt = _binding_counts(fn)
    return sorted(a.arg for a in fn.args.posonlyargs + fn.args.args + fn.args.kwonlyargs if cnt.get(a.arg) == 1 and a.arg != 'self')


MODE = 'rename'


def job(args):
    prop, rel, qual, old = args
    alias = old.startswith('alias:')
    ins = old.startswith('insert:')
    old = old.split(':')[-1]
    base = Source()
    tree = ast.parse(base.text(rel))
    # locate the function again in the fresh tree
    target = None
    for n in ast.walk(tree):
        if isinstance(n, ast.FunctionDef) and n.name == qual.split('.')[-1] and n.lineno == base.func(rel, qual).lineno:
            target = n
    if target is None:
        return (prop, rel, qual, old, 'skip', '')
    (InsertLog(target, old) if ins else (Alias(target, old) if alias else Ren(target, old, old + '_r'))).visit(tree)
    ast.fix_missing_locations(tree)
    text = ast.unparse(tree)
    try:
        chk = run_rules(prop, Source(overrides={rel: text}), 'quick')
        low = chk.check_floors()
        if low and not chk.refutations():
            return (prop, rel, qual, old, 'exit2', f'floors {low}')
        if chk.unknowns():
            return (prop, rel, qual, old, 'exit2', chk.unknowns()[0].fullkey())
        _, new = report.classify(chk)
        if new:
            return (prop, rel, qual, old, 'ALARM', f'{new[0].rule} {new[0].key[:80]}')
        return (prop, rel, qual, old, 'ok', '')
    except AnalysisError as e:
        return (prop, rel, qual, old, 'exit2', str(e)[:100])
    except Exception as e:
        return (prop, rel, qual, old, 'crash', f'{type(e).__name__}: {e}'[:100])


def main():
    props = [a for a in sys.argv[1:] if not a.startswith('--')]
    alias = '--alias' in sys.argv
    insert = '--insert' in sys.argv
    jobs = []
    for prop in props:
        src = Source()
        chk = run_rules(prop, src, 'quick')
        for fq in sorted(chk.functions):
            rel, q = fq.split(':', 1)
            if not rel.endswith('.py') or q.startswith('<'):
                continue
            try:
                fn = src.func(rel, q)
            except AnalysisError:
                continue
            if insert:
                nloops = sum(1 for n in ast.walk(fn) if isinstance(n, (ast.For, ast.While)))
                for w in ['top'] + [f'loop{k}' for k in range(min(nloops, 6))]:
                    jobs.append((prop, rel, q, 'insert:' + w))
                continue
            for name in (params_of(fn) if alias else locals_of(fn)):
                jobs.append((prop, rel, q, ('alias:' if alias else '') + name))
    with mp.Pool(16) as pool:
        res = pool.map(job, jobs)
    bad = [r for r in res if r[4] not in ('ok', 'skip')]
    for r in bad:
        print(r[0], r[4], r[2].split('.')[-1], r[3], '--', r[5])
    tot = {}
    for r in res:
        tot.setdefault(r[0], {}).setdefault(r[4], 0)
        tot[r[0]][r[4]] += 1
    print(tot)


if __name__ == '__main__':
    main()
