#!/usr/bin/env python3
"""Regenerates MANIFEST.json from the per-property table below (kept in one place so that the
manifest is always schema-valid).  Run: python3-vt tools_manifest.py"""
import json, os, importlib

BASE_CMD = ("cd /repo && /venv/bin/python -m pytest -ra -q -p no:cacheprovider --timeout=900 "
            "--continue-on-collection-errors")

# property -> (technique, level text, level note, design ref)
CLAIMS = {}
NOT_BUILT = {}

def load():
    ns = {}
    exec(open(os.path.join(os.path.dirname(__file__), 'manifest_claims.py')).read(), ns)
    return ns['CLAIMS'], ns['NOT_APPLICABLE']

def main():
    claims, na = load()
    checks = []
    for pid in sorted(claims):
        c = claims[pid]
        checks.append(dict(
            property_id=pid,
            quick_cmd=f'python3-vt -m avs check {pid} --tier quick',
            thorough_cmd=f'python3-vt -m avs check {pid} --tier thorough',
            evidence_file=f'/verif/evidence/{pid}.json',
            replay_cmd_template='python3-vt -m avs explain {path}',
            engine='avs',
            level_claimed=dict(category='other', text=c['text'], design_ref=c['design_ref']),
            level_note=c['note'],
            technique=c['technique'],
        ))
    m = dict(
        version=1,
        setup_cmd='python3-vt -m avs selfcheck',
        hooks=dict(guard='ABACUSUTILS_VERIF',
                   enable='no hooks exist: the checks parse /repo with ast and never import or run it',
                   baseline_off_cmd=BASE_CMD, source_commits=[], add_only=True),
        engines=[dict(name='avs', path='/verif/avs', serves_properties=sorted(claims),
                      kind_free_text='repository-specific static analyser (python ast): linear-integer bounds prover, '
                                     'bit-provenance, polynomial, dimension and ownership domains, structural rules')],
        checks=checks,
        notes='Static analysis only; see DESIGN.md. Exit 0 ok / 1 VIOLATION / 2 ANALYSIS-ERROR (cannot decide).',
        not_applicable=[dict(property_id=p, reason=r) for p, r in sorted(na.items())],
    )
    with open(os.path.join(os.path.dirname(__file__), 'MANIFEST.json'), 'w') as f:
        json.dump(m, f, indent=1)
        f.write('\n')
    import jsonschema
    jsonschema.validate(m, json.load(open('/root/.vp/MANIFEST.schema.json')))
    print('MANIFEST.json written:', len(checks), 'checks,', len(na), 'not_applicable')

if __name__ == '__main__':
    main()
