"""C11 -- compiled kernels never access memory outside their arrays."""
import ast

from ..core.kernels import analyse, kernel_names, add_bounds_obligations, callsite_obligations
from ..core.srcmodel import dotted, unparse, walk_no_nested, AnalysisError, deco_info
from ..spec.contracts import CONTRACTS

FILES = ['abacusnbody/util.py', 'abacusnbody/data/bitpacked.py', 'abacusnbody/data/pack9.py', 'abacusnbody/data/compaso_halo_catalog.py',
         'abacusnbody/analysis/tsc.py', 'abacusnbody/analysis/cic.py', 'abacusnbody/analysis/power_spectrum.py', 'abacusnbody/hod/GRAND_HOD.py']
WIDE = ['abacusnbody/analysis/shear.py', 'abacusnbody/hod/menv.py', 'abacusnbody/hod/abacus_hod.py', 'abacusnbody/hod/zcv/ic_fields.py',
        'abacusnbody/hod/zcv/advect_fields.py', 'abacusnbody/hod/zcv/tools_cv.py', 'abacusnbody/hod/prepare_sim.py', 'abacusnbody/hod/utils.py']


def run(chk):
    src = chk.src
    chk.explanation = ('A modular array-bounds prover is run over every numba kernel of the eight anchored files: for each scalar subscript '
                       'A[e] on each axis the obligation -dim <= e < dim is decided by linear-integer entailment (Fourier-Motzkin with '
                       'integer tightening; floor-div / min / max axioms) from loop ranges, sizes of parameters and local allocations, guards '
                       'on the path (flags split into cases), helper summaries, and lemmas for the repository\'s idioms (block tables, '
                       'counters, search cursors dominated by their range test, thread ids, content invariants of locally filled index '
                       'arrays). Facts that come from a kernel\'s written contract (docstring preconditions, caller facts) make the '
                       'obligation ASSUMED with its reason instead of PROVEN. A refutation carries a small integer witness of the exact '
                       'constraints; an access that was decided on the reviewed tree and no longer is, is reported as a lost proof.')
    chk.rule('C11-R1', 'every scalar subscript of every kernel: -dim <= index < dim (numba wraps negative scalar indices; slices clamp)', 300)
    chk.rule('C11-R3', 'kernel-to-kernel calls establish the callee contract (PROVEN structurally, or ASSUMED with the contract reason)', 10)
    chk.rule('C11-R2', 'every njit kernel of the anchored files was analysed (no kernel skipped)', 8)
    chk.rule('C11-R4', 'caller facts the subsample kernels\' contracts rest on: write offsets are one cumulative sum over the loaded samples in the order A, B; '
                       'the tables are allocated with the last offset of the last sample; each file gets its own rows; the lengths the kernels read with are the ones the slots were sized from -- cleaned-away halos zeroed in the stored column (obligations C01-R1/R2/R3/R8)', 8)
    chk.assume('numba semantics: negative scalar indices wrap, slices clamp, scalars assigned in a prange body are private')
    chk.assume('value-dependent accesses are ASSUMED relative to the contract entries in avs/spec/contracts.py (each printed with its reason in the evidence)')
    from . import c01
    chk.import_from(c01.run, 'C01', ('C01-R1', 'C01-R2', 'C01-R3', 'C01-R8'), 'C11-R4')
    total = 0
    kernels = 0
    for rel in FILES:
        names = kernel_names(src, rel)
        nk = 0
        for q in names:
            k, n = add_bounds_obligations(chk, 'C11-R1', rel, q, CONTRACTS)
            total += n
            callsite_obligations(chk, 'C11-R3', rel, q, CONTRACTS, k)
            nk += 1
        kernels += nk
        chk.check(nk >= 1, 'C11-R2', rel, '<module>', f'{nk} kernels analysed', ', '.join(names)[:200], 'no numba kernel found in an anchored file', nontrivial=False)
    chk.extra['kernels_analysed'] = kernels
    chk.extra['subscript_obligations'] = total
    assumed = {}
    for o in chk.obs:
        if o.verdict == 'ASSUMED':
            for r in o.detail.split('; '):
                assumed[r] = assumed.get(r, 0) + 1
    chk.extra['assumption_table'] = [dict(reason=r, obligations=n) for r, n in sorted(assumed.items(), key=lambda kv: -kv[1])]
    if chk.tier == 'thorough':
        for rel in WIDE:
            if not src.exists(rel):
                continue
            try:
                for q in kernel_names(src, rel):
                    k = analyse(src, rel, q, CONTRACTS)
                    c = {}
                    for a in k.accesses.values():
                        v = 'NEEDS-CONTRACT' if a.verdict in ('REFUTED', 'UNKNOWN') else a.verdict
                        c[v] = c.get(v, 0) + 1
                    chk.note(f'widened: {rel}:{q} {c} (no contracts are written for this file: undecided accesses need a size contract and are not findings)')
            except Exception as e:      # the widened sweep must never break the check
                chk.note(f'widened: {rel}: analyser gave up ({type(e).__name__}: {e})')
