"""C17 -- partition_parallel returns a stripe-ordered permutation of its input."""
import ast

from ..core import own
from ..core.kernels import analyse
from ..core.srcmodel import dotted, unparse, walk_no_nested, AnalysisError, names_in, norm
from ..spec.contracts import CONTRACTS
from . import c07

TSC = 'abacusnbody/analysis/tsc.py'
FILES = [TSC]
Q = 'partition_parallel'


def resolve_key_pass(fn):
    """Normal form of the key / histogram pass of partition_parallel (in place, idempotent).  Inside the innermost loop body that
    stores keys[...], scalar locals are put back into the statements that use them:

        k = np.int32(E)                  k = <expr>           -> uses of k read <expr>
        if k > last: k = last            a clamp written as if -> min(<expr>, last)          (last = npartition - 1 resolved likewise)
        keys[i] = k
        counts[t, k] += 1                the value just stored  -> counts[t, keys[i]]

    so that the rules see `keys[i] = min(np.int32(E), npartition - 1); counts[t, keys[i]] += 1` whatever the spelling.  Exact for
    the integer key: the same values reach the same stores in the same order."""
    from ..core.srcmodel import clone_pos
    outer = {}
    nst = {}
    for n in ast.walk(fn):
        if isinstance(n, ast.Name) and isinstance(n.ctx, ast.Store):
            nst[n.id] = nst.get(n.id, 0) + 1
    params = {a.arg for a in fn.args.args + fn.args.kwonlyargs}
    for st in fn.body:
        if isinstance(st, ast.Assign) and len(st.targets) == 1 and isinstance(st.targets[0], ast.Name) and nst.get(st.targets[0].id) == 1:
            v = st.value
            if all(isinstance(x, (ast.BinOp, ast.Name, ast.Constant, ast.operator, ast.expr_context)) for x in ast.walk(v)) \
                    and all(x.id in params for x in ast.walk(v) if isinstance(x, ast.Name)) and any(isinstance(x, ast.Name) for x in ast.walk(v)):
                outer[st.targets[0].id] = v

    def pure(e):
        for x in ast.walk(e):
            if isinstance(x, ast.Call) and dotted(x.func) not in ('np.int32', 'np.int64', 'int', 'np.float64', 'float', 'min', 'max'):
                return False
        return True

    def rewrite(body):
        if not any(isinstance(x, ast.Assign) and isinstance(x.targets[0], ast.Subscript) and unparse(x.targets[0].value) == 'keys' for x in body):
            return None
        env = dict(outer)
        out = []
        stored = None      # (text of keys[i], expression stored)

        class S(ast.NodeTransformer):
            def visit_Name(self, n):
                if isinstance(n.ctx, ast.Load) and n.id in env:
                    return ast.copy_location(clone_pos(env[n.id]), n)
                return n

        def sub(e):
            return S().visit(clone_pos(e))
        changed = False
        for st in body:
            if isinstance(st, ast.Assign) and len(st.targets) == 1 and isinstance(st.targets[0], ast.Name) and pure(st.value) \
                    and not any(isinstance(x, ast.Subscript) and unparse(x.value) in ('keys', 'counts') for x in ast.walk(st.value)):
                env[st.targets[0].id] = sub(st.value)
                changed = True
                continue
            if isinstance(st, ast.If) and not st.orelse and len(st.body) == 1 and isinstance(st.body[0], ast.Assign) and len(st.body[0].targets) == 1 \
                    and isinstance(st.body[0].targets[0], ast.Name) and st.body[0].targets[0].id in env and isinstance(st.test, ast.Compare) and len(st.test.ops) == 1:
                v = st.body[0].targets[0].id
                L = st.body[0].value
                t = st.test
                a, b = unparse(t.left), unparse(t.comparators[0])
                if (isinstance(t.ops[0], ast.Gt) and a == v and b == unparse(L)) or (isinstance(t.ops[0], ast.Lt) and b == v and a == unparse(L)):
                    env[v] = ast.copy_location(ast.Call(func=ast.Name(id='min', ctx=ast.Load()), args=[env[v], sub(L)], keywords=[]), st)
                    changed = True
                    continue
            new = S().visit(clone_pos(st)) if not isinstance(st, (ast.For, ast.While)) else st
            if stored is not None:
                ktxt, kexpr = stored

                class K(ast.NodeTransformer):
                    def visit_Subscript(self, n):
                        n = self.generic_visit(n)
                        return n

                    def generic_visit(self, n):
                        n = super().generic_visit(n)
                        return n
                # occurrences of the stored expression in index position read the value just stored
                for x in ast.walk(new):
                    if isinstance(x, ast.Subscript) and unparse(x.value) != 'keys':
                        elts = x.slice.elts if isinstance(x.slice, ast.Tuple) else None
                        if elts is not None:
                            for j, e in enumerate(elts):
                                if unparse(e) == unparse(kexpr) and not isinstance(e, ast.Name):
                                    elts[j] = ast.parse(ktxt, mode='eval').body
                        elif unparse(x.slice) == unparse(kexpr) and not isinstance(x.slice, ast.Name):
                            x.slice = ast.parse(ktxt, mode='eval').body
            if isinstance(new, ast.Assign) and isinstance(new.targets[0], ast.Subscript) and unparse(new.targets[0].value) == 'keys':
                stored = (unparse(new.targets[0]), new.value)
            out.append(new)
        return out if changed else None

    def visit(loop):
        inner = [b for b in loop.body if isinstance(b, ast.For)]
        for b in inner:
            visit(b)
        nb = rewrite(loop.body)
        if nb is not None:
            loop.body = nb
            for st in nb:
                ast.fix_missing_locations(st)
                st._parent = loop
                for n_ in ast.walk(st):
                    for ch in ast.iter_child_nodes(n_):
                        ch._parent = n_
    for lp in [n for n in fn.body if isinstance(n, ast.For)]:
        visit(lp)


def run(chk):
    src = chk.src
    fn = src.func(TSC, Q)
    resolve_key_pass(fn)
    from ..core.srcmodel import exit_to_else
    exit_to_else(fn.body)      # `if weights is not None: ...; return` followed by the unweighted code is the if/else form
    chk.explanation = ('The counting sort of partition_parallel is decided structurally: every store under prange is classified by '
                       'ownership (block-private keys, per-thread histogram rows, private cursors into the output), the histogram '
                       'and the scatter pass use the same block table and keys, the transposed prefix sum is laid out so that cell '
                       '(thread, stripe) starts after all smaller stripes and after smaller threads of its stripe, the stripe '
                       'offsets are copied before the scatter mutates the cursors, weights move with the same cursor and source '
                       'index as positions, the inputs are never stored to, and all subscripts are within bounds (linear-integer '
                       'prover, relative to the documented preconditions).')
    chk.rule('C17-R1', 'histogram pass: keys[i] block-private, counts[t, keys[i]] private to thread row t', 2)
    chk.rule('C17-R2', 'scatter pass: same block table and keys; cursor read from pointers[t,k], incremented exactly once; outputs written at the cursor', 4)
    chk.rule('C17-R3', 'layout: pointers = [0] ++ cumsum(counts.T)[:-1] reshaped (npartition,nthread) and transposed; starts copied before the scatter; starts[-1] = N', 5)
    chk.rule('C17-R4', 'weights follow positions (same cursor, same source row); weighted / unweighted and the sort branches are alpha-equivalent', 3)
    chk.rule('C17-R5', 'key = min(int(x*P/box), P-1) on pos[i, coord]; block table tiles [0,N)', 2)
    chk.rule('C17-R6', 'inputs pos / weights are never stored to; (psort, starts, wsort) returned', 2)
    chk.rule('C17-R7', 'every subscript within bounds under the documented preconditions', 15)
    chk.assume('np.linspace(0,N,T+1).astype(int64) is non-decreasing from 0 to N (block table lemma L3)')
    chk.assume('float32 rounding of keys at exact stripe boundaries not modelled')
    loops = own.prange_loops(fn)
    stores = own.classify_function(fn)
    by_loop = {}
    for s in stores:
        by_loop.setdefault(s.loop, []).append(s)
    hist = [lp for lp in loops if any(s.array == 'counts' for s in by_loop.get(lp, []))]
    scat = [lp for lp in loops if any(s.array == 'psort' and s.cls != 'slice-private' for s in by_loop.get(lp, []))]
    sortl = [lp for lp in loops if any(s.cls == 'slice-private' for s in by_loop.get(lp, []))]
    if len(hist) != 1 or len(scat) < 1:
        raise AnalysisError(f'partition_parallel: histogram/scatter passes not recognised ({len(hist)}, {len(scat)})')
    # ---- R1
    H = hist[0]
    cls = {s.array: s.cls for s in by_loop[H]}
    # the keys may be computed in the same pass or in an earlier pass over the same thread blocks
    keyl = [lp for lp in loops if any(s.array == 'keys' for s in by_loop.get(lp, []))]
    if len(keyl) == 1 and keyl[0] is not H:
        K = keyl[0]
        kcls = {s.array: s.cls for s in by_loop[K]}
        if set(kcls) == {'keys'} and K.lineno < H.lineno and _block_iter(K) == _block_iter(H) and _block_iter(H) is not None \
                and unparse(K.iter) == unparse(H.iter):
            cls = dict(cls, keys=kcls['keys'])
        elif set(kcls) == {'keys'} and K.lineno < H.lineno and _inner_loop(K) is None and kcls['keys'] == 'iteration-private' \
                and unparse(K.iter).replace('numba.', '').replace('nb.', '') in ('prange(len(pos))', 'prange(pos.shape[0])', 'prange(N)') \
                and (unparse(K.iter).endswith('(N)') is False or any(isinstance(x, ast.Assign) and unparse(x) in ('N = len(pos)', 'N = pos.shape[0]') for x in fn.body)) \
                and [unparse(x.targets[0].slice) for x in ast.walk(K) if isinstance(x, ast.Assign) and isinstance(x.targets[0], ast.Subscript)
                     and unparse(x.targets[0].value) == 'keys'] == [K.target.id]:
            # one parallel pass over all particles, each iteration storing the key of its own particle: every slot is written exactly
            # once, by one thread, before the (joined) histogram pass reads it
            cls = dict(cls, keys='block-private')
    ok1 = cls.get('keys') == 'block-private' and cls.get('counts') == 'iteration-private' and set(cls) == {'keys', 'counts'}
    chk.check(ok1, 'C17-R1', TSC, Q, 'histogram stores', f'{cls}', f'histogram pass stores {cls}: a shared histogram row or key slot races', node=H, nf=cls)
    cst = [s for s in by_loop[H] if s.array == 'counts']
    okinc = len(cst) == 1 and isinstance(getattr(cst[0].node, '_parent', None), ast.AugAssign) and _idx(cst[0].node) == [H.target.id, f'keys[{_inner(H)}]']
    chk.check(okinc, 'C17-R1', TSC, Q, 'counts[t, keys[i]] += 1 for the key just computed', '',
              f'histogram increment is {unparse(cst[0].node) if cst else None}', node=H)
    # ---- R2
    for n, S in enumerate(scat):
        cls = {s.array: s.cls for s in by_loop[S]}
        want = {'psort': 'cursor-private', 'pointers': 'iteration-private'}
        hasw = 'wsort' in cls
        if hasw:
            want['wsort'] = 'cursor-private'
        chk.check(cls == want, 'C17-R2', TSC, Q, f'scatter pass {n + 1} stores', f'{cls}', f'scatter stores {cls} (need {want})', node=S, nf=cls)
        same_blocks = _block_iter(S) == _block_iter(H) and _block_iter(H) is not None
        t, i = S.target.id, _inner(S)
        body = _inner_loop(S).body if _inner_loop(S) else []
        txt = [unparse(b) for b in body]
        kdef = [b for b in body if isinstance(b, ast.Assign) and unparse(b.value) == f'keys[{i}]']
        kname = kdef[0].targets[0].id if kdef else None
        sdef = [b for b in body if isinstance(b, ast.Assign) and kname and unparse(b.value) == f'pointers[{t}, {kname}]']
        sname = sdef[0].targets[0].id if sdef else None
        incs = [b for b in body if isinstance(b, ast.AugAssign) and kname and unparse(b.target) == f'pointers[{t}, {kname}]'
                and isinstance(b.op, ast.Add) and unparse(b.value) == '1']
        # fetch-then-advance: s = pointers[t, k]; pointers[t, k] = s + 1
        incs += [b for b in body if isinstance(b, ast.Assign) and kname and sname and unparse(b.targets[0]) == f'pointers[{t}, {kname}]'
                 and unparse(b.value).replace(' ', '') in (f'{sname}+1', f'1+{sname}')]
        order = bool(sdef and incs) and body.index(sdef[0]) < body.index(incs[0])
        chk.check(same_blocks and kname and sname and len(incs) == 1 and order, 'C17-R2', TSC, Q, f'scatter pass {n + 1} cursor discipline',
                  f'k={kname}=keys[{i}]; s={sname}=pointers[{t},{kname}]; one increment after the read; blocks {_block_iter(S)}',
                  f'blocks same={same_blocks}; key read={bool(kdef)}; cursor read={bool(sdef)}; increments={len(incs)}; read-before-increment={order}', node=S)
        # R4 weights follow positions
        pst = [b for b in ast.walk(ast.Module(body=body, type_ignores=[])) if isinstance(b, ast.Assign) and isinstance(b.targets[0], ast.Subscript)
               and unparse(b.targets[0].value) == 'psort']
        okp = len(pst) == 1 and sname and isinstance(pst[0].value, ast.Subscript) and unparse(pst[0].value.value) == 'pos' and \
            len(_idx(pst[0].targets[0])) == 2 and _idx(pst[0].targets[0])[0] == sname and _idx(pst[0].value) == [i, _idx(pst[0].targets[0])[1]]
        okw = True
        if hasw:
            wst = [b for b in body if isinstance(b, ast.Assign) and unparse(b.targets[0]) == f'wsort[{sname}]']
            okw = len(wst) == 1 and unparse(wst[0].value) == f'weights[{i}]'
        jl = [b for b in body if isinstance(b, ast.For)]
        okj = len(jl) == 1 and unparse(jl[0].iter) == 'range(3)'
        if not jl and len(pst) == 1 and sname:
            # whole-row form  psort[s, :] = pos[i, :]  (or psort[s] = pos[i]): all components of the row travel together
            ti, vi = _idx(pst[0].targets[0]), (_idx(pst[0].value) if isinstance(pst[0].value, ast.Subscript) else [])
            if ti in ([sname, ':'], [sname]) and vi in ([i, ':'], [i]) and len(ti) == len(vi) and unparse(pst[0].value.value) == 'pos':
                okp = okj = True
        chk.check(okp and okw and okj, 'C17-R4', TSC, Q, f'scatter pass {n + 1}: psort[s,j] = pos[i,j]' + (', wsort[s] = weights[i]' if hasw else ''),
                  '', f'position copy ok={okp} (3 components={okj}); weight copy ok={okw}: weights would not travel with their particle', node=S)
    if len(scat) == 2:
        a, b = scat
        def _canon_copy(st):
            # the position copy is checked on its own (R4 above) in either form: loop over 3 components or whole row
            u = unparse(st)
            if u.startswith('psort[') or (isinstance(st, ast.For) and 'psort[' in u and unparse(st.iter) == 'range(3)'):
                return 'POSITION-COPY'
            return norm(ast.parse(u))
        na = [_canon_copy(s) for s in _inner_loop(a).body if 'wsort' not in unparse(s)]
        nb = [_canon_copy(s) for s in _inner_loop(b).body if 'wsort' not in unparse(s)]
        chk.check(na == nb and unparse(a.iter) == unparse(b.iter), 'C17-R4', TSC, Q, 'weighted and unweighted scatter agree', '',
                  'the two scatter branches differ beyond the weight copy', node=b)
    # sort branches
    for n, S in enumerate(sortl):
        txt = [unparse(b) for b in walk_no_nested(S) if isinstance(b, ast.stmt) and b is not S]
        i = S.target.id
        pok = f'part = psort[starts[{i}]:starts[{i} + 1]]' in txt and 'iord = part[:, coord].argsort()' in txt and 'part[:] = part[iord]' in txt
        # is this loop executed when weights are given?  (its position relative to `if weights is not None`)
        weighted = True
        p_ = getattr(S, '_parent', None)
        ch = S
        while p_ is not None and p_ is not fn:
            if isinstance(p_, ast.If) and unparse(p_.test) in ('weights is not None', 'weights is None'):
                in_body = ch in p_.body
                weighted = in_body if unparse(p_.test) == 'weights is not None' else not in_body
            ch, p_ = p_, getattr(p_, '_parent', None)
        wlines = [b for b in walk_no_nested(S) if isinstance(b, ast.stmt) and b is not S and 'wsort' in unparse(b) and not isinstance(b, ast.If)]
        wok = True
        if weighted:
            wok = f'weightspart = wsort[starts[{i}]:starts[{i} + 1]]' in txt and 'weightspart[:] = weightspart[iord]' in txt
            # the weight permutation may sit under `if weights is not None:` inside the loop, nothing else
            for b in wlines:
                g = getattr(b, '_parent', None)
                if g is not S and not (isinstance(g, ast.If) and unparse(g.test) == 'weights is not None' and b in g.body and getattr(g, '_parent', None) is S):
                    wok = False
        elif wlines:
            wok = False
        rng = unparse(S.iter).endswith('prange(npartition)')
        chk.check(pok and wok and rng, 'C17-R4', TSC, Q, f'sort branch {n + 1}: stripe and its weights permuted by the same order', '',
                  f'sort branch (runs with weights={weighted}): positions ok={pok}, weights ok={wok}, over all stripes={rng}', node=S, nontrivial=False)
    from ..core.srcmodel import early_exits
    ex = [e for lp in loops for e in early_exits(lp)] + [e for lp in loops for il in [_inner_loop(lp)] if il is not None for e in early_exits(il)]
    chk.check(not ex, 'C17-R2', TSC, Q, 'no particle is skipped: no continue/break/return inside the passes', '',
              f'{type(ex[0]).__name__.lower() if ex else ""} at line {ex[0].lineno if ex else 0}: a particle can leave a pass without being counted / moved', node=ex[0] if ex else fn, nontrivial=False)
    layout(chk, fn, H, scat)
    # ---- R5
    c07_like_key(chk, fn)
    # ---- R6
    pst = [n for n in walk_no_nested(fn) if isinstance(n, ast.Subscript) and isinstance(n.ctx, ast.Store) and isinstance(n.value, ast.Name)
           and n.value.id in ('pos', 'weights')]
    rb = [n for n in walk_no_nested(fn) if isinstance(n, ast.Name) and isinstance(n.ctx, ast.Store) and n.id in ('pos', 'weights')]
    inplace = [n for n in walk_no_nested(fn) if isinstance(n, ast.Call) and isinstance(n.func, ast.Attribute) and n.func.attr in ('sort', 'fill', 'resize')
               and unparse(n.func.value) in ('pos', 'weights')]
    chk.check(not pst and not rb and not inplace, 'C17-R6', TSC, Q, 'input left unmodified', '',
              f'stores into the input arrays: {[unparse(x) for x in pst + inplace][:3]}', node=(pst + inplace + [fn])[0])
    rets = [n for n in walk_no_nested(fn) if isinstance(n, ast.Return)]
    def _ret_ok(r):
        if unparse(r.value) == '(psort, starts, wsort)':
            return True
        # on the path without weights the third component may be spelled None
        if unparse(r.value) == '(psort, starts, None)':
            p_, ch = getattr(r, '_parent', None), r
            while p_ is not None and p_ is not fn:
                if isinstance(p_, ast.If) and ((unparse(p_.test) == 'weights is not None' and ch in p_.orelse) or (unparse(p_.test) == 'weights is None' and ch in p_.body)):
                    return True
                ch, p_ = p_, getattr(p_, '_parent', None)
        return False
    chk.check(len(rets) >= 1 and all(_ret_ok(r) for r in rets), 'C17-R6', TSC, Q, 'returns (psort, starts, wsort)', '',
              f'returns {[unparse(r.value) for r in rets]}', node=rets[0] if rets else fn)
    # ---- R6: the outputs have the element type of their inputs (a buffer of another type silently casts every value)
    for out, inp in (('psort', 'pos'), ('wsort', 'weights')):
        allocs = [n for n in walk_no_nested(fn) if isinstance(n, ast.Assign) and len(n.targets) == 1 and unparse(n.targets[0]) == out
                  and not (isinstance(n.value, ast.Constant) and n.value.value is None)]
        for a in allocs:
            v = a.value
            cn = dotted(v.func) if isinstance(v, ast.Call) else None
            ok = False
            if cn in ('np.empty_like', 'np.zeros_like') and v.args and unparse(v.args[0]) == inp and not any(k.arg == 'dtype' for k in v.keywords):
                ok = True
            elif cn in ('np.empty', 'np.zeros'):
                dt = [k.value for k in v.keywords if k.arg == 'dtype'] or list(v.args[1:2])
                ok = bool(dt) and unparse(dt[0]) == f'{inp}.dtype'
            chk.check(ok, 'C17-R6', TSC, Q, f'{out} has the element type of {inp}', unparse(v)[:60],
                      f'{out} = {unparse(v)[:80]}: not allocated with the dtype of {inp}, so every {inp} value is cast on the way out (rounded or truncated when the types differ)',
                      node=a)
        if not allocs:
            chk.refuted('C17-R6', TSC, Q, f'{out} has the element type of {inp}', f'no allocation of {out} found', node=fn)
    # ---- R7 bounds
    from ..core.kernels import add_bounds_obligations
    add_bounds_obligations(chk, 'C17-R7', TSC, Q, CONTRACTS)


def _idx(sub):
    sl = sub.slice
    return [unparse(e) for e in (sl.elts if isinstance(sl, ast.Tuple) else [sl])]


def _inner_loop(lp):
    for b in lp.body:
        if isinstance(b, ast.For):
            return b
    return None


def _inner(lp):
    il = _inner_loop(lp)
    return il.target.id if il is not None and isinstance(il.target, ast.Name) else None


def _block_iter(lp):
    il = _inner_loop(lp)
    if il is None:
        return None
    return (unparse(lp.iter), unparse(il.iter).replace(lp.target.id, '@'))


def layout(chk, fn, H, scat):
    body = fn.body
    txt = {unparse(s): s for s in walk_no_nested(fn) if isinstance(s, ast.stmt)}

    def find(pred):
        return [s for s in walk_no_nested(fn) if isinstance(s, ast.Assign) and pred(s)]
    cal = find(lambda s: unparse(s.targets[0]) == 'counts')
    shape = None
    if len(cal) == 1 and isinstance(cal[0].value, ast.Call) and cal[0].value.args and isinstance(cal[0].value.args[0], ast.Tuple):
        shape = [unparse(e) for e in cal[0].value.args[0].elts]
        zero = dotted(cal[0].value.func) == 'np.zeros'
    chk.check(shape == ['nthread', 'npartition'] and zero, 'C17-R3', 'abacusnbody/analysis/tsc.py', Q, 'counts = zeros((nthread, npartition))', f'{shape}',
              f'histogram allocated as {unparse(cal[0].value) if cal else None}: must be zero-initialised with one row per thread', node=cal[0] if cal else fn)
    p0 = find(lambda s: unparse(s.targets[0]) == 'pointers[0]')
    p1 = find(lambda s: unparse(s.targets[0]) == 'pointers[1:]')
    pa = find(lambda s: unparse(s.targets[0]) == 'pointers' and 'np.empty' in unparse(s.value))
    pr = find(lambda s: unparse(s.targets[0]) == 'pointers' and 'reshape' in unparse(s.value))
    ok_alloc = len(pa) == 1 and unparse(pa[0].value.args[0]) in ('nthread * npartition', 'npartition * nthread')
    ok0 = len(p0) == 1 and unparse(p0[0].value) == '0'
    ok1 = len(p1) == 1 and unparse(p1[0].value) == 'np.cumsum(counts.T)[:-1]'
    # the same exclusive prefix sum as `inclusive sum minus own count`:  pointers = np.cumsum(C) - C.ravel()  with C = counts.T
    from ..core.srcmodel import single_defs, expand_names
    if not p1 and not pa:
        sd_ = {k_: v_ for k_, v_ in single_defs(fn).items() if isinstance(v_, (ast.Attribute, ast.Name))}      # plain aliases (counts_pt = counts.T)
        for cand in find(lambda s: unparse(s.targets[0]) == 'pointers' and isinstance(s.value, ast.BinOp) and isinstance(s.value.op, ast.Sub)):
            l_, r_ = expand_names(cand.value.left, sd_), expand_names(cand.value.right, sd_)
            flat = None
            if isinstance(r_, ast.Call) and isinstance(r_.func, ast.Attribute) and r_.func.attr in ('ravel', 'flatten') and not r_.args and not r_.keywords:
                flat = unparse(r_.func.value)
            elif isinstance(r_, ast.Call) and isinstance(r_.func, ast.Attribute) and r_.func.attr == 'reshape' and [unparse(a) for a in r_.args] == ['-1'] and not r_.keywords:
                flat = unparse(r_.func.value)
            elif isinstance(r_, ast.Call) and dotted(r_.func) == 'np.ravel' and len(r_.args) == 1 and not r_.keywords:
                flat = unparse(r_.args[0])
            if unparse(l_) == 'np.cumsum(counts.T)' and flat == 'counts.T':
                ok_alloc = ok0 = ok1 = True
                p1 = [cand]
    loopform = _prefix_loop(fn)
    if loopform is not None and not p1 and not pr:
        ok_l, why_l, node_l = loopform
        chk.check(ok_l, 'C17-R3', 'abacusnbody/analysis/tsc.py', Q, 'exclusive prefix sum in stripe-major order', 'explicit accumulator loop: stripes outer, threads inner',
                  f'prefix loop: {why_l}: cell (t,k) must start after all smaller stripes, then smaller threads', node=node_l)
        chk.proven('C17-R3', 'abacusnbody/analysis/tsc.py', Q, 'reshape (npartition, nthread) then transpose pairs with counts.T', 'not needed: pointers is filled cell by cell as (nthread, npartition)', node=node_l)
        pr = [node_l]
        skip_vector = True
    else:
        skip_vector = False
    if not skip_vector:
      chk.check(ok_alloc and ok0 and ok1, 'C17-R3', 'abacusnbody/analysis/tsc.py', Q, 'exclusive prefix sum in stripe-major order',
                'pointers = [0] ++ cumsum(counts.T)[:-1]',
                f'alloc ok={ok_alloc}, first element 0={ok0}, prefix = {unparse(p1[0].value) if p1 else None}: cell (t,k) must start after all smaller stripes, then smaller threads',
                node=(p1 or p0 or pa or [fn])[0])
      okr = False
      if len(pr) == 1 and shape:
        v = unparse(pr[0].value)
        okr = v in (f'np.ascontiguousarray(pointers.reshape({shape[1]}, {shape[0]}).T)', f'pointers.reshape({shape[1]}, {shape[0]}).T',
                    f'np.ascontiguousarray(pointers.reshape(({shape[1]}, {shape[0]})).T)')
      chk.check(okr, 'C17-R3', 'abacusnbody/analysis/tsc.py', Q, 'reshape (npartition, nthread) then transpose pairs with counts.T', '',
                f'pointers relaid as {unparse(pr[0].value) if pr else None}: does not undo the flatten order of counts.T', node=(pr or [fn])[0])
    s0 = find(lambda s: unparse(s.targets[0]) == 'starts[:-1]')
    s1 = find(lambda s: unparse(s.targets[0]) == 'starts[-1]')
    sa = find(lambda s: unparse(s.targets[0]) == 'starts' and 'np.empty' in unparse(s.value))
    before = bool(s0) and all(s0[0].lineno < lp.lineno for lp in scat) and bool(pr) and s0[0].lineno > pr[0].lineno
    oks = len(s0) == 1 and unparse(s0[0].value) == 'pointers[0]' and len(s1) == 1 and unparse(s1[0].value) == 'len(pos)' and \
        len(sa) == 1 and unparse(sa[0].value.args[0]) == 'npartition + 1'
    chk.check(oks and before, 'C17-R3', 'abacusnbody/analysis/tsc.py', Q, 'starts = copy of thread-0 cursors taken before the scatter, closed by N',
              '', f'starts construction ok={oks}; copied after the relayout and before the scatter mutates pointers={before}', node=(s0 or [fn])[0])
    # each pass covers the particles exactly once: block table
    ts = find(lambda s: unparse(s.targets[0]) == 'tstart')
    okt = len(ts) == 1 and unparse(ts[0].value) in ('np.linspace(0, len(pos), nthread + 1).astype(np.int64)',)
    okl = unparse(H.iter).endswith('prange(nthread)') and all(unparse(S.iter).endswith('prange(nthread)') for S in scat)
    chk.check(okt and okl, 'C17-R5', 'abacusnbody/analysis/tsc.py', Q, 'block table linspace(0, N, nthread+1) tiles [0,N) over prange(nthread)', '',
              f'tstart = {unparse(ts[0].value) if ts else None}; loops over prange(nthread)={okl}: particles would be skipped or keyed twice', node=(ts or [fn])[0])
    sets = [n for n in walk_no_nested(fn) if isinstance(n, ast.Call) and dotted(n.func).endswith('set_num_threads')]
    chk.check(len(sets) == 1 and unparse(sets[0].args[0]) == 'nthread', 'C17-R3', 'abacusnbody/analysis/tsc.py', Q, 'thread pool set to nthread', '',
              'numba.set_num_threads(nthread) missing: more running threads than histogram rows', node=fn, nontrivial=False)


def c07_like_key(chk, fn):
    from ..core.poly import Poly
    from ..core.bitpoly import BPEval, NotInDomain, to_poly
    keyst = [n for n in walk_no_nested(fn) if isinstance(n, ast.Assign) and isinstance(n.targets[0], ast.Subscript)
             and isinstance(n.targets[0].value, ast.Name) and n.targets[0].value.id == 'keys']
    ok, detail = False, ''
    if len(keyst) == 1 and isinstance(keyst[0].value, ast.Call) and dotted(keyst[0].value.func) == 'min' and len(keyst[0].value.args) == 2:
        a0, a1 = keyst[0].value.args
        env = {}
        for s in fn.body:
            if isinstance(s, ast.Assign) and isinstance(s.targets[0], ast.Name):
                try:
                    env[s.targets[0].id] = BPEval(env, None, ('dtype',)).ev(s.value)
                except NotInDomain:
                    pass
        il = None
        for lp in own.prange_loops(fn):
            if any(keyst[0] is x for x in ast.walk(lp)):
                il = _inner(lp) or (lp.target.id if isinstance(lp.target, ast.Name) else None)

        def inp(node):
            if isinstance(node, ast.Subscript) and unparse(node) == f'pos[{il}, coord]':
                return Poly.sym('x')
            return None
        try:
            inner = a0.args[0] if isinstance(a0, ast.Call) and len(a0.args) == 1 else a0
            iscast = isinstance(a0, ast.Call) and dotted(a0.func) in ('np.int32', 'np.int64', 'int')
            p0 = to_poly(BPEval(env, inp, ('dtype',)).ev(inner))
            p1 = to_poly(BPEval(env, inp, ('dtype',)).ev(a1))
            ok = iscast and p0 == Poly.sym('x') * Poly.sym('npartition') / Poly.sym('boxsize') and p1 == Poly.sym('npartition') - 1 \
                and unparse(keyst[0].targets[0].slice) == il
            detail = f'keys[{il}] = min(int({p0}), {p1})'
        except NotInDomain as e:
            detail = str(e)
    chk.check(ok, 'C17-R5', 'abacusnbody/analysis/tsc.py', Q, 'stripe key', detail,
              f'{detail or (unparse(keyst[0]) if keyst else None)}: stripe s must hold floor(x*P/box) == s with the last stripe closed above', node=keyst[0] if keyst else fn)
    # floating-point discipline of the key: floor of x*P/box evaluated as (x * P) / box in double precision.  A factor P/box
    # rounded beforehand (to the dtype of pos) misfiles particles that lie exactly on a stripe boundary (x=1500, box=2000, P=36:
    # all exact, 27 expected, 26 obtained); fastmath licenses the compiler to turn the division back into such a multiplication.
    if ok:
        defs = {}
        for s_ in fn.body:
            if isinstance(s_, ast.Assign) and len(s_.targets) == 1 and isinstance(s_.targets[0], ast.Name):
                defs.setdefault(s_.targets[0].id, []).append(s_.value)

        class Inl(ast.NodeTransformer):
            def visit_Name(self, n):
                if isinstance(n.ctx, ast.Load) and len(defs.get(n.id, [])) == 1 and n.id not in ('dtype', 'npartition', 'boxsize', 'coord', 'nthread'):
                    from ..core.srcmodel import clone
                    return self.visit(clone(defs[n.id][0]))
                return n
        from ..core.srcmodel import clone
        e = Inl().visit(clone(inner))
        narrow = [c for c in ast.walk(e) if isinstance(c, ast.Call) and dotted(c.func) in ('dtype', 'np.float32', 'np.float16', 'np.single')]

        def strip(x):
            while isinstance(x, ast.Call) and dotted(x.func) in ('np.float64', 'float') and len(x.args) == 1:
                x = x.args[0]
            return x
        e0 = strip(e)
        shape = isinstance(e0, ast.BinOp) and isinstance(e0.op, ast.Div) and unparse(e0.right) == 'boxsize' and isinstance(strip(e0.left), ast.BinOp) \
            and isinstance(strip(e0.left).op, ast.Mult) and 'npartition' in {unparse(strip(strip(e0.left).left)), unparse(strip(strip(e0.left).right))}
        wide = any(isinstance(c, ast.Call) and dotted(c.func) in ('np.float64', 'float') for c in ast.walk(e))
        fm = [d for d in fn.decorator_list if isinstance(d, ast.Call) and any(k.arg == 'fastmath' and not (isinstance(k.value, ast.Constant) and k.value.value is False) for k in d.keywords)]
        chk.check(not narrow and shape and wide and not fm, 'C17-R5', 'abacusnbody/analysis/tsc.py', Q,
                  'the key is floor((float64(x) * P) / box): one correctly rounded division, no pre-rounded factor, no fastmath', unparse(e)[:70],
                  f'key argument {unparse(e)[:80]}: ' + ('contains a factor rounded to the working precision; ' if narrow else '') +
                  ('' if shape else 'is not (x * npartition) / boxsize; ') + ('' if wide else 'is not evaluated in float64; ') +
                  ('the kernel is compiled with fastmath, which may replace the division by a multiplication with a rounded reciprocal; ' if fm else '') +
                  'a particle exactly on a stripe boundary (x=1500, box=2000, P=36) is filed one stripe too low', node=keyst[0], nontrivial=False)


def _prefix_loop(fn):
    """Accumulator form of the stripe-major exclusive prefix sum:
         acc = 0;  for k in range(npartition): for t in range(nthread): pointers[t, k] = acc; acc += counts[t, k]
    Returns (ok, why, node) when such a nest exists (ok False when it exists but is not the required order), else None."""
    for s in fn.body:
        if not (isinstance(s, ast.For) and isinstance(s.target, ast.Name) and len(s.body) == 1 and isinstance(s.body[0], ast.For)
                and isinstance(s.body[0].target, ast.Name)):
            continue
        outer, inner = s, s.body[0]
        stores = [b for b in inner.body if isinstance(b, ast.Assign) and isinstance(b.targets[0], ast.Subscript) and unparse(b.targets[0].value) == 'pointers']
        if not stores:
            continue
        k, t = outer.target.id, inner.target.id
        why = []
        if unparse(outer.iter) != 'range(npartition)' or unparse(inner.iter) != 'range(nthread)':
            why.append(f'loops are {unparse(outer.iter)} (outer) / {unparse(inner.iter)} (inner), need stripes outer and threads inner')
        body = inner.body
        okb = len(body) == 2 and len(stores) == 1 and body[0] is stores[0] and _idx(stores[0].targets[0]) == [t, k] and isinstance(stores[0].value, ast.Name)
        acc = stores[0].value.id if okb else None
        okb = okb and isinstance(body[1], ast.AugAssign) and isinstance(body[1].op, ast.Add) and unparse(body[1].target) == acc and unparse(body[1].value) == f'counts[{t}, {k}]'
        if not okb:
            why.append(f'loop body is {[unparse(b) for b in body]}, need pointers[t, k] = acc; acc += counts[t, k]')
        init = [x for x in fn.body if isinstance(x, ast.Assign) and acc and unparse(x.targets[0]) == acc and x.lineno < outer.lineno]
        if acc and not (init and unparse(init[-1].value) in ('0', 'np.int64(0)', 'np.uint64(0)')):
            why.append(f'accumulator {acc} does not start at 0')
        al = [x for x in fn.body if isinstance(x, ast.Assign) and unparse(x.targets[0]) == 'pointers' and isinstance(x.value, ast.Call) and x.lineno < outer.lineno]
        if not (al and al[-1].value.args and unparse(al[-1].value.args[0]) == '(nthread, npartition)'):
            why.append('pointers is not allocated as (nthread, npartition)')
        others = [x for x in walk_no_nested(fn) if isinstance(x, (ast.Assign, ast.AugAssign)) and acc and acc in [n.id for n in ast.walk(x) if isinstance(n, ast.Name) and isinstance(n.ctx, ast.Store)]
                  and x not in (init[-1:] + [body[1]] if okb else [])]
        if others:
            why.append(f'{acc} is also written at line {others[0].lineno}')
        return (not why, '; '.join(why), outer)
    return None
