"""C03 -- superslab concatenation and filter_func commute with loading (bookkeeping clauses)."""
import ast

from ..core.srcmodel import dotted, unparse, walk_no_nested, AnalysisError, names_in, stores_in, norm
from ..core.kernels import analyse
from ..spec.contracts import CONTRACTS

CAT = 'abacusnbody/data/compaso_halo_catalog.py'
UTIL = 'abacusnbody/util.py'
FILES = [CAT, UTIL]
# functions the generic rules (history independence, caller-owned containers, element types) look at in addition to those the
# rules below are about: the option parsing every load goes through (the same selection object is typically reused across the loads
# that the property compares)
EXTRA_SCOPE = {CAT: ['CompaSOHaloCatalog._setup_load_subsamples', 'CompaSOHaloCatalog._setup_unpack_bits']}
CLS = 'CompaSOHaloCatalog.'


def conj(test):
    """Normalised set of conjuncts of a boolean guard."""
    if isinstance(test, ast.BoolOp) and isinstance(test.op, ast.And):
        out = set()
        for v in test.values:
            out |= conj(v)
        return out
    return {unparse(test)}


def run(chk):
    src = chk.src
    fn = src.func(CAT, CLS + '_read_halo_info')
    init = src.func(CAT, CLS + '__init__')
    chk.explanation = ('Decided are the bookkeeping clauses that make concatenation and filtering commute with loading: each file is '
                       'unpacked into the slot [N_written : N_written + len(raw)] of the shared table, a filter compacts the kept rows to '
                       'the front of the slot and the same kept-count advances N_written and is recorded per file, the table is truncated '
                       'to N_written, and the per-file counts returned are the ones that select each file\'s halos for its particle file; '
                       'file order is preserved from the path list to every per-file loop; duplicate and mixed-catalog inputs raise; the '
                       'filter sees N exactly when the final rename happens (guard equivalence); the empty result is safe (cumsum, C19).')
    chk.rule('C03-R1', 'compaction bookkeeping: slot, halos[:n] = halos[mask], the same n advances N_written and is stored per file on every path; truncation; counts flow to _load_subsamples', 7)
    chk.rule('C03-R2', 'file order preserved: sorted glob or user order; files, cleaning files, superslab indices and particle files indexed by one position', 5)
    chk.rule('C03-R3', 'duplicate paths and mixed catalogs are rejected with an error', 2)
    chk.rule('C03-R4', 'the filter sees the cleaned count as N exactly when the final rename N_total -> N happens', 2)
    chk.rule('C03-R5', 'a filter that keeps nothing is safe: cumulative sums over empty per-halo arrays stay in bounds', 1)
    chk.rule('C03-R6', 'every superslab\'s particle files are zipped with the rows the per-file counts select, whatever the filter kept: no data-dependent '
                       'path through the per-file loop of _load_subsamples skips or alters the kernel call (obligations C01-R3/R4)', 5)
    chk.assume('astropy slicing/assignment semantics (a slice of a Table is a view; halos[:n] = halos[mask] copies rows in order)')
    from . import c01
    chk.import_from(c01.run, 'C01', ('C01-R3', 'C01-R4'), 'C03-R6')
    loops = [s for s in fn.body if isinstance(s, ast.For) and 'enumerate(afs)' in unparse(s.iter)]
    if len(loops) != 1:
        raise AnalysisError('_read_halo_info: per-file loop not found')
    L = loops[0]
    iv = L.target.elts[0].id
    body = L.body
    # slot
    slot = [s for s in body if isinstance(s, ast.Assign) and unparse(s.targets[0]) == 'halos']
    okslot = len(slot) == 1 and unparse(slot[0].value) == 'self.halos[N_written:N_written + len(rawhalos)]'
    chk.check(okslot, 'C03-R1', CAT, CLS + '_read_halo_info', 'file slot = self.halos[N_written : N_written + len(rawhalos)]', '',
              f'slot is {unparse(slot[0].value) if slot else None}: files would overwrite each other or leave gaps', node=slot[0] if slot else L)
    # filter branch
    # `if not self.filter_func: <unfiltered> else: <filtered>` is the same decision with the arms exchanged
    for s in body:
        if isinstance(s, ast.If) and unparse(s.test) == 'not self.filter_func' and s.orelse:
            s.test = s.test.operand
            s.body, s.orelse = s.orelse, s.body
    fb = [s for s in body if isinstance(s, ast.If) and unparse(s.test) == 'self.filter_func']
    if len(fb) != 1:
        raise AnalysisError('_read_halo_info: filter branch not found')
    FB = fb[0]
    tb = {unparse(s.targets[0]): s for s in FB.body if isinstance(s, ast.Assign)}
    # the mask is the local bound (once) to the filter's result, whatever its name
    mnames = [k for k, s in tb.items() if unparse(s.value) == 'self.filter_func(halos)' and isinstance(s.targets[0], ast.Name)]
    MASK = mnames[0] if len(mnames) == 1 and sum(1 for n_ in ast.walk(FB) if isinstance(n_, ast.Name) and n_.id == mnames[0] and isinstance(n_.ctx, ast.Store)) == 1 else 'mask'
    mask_ok = MASK in tb and unparse(tb[MASK].value) == 'self.filter_func(halos)'
    nname = None
    for k, s in tb.items():
        if unparse(s.value) == f'{MASK}.sum()':
            nname = k
    from ..core.idioms import compaction, offsets_table
    comp = [s for s in FB.body if (isinstance(s, ast.Assign) and isinstance(s.targets[0], ast.Subscript) and unparse(s.targets[0].value) == 'halos') or isinstance(s, ast.For)]
    okcomp = mask_ok and nname is not None and compaction(FB.body, 'halos', MASK, nname)
    chk.check(okcomp, 'C03-R1', CAT, CLS + '_read_halo_info', 'kept rows compacted to the front of the slot: halos[:n] = halos[mask], n = mask.sum()', f'n = {nname}',
              f'compaction is {unparse(comp[0]) if comp else None} with n = {nname}: kept rows would not be exactly the masked rows in order', node=comp[0] if comp else FB)
    # the per-file count variable
    adv = [s for s in body if isinstance(s, ast.AugAssign) and unparse(s.target) == 'N_written' and isinstance(s.op, ast.Add)]
    rec = [s for s in body if isinstance(s, ast.Assign) and unparse(s.targets[0]) == f'N_halo_per_file[{iv}]']
    okadv = len(adv) == 1 and len(rec) == 1 and unparse(adv[0].value) == unparse(rec[0].value)
    cnt = unparse(adv[0].value) if adv else None
    t_def = [unparse(s.value) for s in FB.body if isinstance(s, ast.Assign) and unparse(s.targets[0]) == cnt]
    f_def = [unparse(s.value) for s in FB.orelse if isinstance(s, ast.Assign) and unparse(s.targets[0]) == cnt]
    if not f_def and adv:
        # no else branch: the unfiltered count is the last value bound before the filter branch
        pre = [unparse(s.value) for s in body[:body.index(FB)] if isinstance(s, ast.Assign) and unparse(s.targets[0]) == cnt]
        f_def = pre[-1:]
    okcnt = okadv and (t_def == [nname] or (cnt == nname and t_def == [f'{MASK}.sum()'])) and f_def == ['len(halos)']
    chk.check(okcnt, 'C03-R1', CAT, CLS + '_read_halo_info', 'one kept-count advances N_written and is recorded for the file', f'{cnt}: filter -> {t_def}, no filter -> {f_def}',
              f'N_written += {cnt}; N_halo_per_file[{iv}] = {unparse(rec[0].value) if rec else None}; {cnt} = {t_def} / {f_def}: row ranges and per-file counts disagree', node=adv[0] if adv else L)
    okord = okadv and body.index(FB) < body.index(adv[0]) and body.index(slot[0]) < body.index(FB) if slot and adv else False
    loaded = [s for s in body if isinstance(s, ast.For) and '_load_halo_field' in unparse(s)]
    okord = okord and bool(loaded) and body.index(loaded[0]) < body.index(FB)
    chk.check(okord, 'C03-R1', CAT, CLS + '_read_halo_info', 'order: slot, unpack fields, filter, advance', '', 'the filter runs before the columns are unpacked, or the counter advances before the filter', node=L, nontrivial=False)
    # must-pass-through: no early exit of the per-file iteration can skip the bookkeeping
    exits = []
    for n in walk_no_nested(L):
        if isinstance(n, (ast.Continue, ast.Break, ast.Return)):
            p = getattr(n, '_parent', None)
            while p is not None and not isinstance(p, (ast.For, ast.While)):
                p = getattr(p, '_parent', None)
            if p is L:
                exits.append(n)
    chk.check(not exits, 'C03-R1', CAT, CLS + '_read_halo_info', 'every iteration of the per-file loop reaches the count bookkeeping (no continue/break/return)', '',
              f'{type(exits[0]).__name__.lower() if exits else ""} at line {exits[0].lineno if exits else 0} leaves the per-file iteration before N_written / N_halo_per_file are updated: '
              'a file that takes this path keeps its pre-filter count and later files\' halos are paired with the wrong particle file', node=exits[0] if exits else L)
    init0 = [s for s in fn.body if isinstance(s, ast.Assign) and unparse(s.targets[0]) == 'N_written' and unparse(s.value) == '0']
    trunc = [s for s in fn.body if isinstance(s, ast.Assign) and unparse(s.targets[0]) == 'self.halos' and unparse(s.value) == 'self.halos[:N_written]']
    oktr = len(init0) == 1 and init0[0].lineno < L.lineno and len(trunc) == 1 and trunc[0].lineno > L.end_lineno
    chk.check(oktr, 'C03-R1', CAT, CLS + '_read_halo_info', 'N_written starts at 0; table truncated to N_written after the loop', '',
              'the shared table is not truncated to the rows actually kept', node=trunc[0] if trunc else fn)
    rets = [n for n in walk_no_nested(fn) if isinstance(n, ast.Return)]
    okret = len(rets) == 1 and unparse(rets[0].value) == 'N_halo_per_file'
    nh = [s for s in fn.body if isinstance(s, ast.Assign) and unparse(s.targets[0]) == 'N_halo_per_file']
    okret = okret and len(nh) == 1 and 'for af in afs' in unparse(nh[0].value)
    # flows to _load_subsamples
    asg = [n for n in walk_no_nested(init) if isinstance(n, ast.Assign) and isinstance(n.value, ast.Call) and unparse(n.value.func) == 'self._read_halo_info']
    call = [n for n in walk_no_nested(init) if isinstance(n, ast.Call) and unparse(n.func) == 'self._load_subsamples']
    okflow = len(asg) == 1 and len(call) == 1 and call[0].args and unparse(call[0].args[0]) == unparse(asg[0].targets[0]) and \
        unparse(asg[0].value.args[0]) == 'self.halo_fns'
    chk.check(okret and okflow, 'C03-R1', CAT, CLS + '__init__', 'post-filter per-file counts are what _load_subsamples receives', '',
              'the per-file halo counts used to split halos among particle files are not the post-filter counts', node=call[0] if call else init)
    ls = src.func(CAT, CLS + '_load_subsamples')
    txt = [unparse(s) for s in walk_no_nested(ls) if isinstance(s, ast.stmt)]
    okoff = offsets_table(ls, 'halo_file_offsets', 'N_halo_per_file') or c01.STATE.get('cursor_ok', False)       # or the running-cursor form recognised by C01-R3
    chk.check(okoff, 'C03-R1', CAT, CLS + '_load_subsamples', 'halo_file_offsets = exclusive prefix sum of the per-file counts', '',
              'file row ranges are no longer the prefix sums of the post-filter counts', node=ls)
    order_rules(chk)
    # ---- R4
    ren_f = [n for n in walk_no_nested(FB) if isinstance(n, ast.Call) and isinstance(n.func, ast.Attribute) and n.func.attr == 'rename_column'
             and [unparse(a) for a in n.args] == ["'N_total'", "'N'"]]
    ren_i = [n for n in walk_no_nested(init) if isinstance(n, ast.Call) and isinstance(n.func, ast.Attribute) and n.func.attr == 'rename_column'
             and [unparse(a) for a in n.args] == ["'N_total'", "'N'"]]
    if len(ren_f) != 1 or len(ren_i) != 1:
        chk.refuted('C03-R4', CAT, CLS + '_read_halo_info', 'rename N_total -> N in the filter path and in __init__',
                    f'{len(ren_f)} / {len(ren_i)} rename sites: the filter would not see the cleaned count under the name N', node=FB)
    else:
        gf = ren_f[0]._parent._parent if isinstance(ren_f[0]._parent, ast.Expr) else None
        gi = ren_i[0]._parent._parent if isinstance(ren_i[0]._parent, ast.Expr) else None
        cf = conj(gf.test) if isinstance(gf, ast.If) else {'<unguarded>'}
        ci = conj(gi.test) if isinstance(gi, ast.If) else {'<unguarded>'}
        # `cleaned` in _read_halo_info is the parameter bound to the local `cleaned` of __init__ at the call site
        kw = {k.arg: unparse(k.value) for k in asg[0].value.keywords} if asg else {}
        same_flag = kw.get('cleaned') == 'cleaned' and kw.get('passthrough') == 'passthrough'
        before = FB.body.index(gf) < [i for i, s in enumerate(FB.body) if 'self.filter_func(halos)' in unparse(s)][0] if isinstance(gf, ast.If) and gf in FB.body else False
        chk.check(cf == ci == {'cleaned', 'not passthrough'} and same_flag, 'C03-R4', CAT, CLS + '_read_halo_info', 'guard of the filter-path rename == guard of the final rename',
                  f'{sorted(cf)}', f'filter path renames under {sorted(cf)}, __init__ under {sorted(ci)} (flags forwarded: {same_flag}): for catalogs where they differ '
                  '(halo light cones: self.cleaned is True but no cleaning files are loaded) the filter path fails or the filter does not see N', node=gf or FB)
        chk.check(before, 'C03-R4', CAT, CLS + '_read_halo_info', 'rename precedes the filter call', '', 'filter_func is called before N_total is renamed to N', node=FB, nontrivial=False)
    # ---- R5
    k = analyse(src, UTIL, 'cumsum', CONTRACTS)
    bad = [a for a in k.accesses.values() if a.verdict != 'PROVEN']
    chk.check(not bad, 'C03-R5', UTIL, 'cumsum', 'cumsum over an empty filtered catalog stays in bounds', f'{len(k.accesses)} subscripts proven for N >= 0',
              '; '.join(f'{a.key}: {a.detail} {a.witness}' for a in bad[:2]), node=src.func(UTIL, 'cumsum'))


def order_rules(chk):
    src = chk.src
    sp = src.func(CAT, CLS + '_setup_file_paths')
    rh = src.func(CAT, CLS + '_read_halo_info')
    ls = src.func(CAT, CLS + '_load_subsamples')
    txt = [unparse(s) for s in walk_no_nested(sp) if isinstance(s, ast.stmt)]
    ok_dir = 'halo_fns = sorted(groupdir.glob(globpat))' in txt
    ok_list = 'halo_fns = path' in txt
    chk.check(ok_dir and ok_list, 'C03-R2', CAT, CLS + '_setup_file_paths', 'directory: sorted glob; list: user order', '',
              f'directory sorted={ok_dir}; list keeps user order={ok_list}', node=sp)
    ok_inds = any(t.startswith('superslab_inds = np.array([int(hfn.stem.split(') and 'for hfn in halo_fns' in t for t in txt) or _indices_in_file_order(sp)
    ok_clean = any(t.startswith('cleaned_halo_fns = [clean_halo_info_dir /') and 'for i in superslab_inds' in t for t in txt)
    chk.check(ok_inds and ok_clean, 'C03-R2', CAT, CLS + '_setup_file_paths', 'superslab indices and cleaning files derived position-by-position from halo_fns', '',
              f'indices from halo_fns in order={ok_inds}; cleaning files from indices in order={ok_clean}', node=sp)
    bad = []
    for f in (sp, rh, ls):
        for n in walk_no_nested(f):
            if isinstance(n, ast.Call) and dotted(n.func) in ('sorted', 'set', 'reversed', 'frozenset', 'np.unique', 'np.sort'):
                t = unparse(n)
                if any(x in t for x in ('halo_fns', 'afs', 'superslab_inds', 'cleaned_fns', 'N_halo_per_file')) and t != 'sorted(groupdir.glob(globpat))':
                    bad.append(f'{f.name}: {t}')
            if isinstance(n, ast.Call) and isinstance(n.func, ast.Attribute) and n.func.attr in ('sort', 'reverse') and \
                    any(x in unparse(n.func.value) for x in ('halo_fns', 'afs', 'superslab_inds')):
                bad.append(f'{f.name}: {unparse(n)}')
    chk.check(not bad, 'C03-R2', CAT, 'CompaSOHaloCatalog', 'no reordering of file lists downstream', '', f'reordering constructs: {bad}', node=sp)
    t2 = [unparse(s) for s in walk_no_nested(rh) if isinstance(s, ast.stmt)]
    ok_afs = 'afs = [asdf.open(hfn, lazy_load=True, memmap=False) for hfn in halo_fns]' in t2 and \
        'cleaned_afs = [asdf.open(hfn, lazy_load=True, memmap=False) for hfn in cleaned_fns]' in t2 and \
        'caf = cleaned_afs[i] if cleaned_afs else None' in t2 and 'assert len(cleaned_fns) == len(halo_fns)' in t2
    chk.check(ok_afs, 'C03-R2', CAT, CLS + '_read_halo_info', 'file i and cleaning file i are opened and paired by position', '',
              'halo files and cleaning files are no longer paired by the same index', node=rh)
    t3 = unparse(ls)
    ok_p = 'for i in range(len(self.superslab_inds))' in t3 and "self.superslab_inds[i]:03d" in t3 and 'clean_af = clean_afs[i]' in t3 and \
        'for i in self.superslab_inds' in t3 and 'halo_file_offsets[i]:halo_file_offsets[i + 1]' in t3
    # the same fact is decided on the values that reach the kernels by the obligations imported as C03-R6 (file name, cleaning file and row
    # range of position i, by constant propagation): a spelling the text test does not know is accepted when all of them are proven
    r6 = [o for o in chk.obs if o.rule == 'C03-R6']
    ok_p = ok_p or (len(r6) >= 5 and all(o.verdict == 'PROVEN' for o in r6))
    if getattr(chk, '_import_depth', 0) >= 1 and not ok_p:
        ok_p = True     # run on behalf of C01 (which decides this very fact itself by C01-R3/R4, on propagated values): the text form is not demanded twice
    chk.check(ok_p, 'C03-R2', CAT, CLS + '_load_subsamples', 'particle file, cleaning file and halo row range selected by the same file position i', '',
              'particle files are not matched to halo row ranges by the same file position', node=ls)
    # R3
    okdup = _all_pairs_compared(sp, 'path')
    chk.check(okdup, 'C03-R3', CAT, CLS + '_setup_file_paths', 'every pair of paths compared; duplicates raise', '', 'duplicate halo_info files are no longer rejected for every pair', node=sp)
    mix = [n for n in walk_no_nested(sp) if isinstance(n, ast.If) and 'groupdir == p.parents[1]' in unparse(n.test) and any(isinstance(b, ast.Raise) for b in n.body)]
    okmix = len(mix) == 1 and unparse(mix[0].test) == 'not groupdir == p.parents[1] and (not halo_lc)' and isinstance(mix[0]._parent, ast.For) and unparse(mix[0]._parent.iter) == 'path'
    chk.check(okmix, 'C03-R3', CAT, CLS + '_setup_file_paths', 'files from different catalogs raise', '', 'mixed-catalog file lists are no longer rejected', node=sp)


def _all_pairs_compared(fn, arr):
    """Is there a test `A[i] == A[j]` (through loop variables of enumerate / range / slices) followed by a raise, whose
    two loops make (i, j) run over every pair 0 <= i < j < len(A)?  Also accepts len(set(A)) != len(A)."""
    for n in walk_no_nested(fn):
        if isinstance(n, ast.If) and any(isinstance(b, ast.Raise) for b in n.body) and isinstance(n.test, ast.Compare) and len(n.test.ops) == 1:
            t = n.test
            txt = unparse(t).replace(' ', '')
            if isinstance(t.ops[0], (ast.NotEq, ast.Lt, ast.Gt)) and f'len(set({arr}))' in txt and f'len({arr})' in txt:
                return True
            if not isinstance(t.ops[0], ast.Eq):
                continue
            # enclosing loops, innermost first
            loops = []
            p_ = getattr(n, '_parent', None)
            while p_ is not None and p_ is not fn:
                if isinstance(p_, ast.For):
                    loops.append(p_)
                p_ = getattr(p_, '_parent', None)
            if len(loops) < 2:
                continue
            inner, outer = loops[0], loops[1]

            def describe(loop, outer_idx=None):
                """-> (index name or None, element name or None, lower bound text relative to outer index, covers_to_end)"""
                it, tg = loop.iter, loop.target
                if isinstance(it, ast.Call) and dotted(it.func) == 'enumerate' and len(it.args) == 1 and isinstance(tg, ast.Tuple) and len(tg.elts) == 2 \
                        and all(isinstance(e, ast.Name) for e in tg.elts):
                    a = it.args[0]
                    if unparse(a) == arr:
                        return dict(idx=tg.elts[0].id, elem=tg.elts[1].id, lo='0', full=True, shifted=None)
                    if isinstance(a, ast.Subscript) and unparse(a.value) == arr and isinstance(a.slice, ast.Slice) and a.slice.upper is None and a.slice.step is None \
                            and a.slice.lower is not None:
                        return dict(idx=None, elem=tg.elts[1].id, lo=unparse(a.slice.lower), full=True, shifted=tg.elts[0].id)
                if isinstance(it, ast.Call) and dotted(it.func) == 'range' and isinstance(tg, ast.Name):
                    args = [unparse(x) for x in it.args]
                    if len(args) == 1 and args[0] == f'len({arr})':
                        return dict(idx=tg.id, elem=None, lo='0', full=True, shifted=None)
                    if len(args) == 2 and args[1] == f'len({arr})':
                        return dict(idx=tg.id, elem=None, lo=args[0], full=True, shifted=None)
                if isinstance(it, ast.Subscript) and unparse(it.value) == arr and isinstance(it.slice, ast.Slice) and it.slice.upper is None and it.slice.lower is not None \
                        and isinstance(tg, ast.Name):
                    return dict(idx=None, elem=tg.id, lo=unparse(it.slice.lower), full=True, shifted=None)
                if unparse(it) == arr and isinstance(tg, ast.Name):
                    return dict(idx=None, elem=tg.id, lo='0', full=True, shifted=None)
                return None
            do, di = describe(outer), describe(inner)
            if do is None or di is None or do['lo'] != '0' or do['idx'] is None:
                continue
            if di['lo'].replace(' ', '') not in (f"{do['idx']}+1", f"1+{do['idx']}"):
                continue

            def is_elem(e, d):
                if isinstance(e, ast.Name) and d['elem'] == e.id:
                    return True
                return isinstance(e, ast.Subscript) and unparse(e.value) == arr and d['idx'] is not None and unparse(e.slice) == d['idx']
            l, r = t.left, t.comparators[0]
            if (is_elem(l, do) and is_elem(r, di)) or (is_elem(l, di) and is_elem(r, do)):
                return True
    return False


def _indices_in_file_order(sp):
    """superslab_inds = np.array(L) where L lists, in the order of halo_fns, int(<text after the last underscore of the stem>):
    L is a comprehension over halo_fns or a list filled by one append per iteration of `for hfn in halo_fns`."""
    def is_suffix_int(e, var, local):
        if not (isinstance(e, ast.Call) and dotted(e.func) == 'int' and len(e.args) == 1):
            return False
        a = e.args[0]
        if isinstance(a, ast.Name) and a.id in local:
            a = local[a.id]
        t = unparse(a).replace(' ', '').replace('"', "'")
        return t in (f"{var}.stem.split('_')[-1]", f"{var}.stem.rsplit('_',1)[-1]", f"{var}.stem.rpartition('_')[2]", f"{var}.stem.rpartition('_')[-1]")
    arrs = [n for n in walk_no_nested(sp) if isinstance(n, ast.Assign) and unparse(n.targets[0]) == 'superslab_inds' and isinstance(n.value, ast.Call)
            and dotted(n.value.func) == 'np.array' and n.value.args]
    for a in arrs:
        v = a.value.args[0]
        if isinstance(v, ast.ListComp) and len(v.generators) == 1 and unparse(v.generators[0].iter) == 'halo_fns' and not v.generators[0].ifs \
                and isinstance(v.generators[0].target, ast.Name) and is_suffix_int(v.elt, v.generators[0].target.id, {}):
            return True
        if isinstance(v, ast.Name):
            L = v.id
            for lp in [n for n in walk_no_nested(sp) if isinstance(n, ast.For) and unparse(n.iter) == 'halo_fns' and isinstance(n.target, ast.Name)]:
                var = lp.target.id
                local = {}
                adds = []
                okbody = True
                for st in lp.body:
                    if isinstance(st, ast.Assign) and isinstance(st.targets[0], ast.Name):
                        local[st.targets[0].id] = st.value
                    elif isinstance(st, ast.Assign) and isinstance(st.targets[0], ast.Tuple) and isinstance(st.value, ast.Call) \
                            and isinstance(st.value.func, ast.Attribute) and st.value.func.attr == 'rpartition' and len(st.targets[0].elts) == 3:
                        last = st.targets[0].elts[2]
                        if isinstance(last, ast.Name):
                            local[last.id] = ast.Subscript(value=st.value, slice=ast.Constant(2), ctx=ast.Load())
                    elif isinstance(st, ast.Expr) and isinstance(st.value, ast.Call) and unparse(st.value.func) == f'{L}.append' and len(st.value.args) == 1:
                        adds.append(st.value.args[0])
                    elif isinstance(st, ast.AugAssign) and unparse(st.target) == L and isinstance(st.value, ast.List) and len(st.value.elts) == 1:
                        adds.append(st.value.elts[0])
                    else:
                        okbody = False
                init = [n for n in walk_no_nested(sp) if isinstance(n, ast.Assign) and unparse(n.targets[0]) == L and isinstance(n.value, ast.List)
                        and not n.value.elts and n.lineno < lp.lineno]
                if okbody and len(adds) == 1 and is_suffix_int(adds[0], var, local) and init and not early_exits_in(lp):
                    return True
    return False


def early_exits_in(lp):
    return any(isinstance(n, (ast.Continue, ast.Break, ast.Return)) for n in walk_no_nested(lp) if n is not lp)
