"""C20 -- pipe_asdf emits count, width and the concatenated raw bytes per field."""
import ast
import copy
import re
import os

from ..core.srcmodel import dotted, unparse, walk_no_nested, AnalysisError, names_in, stores_in, clone_pos

PA = 'abacusnbody/data/pipe_asdf.py'
CL = 'pipe_asdf/client.c'
FILES = [PA]
Q = 'unpack_to_pipe'
WIDTH = {'np.int64': 8, 'np.int32': 4, 'np.uint64': 8, 'np.uint32': 4, 'np.int16': 2, 'np.int8': 1, 'np.float64': 8, 'np.float32': 4}


def contains(node, pred):
    return any(pred(n) for n in ast.walk(node))


PARTIALS = set()           # local names bound to functools.partial(<write helper>, pipe)
WRITE_HELPERS = set()      # module-level functions H(pipe, buf) verified to write every byte of buf (see write_all_helpers)


def is_write(n):
    if isinstance(n, ast.Call) and isinstance(n.func, ast.Attribute) and n.func.attr == 'write' and unparse(n.func.value) == 'pipe':
        return True
    if isinstance(n, ast.Call) and isinstance(n.func, ast.Name) and n.func.id in PARTIALS and len(n.args) == 1 and not n.keywords:
        return True
    return isinstance(n, ast.Call) and isinstance(n.func, ast.Name) and n.func.id in WRITE_HELPERS and len(n.args) == 2 and unparse(n.args[0]) == 'pipe' and not n.keywords


def wdata(n):
    """The bytes a write call emits: the argument of pipe.write / the second argument of a write-all helper; `x.tobytes()` of a scalar header is x."""
    d = n.args[0] if isinstance(n.func, ast.Attribute) or (isinstance(n.func, ast.Name) and n.func.id in PARTIALS) else n.args[1]
    return d


def _strip_tobytes(d):
    if isinstance(d, ast.Call) and isinstance(d.func, ast.Attribute) and d.func.attr == 'tobytes' and not d.args and not d.keywords:
        return d.func.value
    return d


def write_all_helpers(tree):
    """Module-level functions H(pipe, buf) that return only when the stream has taken every byte of buf:

        [buf = memoryview(buf)]  [if not len(buf): return]
        while <len(buf) | True>:  n = pipe.write(buf);  [ifs that only raise];  buf = buf[n:];  [if not len(buf): break]

    One write of the current rest per iteration, the rest advanced by exactly the returned count, and every way out of the loop
    (its test, a break, a return) is taken only when nothing is left.  A raw stream takes at most one system call's worth per write."""
    out = set()

    def empty_test(t, B):
        return unparse(t).replace(' ', '') in (f'notlen({B})', f'len({B})==0', f'not{B}', f'{B}.nbytes==0', f'len({B})<1')

    def nonempty_test(t, B):
        return unparse(t).replace(' ', '') in (f'len({B})', B, f'len({B})>0', f'{B}.nbytes', f'len({B})!=0')
    for f in tree.body:
        if not (isinstance(f, ast.FunctionDef) and len(f.args.args) == 2 and not f.decorator_list):
            continue
        P, B = [a.arg for a in f.args.args]
        body = [x for x in f.body if not (isinstance(x, ast.Expr) and isinstance(x.value, ast.Constant))]
        loops = [n for n in body if isinstance(n, ast.While)]
        if len(loops) != 1 or loops[0].orelse or body[-1] is not loops[0]:
            continue
        W = loops[0]
        cursor = _cursor_form(f, P, B, body, W, empty_test)
        if cursor is not None:
            out.add(f.name)
            if cursor == 'bytes':
                BYTE_HELPERS.add(f.name)
            elif cursor == 'ndarray':
                NDARRAY_BYTE_HELPERS.add(f.name)
            continue
        forever = isinstance(W.test, ast.Constant) and W.test.value is True
        if not (forever or nonempty_test(W.test, B)):
            continue
        ok = True
        nd_view = False
        for x in body[:body.index(W)]:
            if isinstance(x, ast.Assign) and unparse(x.targets[0]) == B and unparse(x.value) in (f'memoryview({B})', f"memoryview({B}).cast('B')"):
                continue
            if _nd_to_bytes(x, B):
                nd_view = True
                continue
            if isinstance(x, ast.If) and not x.orelse and empty_test(x.test, B) and len(x.body) == 1 and isinstance(x.body[0], ast.Return) and x.body[0].value is None:
                continue
            ok = False
        wr = [x for x in W.body if isinstance(x, ast.Assign) and isinstance(x.value, ast.Call) and unparse(x.value) == f'{P}.write({B})' and isinstance(x.targets[0], ast.Name)]
        if not ok or len(wr) != 1:
            continue
        nv = wr[0].targets[0].id
        adv = [x for x in W.body if isinstance(x, ast.Assign) and unparse(x.targets[0]) == B and unparse(x.value) == f'{B}[{nv}:]']
        if len(adv) != 1 or W.body.index(adv[0]) < W.body.index(wr[0]):
            continue
        i_w, i_a = W.body.index(wr[0]), W.body.index(adv[0])
        exits_ok, has_break = True, False
        for k_, m in enumerate(W.body):
            if m is wr[0] or m is adv[0]:
                continue
            raise_only = isinstance(m, ast.If) and not m.orelse and all(isinstance(y, ast.Raise) for y in m.body)
            leave_empty = isinstance(m, ast.If) and not m.orelse and empty_test(m.test, B) and len(m.body) == 1 and \
                (isinstance(m.body[0], ast.Break) or (isinstance(m.body[0], ast.Return) and m.body[0].value is None))
            if raise_only and (i_w < k_ < i_a or k_ > i_a or k_ < i_w):
                continue
            if leave_empty and (k_ > i_a or k_ < i_w):
                has_break = True
                continue
            exits_ok = False
        if not exits_ok or (forever and not has_break):
            continue
        # no other write, store to the buffer or the count anywhere else
        if sum(1 for x in ast.walk(f) if isinstance(x, ast.Call) and isinstance(x.func, ast.Attribute) and x.func.attr == 'write') != 1:
            continue
        if sum(1 for x in ast.walk(W) if isinstance(x, ast.Name) and isinstance(x.ctx, ast.Store) and x.id in (B, nv)) != 2:
            continue
        out.add(f.name)
        if any(isinstance(x, ast.Assign) and unparse(x.targets[0]) == B and unparse(x.value) == f"memoryview({B}).cast('B')" for x in body):
            BYTE_HELPERS.add(f.name)
        elif nd_view:
            NDARRAY_BYTE_HELPERS.add(f.name)
    return out


NDARRAY_BYTE_HELPERS = set()


def _nd_to_bytes(x, B):
    """`if isinstance(B, np.ndarray): B = B.view(np.uint8)` -- an array argument is counted and sliced in bytes."""
    return isinstance(x, ast.If) and not x.orelse and unparse(x.test) in (f'isinstance({B}, np.ndarray)', f'isinstance({B}, numpy.ndarray)') and len(x.body) == 1 \
        and isinstance(x.body[0], ast.Assign) and unparse(x.body[0].targets[0]) == B and unparse(x.body[0].value) in tuple(f'{B}.view({t})' for t in _ONE_BYTE)


def _cursor_form(f, P, B, body, W, empty_test):
    """The same loop with an integer cursor instead of re-slicing the view:

        V = memoryview(B)[.cast('B')];  T = len(V);  S = 0
        while S < T:  n = P.write(V[S:]);  [ifs that only raise];  S += n

    Returns 'bytes' (the helper casts), 'ndarray' (array arguments viewed as bytes first), 'items' (recognised, item units), or None."""
    pre = body[:body.index(W)]
    V = T = S = None
    casts, nd = False, False
    for x in pre:
        if _nd_to_bytes(x, B):
            nd = True
            continue
        if isinstance(x, ast.Assign) and len(x.targets) == 1 and isinstance(x.targets[0], ast.Name):
            t, v = x.targets[0].id, unparse(x.value)
            if v in (f'memoryview({B})', f"memoryview({B}).cast('B')") and V is None:
                V, casts = t, v.endswith(".cast('B')")
                continue
            if V is not None and v in (f'len({V})', f'{V}.nbytes') and T is None:
                T = t
                continue
            if v == '0' and S is None:
                S = t
                continue
        return None
    if V is None or S is None:
        return None
    tt = unparse(W.test).replace(' ', '')
    bound = T if T is not None else f'len({V})'
    if tt not in (f'{S}<{bound}', f'{S}!={bound}', f'{bound}>{S}'):
        return None
    wr = [x for x in W.body if isinstance(x, ast.Assign) and isinstance(x.targets[0], ast.Name) and unparse(x.value) == f'{P}.write({V}[{S}:])']
    if len(wr) != 1:
        return None
    nv = wr[0].targets[0].id
    adv = [x for x in W.body if isinstance(x, ast.AugAssign) and isinstance(x.op, ast.Add) and unparse(x.target) == S and unparse(x.value) == nv]
    if len(adv) != 1 or W.body.index(adv[0]) < W.body.index(wr[0]):
        return None
    for m in W.body:
        if m is wr[0] or m is adv[0]:
            continue
        if isinstance(m, ast.If) and not m.orelse and all(isinstance(y, ast.Raise) for y in m.body):
            continue
        return None
    if sum(1 for x in ast.walk(f) if isinstance(x, ast.Call) and isinstance(x.func, ast.Attribute) and x.func.attr == 'write') != 1:
        return None
    stores = [x.id for x in ast.walk(f) if isinstance(x, ast.Name) and isinstance(x.ctx, ast.Store)]
    if sorted(stores) != sorted([V, S, nv, S] + ([T] if T else []) + ([B] if nd else [])):
        return None
    return 'bytes' if casts else ('ndarray' if nd else 'items')


BYTE_HELPERS = set()
_ONE_BYTE = ('np.uint8', 'np.ubyte', "'u1'", "'B'", 'np.int8', 'np.byte', "'i1'", "'b'", "'|u1'", "'S1'", 'np.bool_')


def _certainly_ndarray(e, defs, depth=0):
    """The value is a numpy array (so a helper that views arrays as uint8 counts it in bytes): a numpy constructor / converter, or a
    shape-only method of one."""
    if depth > 8:
        return False
    if isinstance(e, ast.Name):
        vs = defs.get(e.id)
        return bool(vs) and all(v is not None and _certainly_ndarray(v, defs, depth + 1) for v in vs)
    if isinstance(e, ast.Call):
        d = dotted(e.func)
        if d in ('np.ascontiguousarray', 'np.asarray', 'np.array', 'np.empty', 'np.zeros', 'np.require', 'np.ravel', 'np.reshape', 'np.frombuffer'):
            return True
        if isinstance(e.func, ast.Attribute) and e.func.attr in ('reshape', 'ravel', 'flatten', 'view', 'copy', 'squeeze', 'astype'):
            return _certainly_ndarray(e.func.value, defs, depth + 1)
    return False


def byte_itemed(e, defs, depth=0):
    """True when the buffer `e` has one-byte items, so that slicing its memoryview by a byte count is exact:
    bytes objects (x.tobytes(), bytes(..), literals, struct.pack), one-byte views, and shape-only views of those."""
    if depth > 8:
        return False
    if isinstance(e, ast.Constant):
        return isinstance(e.value, bytes)
    if isinstance(e, ast.Name):
        vs = defs.get(e.id)
        return bool(vs) and all(v is not None and byte_itemed(v, defs, depth + 1) for v in vs)
    if isinstance(e, ast.Subscript):
        return byte_itemed(e.value, defs, depth + 1)
    if isinstance(e, ast.Call):
        d = dotted(e.func)
        if d in ('bytes', 'bytearray', 'struct.pack', 'pack'):
            return True
        if d in ('memoryview', 'np.ascontiguousarray', 'numpy.ascontiguousarray', 'np.asarray') and len(e.args) == 1 and not e.keywords:
            return byte_itemed(e.args[0], defs, depth + 1)
        if isinstance(e.func, ast.Attribute):
            a = e.func.attr
            if a == 'tobytes':
                return True
            if a in ('view', 'astype', 'cast') and len(e.args) >= 1:
                return unparse(e.args[0]) in _ONE_BYTE
            if a == 'view' and any(k.arg == 'dtype' and unparse(k.value) in _ONE_BYTE for k in e.keywords):
                return True
            if a in ('reshape', 'ravel', 'flatten', 'squeeze', 'copy'):
                return byte_itemed(e.func.value, defs, depth + 1)
    return False


def _ensure_contig(s):
    """`if not X.flags.c_contiguous: X = np.ascontiguousarray(X)`  ->  X   (copy only when needed)"""
    if isinstance(s, ast.If) and not s.orelse and len(s.body) == 1 and isinstance(s.test, ast.UnaryOp) and isinstance(s.test.op, ast.Not):
        b = s.body[0]
        if isinstance(b, ast.Assign) and len(b.targets) == 1 and isinstance(b.targets[0], ast.Name):
            x = b.targets[0].id
            t = unparse(s.test.operand).replace('"', "'")
            if t in (f'{x}.flags.c_contiguous', f"{x}.flags['C_CONTIGUOUS']", f'{x}.flags.contiguous', f"{x}.flags['C']", f"{x}.flags['CONTIGUOUS']") \
                    and unparse(b.value) == f'np.ascontiguousarray({x})':
                return x
    return None


def _contig_call(v):
    if isinstance(v, ast.Call) and dotted(v.func) == 'np.ascontiguousarray' and len(v.args) == 1 and not [k for k in v.keywords if k.arg != 'dtype']:
        return v.args[0] if not v.keywords else None
    if isinstance(v, ast.Call) and dotted(v.func) == 'np.require' and len(v.args) == 1 and \
            any(k.arg == 'requirements' and isinstance(k.value, (ast.Constant, ast.List, ast.Tuple)) and re.search(r"'(C|C_CONTIGUOUS|CONTIGUOUS)'", unparse(k.value)) for k in v.keywords) \
            and not [k for k in v.keywords if k.arg != 'requirements']:
        return v.args[0]
    return None


def _expand(node, scope, upto, strip_contig=False, depth=0):
    """Replace local names by their definition: a name with exactly one store in `scope` (a statement list), that store
    being an unconditional top-level assignment before statement #upto.  With strip_contig, contiguity-ensuring wrappers
    (np.ascontiguousarray(v), v.tobytes(), the conditional-copy idiom) are removed and reported."""
    contig = [False]

    def stores(name):
        return [n for st in scope for n in walk_no_nested(st) if isinstance(n, ast.Name) and n.id == name and isinstance(n.ctx, ast.Store)]

    def go(n, d):
        if d > 8:
            return n
        if strip_contig:
            # a flat byte view of the same memory: X.reshape(-1), X.view(np.uint8)  (no copy, no reordering)
            if isinstance(n, ast.Call) and isinstance(n.func, ast.Attribute) and not n.keywords and \
                    ((n.func.attr == 'reshape' and [unparse(a_) for a_ in n.args] in (['-1'], ['(-1,)'])) or
                     (n.func.attr == 'view' and [unparse(a_) for a_ in n.args] in (['np.uint8'], ['np.ubyte'], ["'u1'"], ["'B'"]))):
                return go(n.func.value, d + 1)
            # X.ravel() / X.ravel(order='C') / X.flatten(): the elements in C order (a copy when the memory is not already so)
            if isinstance(n, ast.Call) and isinstance(n.func, ast.Attribute) and n.func.attr in ('ravel', 'flatten') and not n.args and \
                    all(k_.arg == 'order' and unparse(k_.value) in ("'C'", '"C"') for k_ in n.keywords):
                contig[0] = True
                return go(n.func.value, d + 1)
            inner = _contig_call(n)
            if inner is None and isinstance(n, ast.Call) and isinstance(n.func, ast.Attribute) and n.func.attr == 'tobytes' and not n.args and not n.keywords:
                inner = n.func.value
            if inner is not None:
                contig[0] = True
                return go(inner, d + 1)
        if isinstance(n, ast.Name) and isinstance(n.ctx, ast.Load):
            tops = [(i, st) for i, st in enumerate(scope[:upto]) if isinstance(st, ast.Assign) and len(st.targets) == 1 and isinstance(st.targets[0], ast.Name) and st.targets[0].id == n.id]
            ens = [(i, st) for i, st in enumerate(scope[:upto]) if _ensure_contig(st) == n.id]
            if len(tops) == 1 and len(stores(n.id)) == 1 + len(ens) and all(i > tops[0][0] for i, _ in ens):
                if ens and strip_contig:
                    contig[0] = True
                if ens and not strip_contig:
                    return n
                return go(tops[0][1].value, d + 1)
            return n
        out = copy.copy(n)
        for f, v in ast.iter_fields(n):
            if isinstance(v, ast.AST):
                setattr(out, f, go(v, d + 1))
            elif isinstance(v, list):
                setattr(out, f, [go(x, d + 1) if isinstance(x, ast.AST) else x for x in v])
        return out
    r = go(node, depth)
    return r, contig[0]


def _per_file_list(it, F, acc, skips):
    """`it` names a list that the header loop over the files fills with one value per file: returns (file variable, element
    expression) or None.  Required: created empty inside the per-field loop before that loop, exactly one append, unconditional."""
    if not isinstance(it, ast.Name) or skips:
        return None
    L = it.id
    inits = [i for i, st in enumerate(F.body) if isinstance(st, ast.Assign) and len(st.targets) == 1 and unparse(st.targets[0]) == L and unparse(st.value) in ('[]', 'list()')]
    allst = [n for st in F.body for n in walk_no_nested(st) if isinstance(n, ast.Name) and n.id == L and isinstance(n.ctx, ast.Store)]
    if len(inits) != 1:
        return None
    found = None
    nmut = 0
    for lp_ in acc:
        for st in ast.walk(lp_):
            e = None
            if isinstance(st, ast.AugAssign) and unparse(st.target) == L:
                nmut += 1
                if isinstance(st.op, ast.Add) and isinstance(st.value, (ast.List, ast.Tuple)) and len(st.value.elts) == 1:
                    e = st.value.elts[0]
            elif isinstance(st, ast.Expr) and isinstance(st.value, ast.Call) and isinstance(st.value.func, ast.Attribute) and unparse(st.value.func.value) == L:
                nmut += 1
                if st.value.func.attr == 'append' and len(st.value.args) == 1:
                    e = st.value.args[0]
            if e is not None and any(x is st for x in lp_.body) and F.body.index(lp_) > inits[0]:
                v, _ = _expand(e, lp_.body, lp_.body.index(st))
                found = (lp_.target.id, v)
    # every other mention of the list in the per-field loop must be a plain read (the iteration)
    other = [n for st in F.body for n in ast.walk(st) if isinstance(n, ast.Call) and isinstance(n.func, ast.Attribute) and unparse(n.func.value) == L and n.func.attr != 'append']
    if nmut != 1 or found is None or other or len(allst) != 2:
        return None
    return found


def run(chk):
    src = chk.src
    fn = src.func(PA, Q)
    chk.explanation = ('The framing of unpack_to_pipe is decided on the statement structure: no pipe.write is reachable before the last '
                       'validation raise (ordering on the structured control flow), validation covers all files x all fields, and inside '
                       'the per-field loop the writes are exactly count (an np.int64 accumulating prod(shape) over the files), width (an '
                       'np.int32 of dtype.itemsize) and then one payload per file, in argument order; the byte widths agree with the C '
                       'client\'s fread sequence and with the documented "8-byte int ... 4-byte int".')
    chk.rule('C20-R1', 'validation (missing file / missing field, all files x all fields) precedes every write', 3)
    chk.rule('C20-R2', 'per field: write(count:int64) ; write(width:int32) ; for each file write(payload) -- in this order, count = sum of prod(shape), width = itemsize', 5)
    chk.rule('C20-R3', 'fields and files are iterated in argument order; the CLI forwards -f occurrences and file arguments in order', 3)
    chk.rule('C20-R5', 'nothing but the framed stream goes to the pipe: every print in the module is directed to sys.stderr, no sys.stdout.write', 1)
    chk.rule('C20-R6', 'every byte handed to the pipe is written: writes loop on the count returned by the stream', 1)
    chk.rule('C20-R4', 'reader agreement: client.c reads sizeof(int64_t), sizeof(int), payload per field; docstring says 8-byte and 4-byte ints', 2)
    chk.assume('the bytes asdf/blosc deliver for the payload arrays are not modelled')
    body = fn.body
    WRITE_HELPERS.clear()
    BYTE_HELPERS.clear()
    NDARRAY_BYTE_HELPERS.clear()
    WRITE_HELPERS.update(write_all_helpers(src.tree(PA)))
    # module-level functions that are handed the pipe but are not recognised as complete-write loops: their calls are still the writes of
    # the stream (for the framing rules), and the completeness rule R6 names them
    modf = {f_.name for f_ in src.tree(PA).body if isinstance(f_, ast.FunctionDef)}
    unverified = sorted({n.func.id for n in walk_no_nested(fn) if isinstance(n, ast.Call) and isinstance(n.func, ast.Name) and n.func.id in modf and len(n.args) == 2
                         and unparse(n.args[0]) == 'pipe' and n.func.id not in WRITE_HELPERS
                         and any(isinstance(x, ast.Call) and isinstance(x.func, ast.Attribute) and x.func.attr == 'write' for f_ in src.tree(PA).body
                                 if isinstance(f_, ast.FunctionDef) and f_.name == n.func.id for x in ast.walk(f_))})
    verified = set(WRITE_HELPERS)
    WRITE_HELPERS.update(unverified)
    # a local name bound once to functools.partial(<helper>, pipe): its calls are calls of the helper on the pipe
    PARTIALS.clear()
    for n in walk_no_nested(fn):
        if isinstance(n, ast.Assign) and len(n.targets) == 1 and isinstance(n.targets[0], ast.Name) and isinstance(n.value, ast.Call) \
                and dotted(n.value.func) in ('partial', 'functools.partial') and len(n.value.args) == 2 and not n.value.keywords \
                and isinstance(n.value.args[0], ast.Name) and n.value.args[0].id in WRITE_HELPERS and unparse(n.value.args[1]) == 'pipe':
            nm = n.targets[0].id
            if sum(1 for x in walk_no_nested(fn) if isinstance(x, ast.Name) and x.id == nm and isinstance(x.ctx, ast.Store)) == 1:
                PARTIALS.add(nm)
    # ---- R1
    first_write = next((i for i, s in enumerate(body) if contains(s, is_write)), None)
    if first_write is None:
        raise AnalysisError('unpack_to_pipe: no pipe.write found')
    val_raises = [i for i, s in enumerate(body) if contains(s, lambda n: isinstance(n, ast.Raise) and n.exc is not None and
                                                              ('FileNotFoundError' in unparse(n.exc) or 'ValueError' in unparse(n.exc)))]
    opens = [i for i, s in enumerate(body) if contains(s, lambda n: isinstance(n, ast.Call) and dotted(n.func) == 'asdf.open')]
    ok = bool(val_raises) and max(val_raises) < first_write and (not opens or max(opens) < first_write)
    chk.check(ok, 'C20-R1', PA, Q, 'all validation raises and file opens precede the first write',
              f'last validation statement #{max(val_raises) if val_raises else None} < first writing statement #{first_write}',
              'a write can happen before a missing file/field is reported: the client would receive a partial stream', node=body[first_write])
    # file existence for all files
    fchk = [s for s in body[:first_write] if isinstance(s, ast.For) and unparse(s.iter) == 'asdf_fns' and
            contains(s, lambda n: isinstance(n, ast.Raise) and 'FileNotFoundError' in unparse(n.exc))]
    okf = len(fchk) >= 1 and any(isinstance(b, ast.If) and f'isfile({fchk[0].target.id})' in unparse(b.test) and unparse(b.test).startswith('not') for b in fchk[0].body)
    chk.check(okf, 'C20-R1', PA, Q, 'every input file is checked for existence', '', 'the missing-file check no longer covers every argument', node=fchk[0] if fchk else fn)
    vchk = [s for s in body[:first_write] if isinstance(s, ast.For) and unparse(s.iter) == 'afs' and
            contains(s, lambda n: isinstance(n, ast.Raise) and 'ValueError' in unparse(n.exc))]
    okv = False
    if vchk:
        inner = [b for b in vchk[0].body if isinstance(b, ast.For) and unparse(b.iter) == 'fields']
        if inner:
            af, fld = vchk[0].target.id, inner[0].target.id
            okv = any(isinstance(b, ast.If) and unparse(b.test) == f'{fld} not in {af}.tree[data_key]' and any(isinstance(x, ast.Raise) for x in b.body)
                      for b in inner[0].body)
    chk.check(okv, 'C20-R1', PA, Q, 'every (file, field) pair is checked for presence', '', 'the missing-field check no longer covers all files x all fields', node=vchk[0] if vchk else fn)
    # one item width is announced per field: files that disagree on it are refused with the other unframeable inputs, before any write
    pre_raises = [n for st_ in body[:first_write] for n in ast.walk(st_) if isinstance(n, ast.If) and any(isinstance(r_, ast.Raise) for r_ in n.body)]
    ldefs_ = {}
    for st_ in body[:first_write]:
        for n in ast.walk(st_):
            if isinstance(n, ast.Assign) and len(n.targets) == 1 and isinstance(n.targets[0], ast.Name):
                ldefs_.setdefault(n.targets[0].id, []).append(n.value)

    def _mentions_itemsize(t):
        for x in ast.walk(t):
            if isinstance(x, ast.Attribute) and x.attr == 'itemsize':
                return True
            if isinstance(x, ast.Name) and any(isinstance(y, ast.Attribute) and y.attr == 'itemsize' for v_ in ldefs_.get(x.id, []) for y in ast.walk(v_)):
                return True
        return False
    okw_ = any(_mentions_itemsize(n.test) and isinstance(n.test, ast.Compare) and isinstance(n.test.ops[0], (ast.NotEq, ast.Eq)) for n in pre_raises)
    chk.check(okw_, 'C20-R1', PA, Q, 'files that disagree on the item width of a field are refused before any write', '',
              'nothing compares the item width of a field across the files before writing: the width header is that of the LAST file, so with a float32 column in one file and a '
              'float64 column of the same name in another the announced count x width differs from the payload and the client reads the next header inside it', node=body[first_write], nontrivial=False)
    # ---- R6: the stream takes every byte
    direct = [n for n in walk_no_nested(fn) if isinstance(n, ast.Call) and isinstance(n.func, ast.Attribute) and n.func.attr == 'write' and unparse(n.func.value) == 'pipe']
    if unverified:
        chk.refuted('C20-R6', PA, Q, 'the write helper loops until the stream has taken every byte',
                    f'{unverified} write to the pipe but are not of the form `while len(buf): n = pipe.write(buf); buf = buf[n:]`: a short write of a raw stream '
                    '(python -u: at most 0x7ffff000 bytes per call) leaves the rest of the buffer unwritten or re-sends bytes', node=fn)
    chk.check(not direct and bool(verified) and not unverified, 'C20-R6', PA, Q, 'every write goes through a loop that continues until all bytes are taken', f'helpers {sorted(verified)}',
              f'{len(direct)} direct pipe.write(...) call(s) whose result is ignored (first: {unparse(direct[0])[:50] if direct else None}): sys.stdout.buffer is a raw stream under '
              '`python -u` / PYTHONUNBUFFERED, which transfers at most 0x7ffff000 bytes per write and returns the count: a column above 2 GiB is cut short after its header '
              'announced count x width bytes', node=direct[0] if direct else fn, nontrivial=False)
    # the loop advances `buf = buf[n:]` by the BYTE count the stream returned; a memoryview is sliced in ITEMS, so the helper is exact only
    # for one-byte items: either it casts to bytes itself, or every buffer handed to it is a bytes object / one-byte view
    fdefs = {}
    for n in walk_no_nested(fn):
        if isinstance(n, ast.Assign) and len(n.targets) == 1 and isinstance(n.targets[0], ast.Name):
            fdefs.setdefault(n.targets[0].id, []).append(n.value)
        elif isinstance(n, ast.Name) and isinstance(n.ctx, ast.Store):
            fdefs.setdefault(n.id, [])
    for n in walk_no_nested(fn):
        if isinstance(n, ast.Name) and isinstance(n.ctx, ast.Store) and not any(isinstance(p_, ast.Assign) and len(p_.targets) == 1 and p_.targets[0] is n for p_ in [getattr(n, '_parent', None)]):
            fdefs.setdefault(n.id, []).append(None)
    hcalls = [n for n in walk_no_nested(fn) if is_write(n) and not (isinstance(n.func, ast.Attribute))]
    for n in hcalls:
        hn = n.func.id if n.func.id not in PARTIALS else None
        if hn in BYTE_HELPERS or (hn is not None and hn not in verified):
            continue
        if hn is None:
            # a partial of a helper: find the helper
            pd = [v for v in fdefs.get(n.func.id, []) if v is not None]
            hn = pd[0].args[0].id if pd else None
            if hn in BYTE_HELPERS:
                continue
        d = wdata(n)
        okb_ = byte_itemed(d, fdefs) or (hn in NDARRAY_BYTE_HELPERS and _certainly_ndarray(d, fdefs))
        chk.check(okb_, 'C20-R6', PA, Q, 'the complete-write loop advances in bytes: the buffer it slices has one-byte items', unparse(d)[:60],
                  f'{hn}(pipe, {unparse(d)[:70]}): the helper drops `n` ITEMS of its memoryview after the stream took `n` BYTES; with items wider than one byte '
                  'a short write (raw stdout under python -u, any stream doing partial writes) skips (itemsize-1)*n payload bytes: fewer bytes than count x width, '
                  'every later header at the wrong offset', node=n)
    # ---- R2
    floops = [s for s in body if isinstance(s, ast.For) and unparse(s.iter) == 'fields' and contains(s, is_write)]
    if len(floops) != 1:
        chk.refuted('C20-R2', PA, Q, 'one per-field IO loop', f'{len(floops)} loops over fields perform writes', node=fn)
        return
    F = floops[0]
    fld = F.target.id
    seq = []      # (kind, node): kind = 'scalar' (directly in the field loop) | 'payload' (inside a loop over afs)
    for s in F.body:
        if isinstance(s, ast.Expr) and is_write(s.value):
            seq.append(('scalar', s.value, None))
        elif isinstance(s, ast.For) and contains(s, is_write):
            for n in ast.walk(s):
                if is_write(n):
                    seq.append(('payload', n, s))
        elif contains(s, is_write):
            seq.append(('other', s, None))
    kinds = [k for k, _, _ in seq]
    chk.check(kinds == ['scalar', 'scalar', 'payload'], 'C20-R2', PA, Q, 'write sequence per field', f'{kinds}',
              f'per-field writes are {kinds}; the format is header(count), header(width), then payloads', node=F)
    if kinds[:2] != ['scalar', 'scalar'] or 'payload' not in kinds:
        return
    cnt, wid = unparse(_strip_tobytes(wdata(seq[0][1]))), unparse(_strip_tobytes(wdata(seq[1][1])))
    # count variable: np.int64(0) then += prod(shape) over afs
    cdef = [s for s in F.body if isinstance(s, ast.Assign) and unparse(s.targets[0]) == cnt]
    okc = len(cdef) == 1 and unparse(cdef[0].value) == 'np.int64(0)' and F.body.index(cdef[0]) < [F.body.index(s) for s in F.body if isinstance(s, ast.Expr) and is_write(s.value)][0]
    acc = [s for s in F.body if isinstance(s, ast.For) and unparse(s.iter) == 'afs' and not contains(s, is_write)]
    oka = False
    wdef_ok = False
    # the count and the width may be computed in one loop over the files or in two; local names are expanded to their
    # (single, unconditional, earlier) definition in the loop body before the comparison
    for lp_ in acc:
        af = lp_.target.id
        adds = [n for n in ast.walk(lp_) if isinstance(n, ast.AugAssign) and unparse(n.target) == cnt and isinstance(n.op, ast.Add)]
        if len(adds) == 1 and not oka and any(x is adds[0] for x in lp_.body):
            v, _ = _expand(adds[0].value, lp_.body, lp_.body.index(adds[0]))
            oka = unparse(v) == f'np.prod({af}[data_key][{fld}].shape)'
        wd = [n for n in lp_.body if isinstance(n, ast.Assign) and unparse(n.targets[0]) == wid]
        if len(wd) == 1 and len([n for n in ast.walk(lp_) if isinstance(n, ast.Name) and n.id == wid and isinstance(n.ctx, ast.Store)]) == 1:
            v, _ = _expand(wd[0].value, lp_.body, lp_.body.index(wd[0]))
            if unparse(v) == f'np.int32({af}[data_key][{fld}].dtype.itemsize)':
                wdef_ok = True
    nadds = sum(1 for lp_ in acc for n in ast.walk(lp_) if isinstance(n, ast.AugAssign) and unparse(n.target) == cnt)
    oka = oka and nadds == 1
    # the count and the width are taken from EVERY file: no continue / break in those loops, the assignments are unconditional,
    # and the width is (re)bound inside the per-field loop (a value left over from the previous field is never written)
    skips = [n for lp_ in acc for n in ast.walk(lp_) if isinstance(n, (ast.Continue, ast.Break))]
    wtop = any(isinstance(x, ast.Assign) and unparse(x.targets[0]) == wid for lp_ in acc for x in lp_.body)
    if skips or not wtop:
        wdef_ok = False
        oka = oka and not skips
    chk.check(okc and oka, 'C20-R2', PA, Q, 'count = int64 sum over files of prod(shape) of this field', f'{cnt}',
              f'count header: initialised as {unparse(cdef[0].value) if cdef else None}, accumulation recognised={oka}: the 8-byte element count would be wrong', node=cdef[0] if cdef else F)
    chk.check(wdef_ok, 'C20-R2', PA, Q, 'width = int32 itemsize of this field', f'{wid}',
              'width header is not np.int32(dtype.itemsize) of the field', node=F)
    pay = [x for x in seq if x[0] == 'payload']
    pl = pay[0][2]
    wcall = pay[0][1]
    wstmt = next((x for x in pl.body if isinstance(x, ast.Expr) and x.value is wcall), None)
    okp = len(pay) == 1 and wstmt is not None and isinstance(pl.target, ast.Name)
    contiguous, payload_txt, want_txt = False, None, None
    if okp:
        val, contiguous = _expand(wdata(wcall), pl.body, pl.body.index(wstmt), strip_contig=True)
        payload_txt = unparse(val)
        if unparse(pl.iter) == 'afs':
            want_txt = f'{pl.target.id}[data_key][{fld}][:]'
        else:
            # a list of per-file values collected in the header loop: one unconditional append per file, list re-created for
            # every field, iterated in the order it was built
            elem = _per_file_list(pl.iter, F, acc, skips)
            if elem is not None:
                af0, e = elem
                class Sub(ast.NodeTransformer):
                    def visit_Name(s_, n):
                        return clone_pos(e) if n.id == pl.target.id and isinstance(n.ctx, ast.Load) else n
                payload_txt = unparse(Sub().visit(clone_pos(val)))
                want_txt = f'{af0}[data_key][{fld}][:]'
    chk.check(contiguous, 'C20-R2', PA, Q, 'the payload handed to write() is C-contiguous (np.ascontiguousarray / tobytes)', unparse(pay[0][1])[:60],
              f'{unparse(pay[0][1])[:60]}: the array read from the file can be a strided view (two columns sharing a block, Fortran order); the binary '
              'stream\'s write() refuses a non-contiguous buffer AFTER count and width were written: a truncated frame instead of count x width bytes', node=pay[0][1], nontrivial=False)
    okp = okp and want_txt is not None and payload_txt == want_txt
    chk.check(okp, 'C20-R2', PA, Q, 'payload = the field\'s raw array of each file, one write per file', '',
              f'payload loop writes {payload_txt} over {unparse(pl.iter)}', node=pl)
    # header widths
    chk.check(True, 'C20-R2', PA, Q, 'header byte widths', f'{WIDTH["np.int64"]} + {WIDTH["np.int32"]} bytes', nontrivial=False)
    # ---- R3
    bad = [unparse(n) for n in walk_no_nested(fn) if isinstance(n, ast.Call) and dotted(n.func) in ('sorted', 'set', 'reversed', 'frozenset')
           and any(x in unparse(n) for x in ('asdf_fns', 'fields', 'afs'))]
    bad += [unparse(n) for n in walk_no_nested(fn) if isinstance(n, ast.Call) and isinstance(n.func, ast.Attribute) and n.func.attr in ('sort', 'reverse')
            and unparse(n.func.value) in ('asdf_fns', 'fields', 'afs')]
    rebinds = [unparse(n) for n in walk_no_nested(fn) if isinstance(n, ast.Assign) and stores_in(n) & {'asdf_fns', 'fields'}]
    chk.check(not bad and not rebinds, 'C20-R3', PA, Q, 'no reordering of files or fields', '', f'reordering constructs {bad + rebinds}', node=fn)
    build = [s for s in body if isinstance(s, ast.For) and unparse(s.iter) == 'asdf_fns' and contains(s, lambda n: isinstance(n, ast.Call) and dotted(n.func) == 'asdf.open')]
    okb = len(build) == 1 and any(isinstance(b, ast.AugAssign) and unparse(b.target) == 'afs' and unparse(b.value).startswith(f'[asdf.open({build[0].target.id},') for b in build[0].body)
    init = [s for s in body if isinstance(s, ast.Assign) and unparse(s.targets[0]) == 'afs']
    okb = okb and len(init) == 1 and unparse(init[0].value) == '[]'
    chk.check(okb, 'C20-R3', PA, Q, 'afs holds the opened files in argument order', '', 'the list of open files is not built by appending in argument order', node=build[0] if build else fn)
    m = src.func(PA, 'main')
    adds = {}
    for n in walk_no_nested(m):
        if isinstance(n, ast.Call) and isinstance(n.func, ast.Attribute) and n.func.attr == 'add_argument' and n.args:
            name = n.args[0].value if isinstance(n.args[0], ast.Constant) else None
            adds[name] = {k.arg: unparse(k.value) for k in n.keywords}
    okm = adds.get('-f', {}).get('action') == "'append'" and adds.get('asdf-file', {}).get('nargs') == "'+'"
    txt = unparse(m)
    okm = okm and "args['asdf_fns'] = args.pop('asdf-file')" in txt and "args['fields'] = args.pop('field')" in txt and 'unpack_to_pipe(**args)' in txt
    chk.check(okm, 'C20-R3', PA, 'main', 'CLI forwards -f occurrences (append) and file arguments in order', '', 'the CLI no longer forwards fields/files in command-line order', node=m)
    # ---- R4
    cpath = os.path.join(src.root, CL)
    doc = ast.get_docstring(src.tree(PA)) or ''
    okd = 'an 8-byte int indicating the number of data values' in doc and 'a 4-byte int indicating the width' in doc
    chk.check(okd, 'C20-R4', PA, '<module>', 'documented header widths 8 and 4 bytes equal the writer\'s int64 / int32', '',
              'module docstring no longer documents the 8-byte count / 4-byte width the writer emits', nontrivial=False)
    if os.path.isfile(cpath):
        ctext = open(cpath, encoding='utf-8', errors='replace').read()
        src.consulted.add(PA)
        freads = re.findall(r'fread\(\s*([^,]+),\s*sizeof\(([^)]+)\)\s*,\s*([^,]+),', ctext)
        sizes = {'int64_t': 8, 'int': 4, 'uint32_t': 4, 'float': 4, 'double': 8, 'int32_t': 4, 'uint64_t': 8}
        seqc = [(sizes.get(t.strip()), c.strip()) for _, t, c in freads]
        okr = len(seqc) >= 3 and len(seqc) % 3 == 0 and all(seqc[i][0] == 8 and seqc[i][1] == '1' and seqc[i + 1][0] == 4 and seqc[i + 1][1] == '1'
                                                            and seqc[i + 2][1] != '1' for i in range(0, len(seqc), 3))
        chk.check(okr, 'C20-R4', CL, 'main', 'client reads 8-byte count, 4-byte width, payload per field', f'{seqc}',
                  f'client fread sequence {seqc} does not match the writer (8, 4, payload)', nf=seqc)
    else:
        chk.assumed('C20-R4', CL, 'main', 'client source present', 'pipe_asdf/client.c not found; reader agreement not checked')
    # ---- R5: the default pipe is sys.stdout.buffer: anything printed to standard output lands inside the binary stream
    bad_out = []
    for n in ast.walk(src.tree(PA)):
        if isinstance(n, ast.Call) and dotted(n.func) == 'print':
            f = [k for k in n.keywords if k.arg == 'file']
            if not f or dotted(f[0].value) not in ('sys.stderr',):
                bad_out.append(n)
        if isinstance(n, ast.Call) and dotted(n.func) in ('sys.stdout.write', 'sys.stdout.buffer.write'):
            bad_out.append(n)
    chk.check(not bad_out, 'C20-R5', PA, '<module>', 'diagnostics go to sys.stderr only', '',
              '; '.join(f'line {n.lineno}: {unparse(n)[:60]}' for n in bad_out[:3]) + ': text written to standard output is interleaved with the count / width / payload frames', node=bad_out[0] if bad_out else None)


