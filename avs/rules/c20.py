"""C20 -- pipe_asdf emits count, width and the concatenated raw bytes per field."""
import ast
import re
import os

from ..core.srcmodel import dotted, unparse, walk_no_nested, AnalysisError, names_in, stores_in

PA = 'abacusnbody/data/pipe_asdf.py'
CL = 'pipe_asdf/client.c'
FILES = [PA]
Q = 'unpack_to_pipe'
WIDTH = {'np.int64': 8, 'np.int32': 4, 'np.uint64': 8, 'np.uint32': 4, 'np.int16': 2, 'np.int8': 1, 'np.float64': 8, 'np.float32': 4}


def contains(node, pred):
    return any(pred(n) for n in ast.walk(node))


def is_write(n):
    return isinstance(n, ast.Call) and isinstance(n.func, ast.Attribute) and n.func.attr == 'write' and unparse(n.func.value) == 'pipe'


def run(chk):
    src = chk.src
    fn = src.func(PA, Q)
    chk.explanation = ('The framing of unpack_to_pipe is decided on the statement structure: no pipe.write is reachable before the last '
                       'validation raise (ordering on the structured control flow), validation covers all files x all fields, and inside '
                       'the per-field loop the writes are exactly count (an np.int64 accumulating prod(shape) over the files), width (an '
                       'np.int32 of dtype.itemsize) and then one payload per file, in argument order; the byte widths agree with the C '
                       'client\'s fread sequence and with the documented "8-byte int ... 4-byte int".')
    chk.rule('C20-R1', 'validation (missing file / missing field, all files x all fields) precedes every write', 3)
    chk.rule('C20-R2', 'per field: write(count:int64) ; write(width:int32) ; for each file write(payload) -- in this order, count = sum of prod(shape), width = itemsize', 5)
    chk.rule('C20-R3', 'fields and files are iterated in argument order; the CLI forwards -f occurrences and file arguments in order', 3)
    chk.rule('C20-R5', 'nothing but the framed stream goes to the pipe: every print in the module is directed to sys.stderr, no sys.stdout.write', 1)
    chk.rule('C20-R4', 'reader agreement: client.c reads sizeof(int64_t), sizeof(int), payload per field; docstring says 8-byte and 4-byte ints', 2)
    chk.assume('the bytes asdf/blosc deliver for the payload arrays are not modelled')
    body = fn.body
    # ---- R1
    first_write = next((i for i, s in enumerate(body) if contains(s, is_write)), None)
    if first_write is None:
        raise AnalysisError('unpack_to_pipe: no pipe.write found')
    val_raises = [i for i, s in enumerate(body) if contains(s, lambda n: isinstance(n, ast.Raise) and n.exc is not None and
                                                              ('FileNotFoundError' in unparse(n.exc) or 'ValueError' in unparse(n.exc)))]
    opens = [i for i, s in enumerate(body) if contains(s, lambda n: isinstance(n, ast.Call) and dotted(n.func) == 'asdf.open')]
    ok = bool(val_raises) and max(val_raises) < first_write and (not opens or max(opens) < first_write)
    chk.check(ok, 'C20-R1', PA, Q, 'all validation raises and file opens precede the first write',
              f'last validation statement #{max(val_raises) if val_raises else None} < first writing statement #{first_write}',
              'a write can happen before a missing file/field is reported: the client would receive a partial stream', node=body[first_write])
    # file existence for all files
    fchk = [s for s in body[:first_write] if isinstance(s, ast.For) and unparse(s.iter) == 'asdf_fns' and
            contains(s, lambda n: isinstance(n, ast.Raise) and 'FileNotFoundError' in unparse(n.exc))]
    okf = len(fchk) >= 1 and any(isinstance(b, ast.If) and f'isfile({fchk[0].target.id})' in unparse(b.test) and unparse(b.test).startswith('not') for b in fchk[0].body)
    chk.check(okf, 'C20-R1', PA, Q, 'every input file is checked for existence', '', 'the missing-file check no longer covers every argument', node=fchk[0] if fchk else fn)
    vchk = [s for s in body[:first_write] if isinstance(s, ast.For) and unparse(s.iter) == 'afs' and
            contains(s, lambda n: isinstance(n, ast.Raise) and 'ValueError' in unparse(n.exc))]
    okv = False
    if vchk:
        inner = [b for b in vchk[0].body if isinstance(b, ast.For) and unparse(b.iter) == 'fields']
        if inner:
            af, fld = vchk[0].target.id, inner[0].target.id
            okv = any(isinstance(b, ast.If) and unparse(b.test) == f'{fld} not in {af}.tree[data_key]' and any(isinstance(x, ast.Raise) for x in b.body)
                      for b in inner[0].body)
    chk.check(okv, 'C20-R1', PA, Q, 'every (file, field) pair is checked for presence', '', 'the missing-field check no longer covers all files x all fields', node=vchk[0] if vchk else fn)
    # ---- R2
    floops = [s for s in body if isinstance(s, ast.For) and unparse(s.iter) == 'fields' and contains(s, is_write)]
    if len(floops) != 1:
        chk.refuted('C20-R2', PA, Q, 'one per-field IO loop', f'{len(floops)} loops over fields perform writes', node=fn)
        return
    F = floops[0]
    fld = F.target.id
    seq = []      # (kind, node): kind = 'scalar' (directly in the field loop) | 'payload' (inside a loop over afs)
    for s in F.body:
        if isinstance(s, ast.Expr) and is_write(s.value):
            seq.append(('scalar', s.value, None))
        elif isinstance(s, ast.For) and contains(s, is_write):
            for n in ast.walk(s):
                if is_write(n):
                    seq.append(('payload', n, s))
        elif contains(s, is_write):
            seq.append(('other', s, None))
    kinds = [k for k, _, _ in seq]
    chk.check(kinds == ['scalar', 'scalar', 'payload'], 'C20-R2', PA, Q, 'write sequence per field', f'{kinds}',
              f'per-field writes are {kinds}; the format is header(count), header(width), then payloads', node=F)
    if kinds[:2] != ['scalar', 'scalar'] or 'payload' not in kinds:
        return
    cnt, wid = unparse(seq[0][1].args[0]), unparse(seq[1][1].args[0])
    # count variable: np.int64(0) then += prod(shape) over afs
    cdef = [s for s in F.body if isinstance(s, ast.Assign) and unparse(s.targets[0]) == cnt]
    okc = len(cdef) == 1 and unparse(cdef[0].value) == 'np.int64(0)' and F.body.index(cdef[0]) < [F.body.index(s) for s in F.body if isinstance(s, ast.Expr) and is_write(s.value)][0]
    acc = [s for s in F.body if isinstance(s, ast.For) and unparse(s.iter) == 'afs' and not contains(s, is_write)]
    oka = False
    wdef_ok = False
    # the count and the width may be computed in one loop over the files or in two
    for lp_ in acc:
        af = lp_.target.id
        adds = [n for n in ast.walk(lp_) if isinstance(n, ast.AugAssign) and unparse(n.target) == cnt and isinstance(n.op, ast.Add)]
        if len(adds) == 1 and not oka:
            v = adds[0].value
            if isinstance(v, ast.Name):
                d = [n for n in lp_.body if isinstance(n, ast.Assign) and unparse(n.targets[0]) == v.id]
                v = d[0].value if d else v
            oka = unparse(v) == f'np.prod({af}[data_key][{fld}].shape)' and any(x is adds[0] for x in lp_.body)
        wd = [n for n in ast.walk(lp_) if isinstance(n, ast.Assign) and unparse(n.targets[0]) == wid]
        if len(wd) == 1 and unparse(wd[0].value) == f'np.int32({af}[data_key][{fld}].dtype.itemsize)':
            wdef_ok = True
    nadds = sum(1 for lp_ in acc for n in ast.walk(lp_) if isinstance(n, ast.AugAssign) and unparse(n.target) == cnt)
    oka = oka and nadds == 1
    # the count and the width are taken from EVERY file: no continue / break in those loops, the assignments are unconditional,
    # and the width is (re)bound inside the per-field loop (a value left over from the previous field is never written)
    skips = [n for lp_ in acc for n in ast.walk(lp_) if isinstance(n, (ast.Continue, ast.Break))]
    wtop = any(isinstance(x, ast.Assign) and unparse(x.targets[0]) == wid for lp_ in acc for x in lp_.body)
    if skips or not wtop:
        wdef_ok = False
        oka = oka and not skips
    chk.check(okc and oka, 'C20-R2', PA, Q, 'count = int64 sum over files of prod(shape) of this field', f'{cnt}',
              f'count header: initialised as {unparse(cdef[0].value) if cdef else None}, accumulation recognised={oka}: the 8-byte element count would be wrong', node=cdef[0] if cdef else F)
    chk.check(wdef_ok, 'C20-R2', PA, Q, 'width = int32 itemsize of this field', f'{wid}',
              'width header is not np.int32(dtype.itemsize) of the field', node=F)
    pay = [x for x in seq if x[0] == 'payload']
    pl = pay[0][2]
    okp = unparse(pl.iter) == 'afs' and len(pay) == 1
    warg = pay[0][1].args[0]
    contiguous = False
    if isinstance(warg, ast.Call) and dotted(warg.func) in ('np.ascontiguousarray', 'np.require') and warg.args:
        contiguous, warg = True, warg.args[0]
    elif isinstance(warg, ast.Call) and isinstance(warg.func, ast.Attribute) and warg.func.attr in ('tobytes',) and not warg.args:
        contiguous, warg = True, warg.func.value
    arg = unparse(warg)
    adef = [n for n in pl.body if isinstance(n, ast.Assign) and unparse(n.targets[0]) == arg]
    if adef and isinstance(adef[0].value, ast.Call) and dotted(adef[0].value.func) == 'np.ascontiguousarray' and adef[0].value.args:
        contiguous = True
        adef = [ast.Assign(targets=adef[0].targets, value=adef[0].value.args[0], lineno=adef[0].lineno)]
    chk.check(contiguous, 'C20-R2', PA, Q, 'the payload handed to write() is C-contiguous (np.ascontiguousarray / tobytes)', unparse(pay[0][1])[:60],
              f'{unparse(pay[0][1])[:60]}: the array read from the file can be a strided view (two columns sharing a block, Fortran order); the binary '
              'stream\'s write() refuses a non-contiguous buffer AFTER count and width were written: a truncated frame instead of count x width bytes', node=pay[0][1], nontrivial=False)
    okp = okp and len(adef) == 1 and unparse(adef[0].value) == f'{pl.target.id}[data_key][{fld}][:]'
    chk.check(okp, 'C20-R2', PA, Q, 'payload = the field\'s raw array of each file, one write per file', '',
              f'payload loop writes {arg} = {unparse(adef[0].value) if adef else None} over {unparse(pl.iter)}', node=pl)
    # header widths
    chk.check(True, 'C20-R2', PA, Q, 'header byte widths', f'{WIDTH["np.int64"]} + {WIDTH["np.int32"]} bytes', nontrivial=False)
    # ---- R3
    bad = [unparse(n) for n in walk_no_nested(fn) if isinstance(n, ast.Call) and dotted(n.func) in ('sorted', 'set', 'reversed', 'frozenset')
           and any(x in unparse(n) for x in ('asdf_fns', 'fields', 'afs'))]
    bad += [unparse(n) for n in walk_no_nested(fn) if isinstance(n, ast.Call) and isinstance(n.func, ast.Attribute) and n.func.attr in ('sort', 'reverse')
            and unparse(n.func.value) in ('asdf_fns', 'fields', 'afs')]
    rebinds = [unparse(n) for n in walk_no_nested(fn) if isinstance(n, ast.Assign) and stores_in(n) & {'asdf_fns', 'fields'}]
    chk.check(not bad and not rebinds, 'C20-R3', PA, Q, 'no reordering of files or fields', '', f'reordering constructs {bad + rebinds}', node=fn)
    build = [s for s in body if isinstance(s, ast.For) and unparse(s.iter) == 'asdf_fns' and contains(s, lambda n: isinstance(n, ast.Call) and dotted(n.func) == 'asdf.open')]
    okb = len(build) == 1 and any(isinstance(b, ast.AugAssign) and unparse(b.target) == 'afs' and unparse(b.value).startswith(f'[asdf.open({build[0].target.id},') for b in build[0].body)
    init = [s for s in body if isinstance(s, ast.Assign) and unparse(s.targets[0]) == 'afs']
    okb = okb and len(init) == 1 and unparse(init[0].value) == '[]'
    chk.check(okb, 'C20-R3', PA, Q, 'afs holds the opened files in argument order', '', 'the list of open files is not built by appending in argument order', node=build[0] if build else fn)
    m = src.func(PA, 'main')
    adds = {}
    for n in walk_no_nested(m):
        if isinstance(n, ast.Call) and isinstance(n.func, ast.Attribute) and n.func.attr == 'add_argument' and n.args:
            name = n.args[0].value if isinstance(n.args[0], ast.Constant) else None
            adds[name] = {k.arg: unparse(k.value) for k in n.keywords}
    okm = adds.get('-f', {}).get('action') == "'append'" and adds.get('asdf-file', {}).get('nargs') == "'+'"
    txt = unparse(m)
    okm = okm and "args['asdf_fns'] = args.pop('asdf-file')" in txt and "args['fields'] = args.pop('field')" in txt and 'unpack_to_pipe(**args)' in txt
    chk.check(okm, 'C20-R3', PA, 'main', 'CLI forwards -f occurrences (append) and file arguments in order', '', 'the CLI no longer forwards fields/files in command-line order', node=m)
    # ---- R4
    cpath = os.path.join(src.root, CL)
    doc = ast.get_docstring(src.tree(PA)) or ''
    okd = 'an 8-byte int indicating the number of data values' in doc and 'a 4-byte int indicating the width' in doc
    chk.check(okd, 'C20-R4', PA, '<module>', 'documented header widths 8 and 4 bytes equal the writer\'s int64 / int32', '',
              'module docstring no longer documents the 8-byte count / 4-byte width the writer emits', nontrivial=False)
    if os.path.isfile(cpath):
        ctext = open(cpath, encoding='utf-8', errors='replace').read()
        src.consulted.add(PA)
        freads = re.findall(r'fread\(\s*([^,]+),\s*sizeof\(([^)]+)\)\s*,\s*([^,]+),', ctext)
        sizes = {'int64_t': 8, 'int': 4, 'uint32_t': 4, 'float': 4, 'double': 8, 'int32_t': 4, 'uint64_t': 8}
        seqc = [(sizes.get(t.strip()), c.strip()) for _, t, c in freads]
        okr = len(seqc) >= 3 and len(seqc) % 3 == 0 and all(seqc[i][0] == 8 and seqc[i][1] == '1' and seqc[i + 1][0] == 4 and seqc[i + 1][1] == '1'
                                                            and seqc[i + 2][1] != '1' for i in range(0, len(seqc), 3))
        chk.check(okr, 'C20-R4', CL, 'main', 'client reads 8-byte count, 4-byte width, payload per field', f'{seqc}',
                  f'client fread sequence {seqc} does not match the writer (8, 4, payload)', nf=seqc)
    else:
        chk.assumed('C20-R4', CL, 'main', 'client source present', 'pipe_asdf/client.c not found; reader agreement not checked')
    # ---- R5: the default pipe is sys.stdout.buffer: anything printed to standard output lands inside the binary stream
    bad_out = []
    for n in ast.walk(src.tree(PA)):
        if isinstance(n, ast.Call) and dotted(n.func) == 'print':
            f = [k for k in n.keywords if k.arg == 'file']
            if not f or dotted(f[0].value) not in ('sys.stderr',):
                bad_out.append(n)
        if isinstance(n, ast.Call) and dotted(n.func) in ('sys.stdout.write', 'sys.stdout.buffer.write'):
            bad_out.append(n)
    chk.check(not bad_out, 'C20-R5', PA, '<module>', 'diagnostics go to sys.stderr only', '',
              '; '.join(f'line {n.lineno}: {unparse(n)[:60]}' for n in bad_out[:3]) + ': text written to standard output is interleaved with the count / width / payload frames', node=bad_out[0] if bad_out else None)


