"""C19 -- cumsum writes exactly the selected partial sums for every length."""
import ast

from ..core.lin import Lin
from ..core import prove
from ..core.kernels import analyse
from ..core.srcmodel import dotted, unparse, norm, walk_no_nested, AnalysisError, clone_pos
from ..spec.contracts import CONTRACTS

UTIL = 'abacusnbody/util.py'
CAT = 'abacusnbody/data/compaso_halo_catalog.py'
MENV = 'abacusnbody/hod/menv.py'
FILES = [UTIL, CAT, MENV]


def run(chk):
    src = chk.src
    chk.explanation = ('util.cumsum decided for all lengths N >= 0 and all four flag combinations: every subscript '
                       'is proven inside its array by linear-integer entailment under the function\'s own length '
                       'guard; the written index set is shown to tile [0, len(out)) exactly once; the accumulator '
                       'discipline and the rejection-before-store order are checked on the syntax tree; every call '
                       'site in the package passes an output of the matching length.')
    chk.rule('C19-R1', 'every subscript of cumsum is within bounds for all N >= 0 and all flags', 5)
    chk.rule('C19-R2', 'stores to out tile [0, len(out)) exactly once in every (initial, final, N) case', 12)
    chk.rule('C19-R3', 'each stored value is the running accumulator; every arr element is read/added exactly once (reads tile [0,N)); total returned', 16)
    chk.rule('C19-R4', 'a wrong-length out is rejected before any store', 1)
    chk.rule('C19-R5', 'call sites pass out of length len(arr) - 1 + initial + final', 3)
    chk.assume('numba wraps negative scalar indices; integer overflow of narrow dtypes is not modelled')
    fn = src.func(UTIL, 'cumsum')
    k = analyse_rec(src)
    # R1 ------------------------------------------------------------------
    from ..core.kernels import add_bounds_obligations
    add_bounds_obligations(chk, 'C19-R1', UTIL, 'cumsum', CONTRACTS, k=k)
    # R4 ------------------------------------------------------------------
    ok4 = bool(k.stores)
    for arr, axis, idx, st, node in k.stores:
        out = st.env.get('out')
        arrv = st.env.get('arr')
        if out is None or arrv is None:
            ok4 = False
            continue
        want = arrv.dim(0, st.facts) - 1 + _flag(st, 'initial') + _flag(st, 'final')
        d = out.dim(0, st.facts)
        if not (prove.entails_ge(st, d - want) and prove.entails_ge(st, want - d)):
            ok4 = False
            chk.refuted('C19-R4', UTIL, 'cumsum', f'store {unparse(node)} not guarded by len(out) == N-1+initial+final',
                        'a store to out is reachable with an output of the wrong length', node=node)
    if ok4:
        chk.proven('C19-R4', UTIL, 'cumsum', 'all stores dominated by length check',
                   f'{len(k.stores)} stores; len(out) == len(arr)-1+initial+final holds at each')
    # R2 ------------------------------------------------------------------
    coverage(chk, k)
    coverage(chk, k, rule='C19-R3', array='arr', accs=k.loads, what='reads of arr')
    # R3 ------------------------------------------------------------------
    accumulator(chk, fn)
    # R5 ------------------------------------------------------------------
    callsites(chk)


def analyse_rec(src):
    from ..core.bounds_stmt import KernelS
    from ..core.kernels import tiny_helpers, module_consts, finalize
    k = KernelS(src, UTIL, 'cumsum', CONTRACTS.get(f'{UTIL}:cumsum', {}), tiny_helpers(src, UTIL), module_consts(src, UTIL))
    k.record_stores = True
    k.run()
    finalize(k)
    return k


def _flag(st, name):
    v = st.env.get(name)
    return v.lin if v is not None and hasattr(v, 'lin') else Lin.sym(name)


def coverage(chk, k, rule='C19-R2', array='out', accs=None, what='stores to out'):
    """For each (initial, final) in {0,1}^2 and N in {0, 1, >=2}: active accesses to `array` as half-open
    index intervals; they must abut from 0 to len(array) without gap or overlap."""
    accs = [s for s in (k.stores if accs is None else accs) if s[0] == array]
    for ini in (0, 1):
        for fin in (0, 1):
            for ncase in ('N=0', 'N=1', 'N>=2'):
                key = f'{array}: initial={ini},final={fin},{ncase}'

                def case(st0):
                    st = st0.copy()
                    f = st.facts
                    f.add_eq(_flag(st, 'initial'), ini)
                    f.add_eq(_flag(st, 'final'), fin)
                    N = st.env['arr'].dim(0, f)
                    if ncase == 'N=0':
                        f.add_eq(N, 0)
                    elif ncase == 'N=1':
                        f.add_eq(N, 1)
                    else:
                        f.add_ge(N - 2)
                    return st if _consistent(st) else None

                ivs = []
                undecided = None
                for arr, axis, idx, st0, node in accs:
                    st = case(st0)
                    if st is None:
                        continue     # not reachable in this case
                    L = st.env[array].dim(0, st.facts)
                    lv = [s for s in idx.syms() if s in st.loopvars]
                    if lv:
                        if len(lv) != 1 or idx.t[lv[0]] != 1:
                            undecided = f'index {idx} not unit-stride in its loop variable'
                            break
                        a, b = st.loopvars[lv[0]]
                        # a guard on the path may cut the loop range to a prefix / suffix: use the tightest entailed bounds
                        v_ = Lin.sym(lv[0])
                        for l in list(st.facts.ge):
                            co = l.t.get(lv[0], 0)
                            if co == -1:
                                u = l + v_                      # v <= u
                                if lv[0] not in u.syms() and prove.entails_ge(st, (b - 1) - u) and not prove.entails_ge(st, u - (b - 1)):
                                    b = u + 1
                            elif co == 1:
                                w = v_ - l                      # v >= w
                                if lv[0] not in w.syms() and prove.entails_ge(st, w - a) and not prove.entails_ge(st, a - w):
                                    a = w
                        lo = idx.subst(lv[0], a)
                        hi = idx.subst(lv[0], b - 1) + 1
                    else:
                        i0 = idx
                        if prove.entails_ge(st, -i0 - 1):      # negative index wraps once
                            i0 = i0 + L
                        lo, hi = i0, i0 + 1
                    ivs.append((lo, hi, st, unparse(node)))
                if undecided:
                    chk.unknown(rule, UTIL, 'cumsum', key, undecided)
                    continue
                ends = [e for e in (case(r) for r in k.returns) if e is not None]
                if not ends:
                    chk.proven(rule, UTIL, 'cumsum', key, 'case rejected: every path raises before returning', nontrivial=False)
                    continue
                if not ivs:
                    ok = all(prove.entails_ge(e, -e.env[array].dim(0, e.facts)) for e in ends)
                    chk.check(ok, rule, UTIL, 'cumsum', key, f'no access and len({array}) == 0',
                              f'no {what} reachable but {array} can be non-empty (elements skipped)')
                    continue
                length = ivs[0][2].env[array].dim(0, ivs[0][2].facts)
                ok, why = _tiles(ivs, length)
                chk.check(ok, rule, UTIL, 'cumsum', key,
                          'intervals ' + ', '.join(f'[{a},{b})' for a, b, _, _ in ivs) + f' tile [0,{length})', why,
                          nf=[f'[{a},{b}) <- {t}' for a, b, _, t in ivs])


def _consistent(st):
    from ..core.lin import infeasible
    return infeasible(st.facts.ge, st.facts.eq) is not True


def _tiles(ivs, length):
    """Intervals (each with its own path state) must be orderable so that consecutive ones abut."""
    live = []
    for lo, hi, st, t in ivs:
        if prove.entails_ge(st, lo - hi):
            continue                       # provably empty
        live.append((lo, hi, st, t))
    if not live:
        st = ivs[0][2]
        return prove.entails_ge(st, -length), 'all accesses empty but the array may be non-empty'
    cur = Lin.const(0)
    remaining = list(live)
    st = live[0][2]
    while remaining:
        nxt = None
        for it in remaining:
            lo, hi, st, t = it
            if prove.entails_ge(st, lo - cur) and prove.entails_ge(st, cur - lo):
                nxt = it
                break
        if nxt is None:
            return False, (f'no access starts at index {cur}: an element is skipped or touched twice '
                           f'(remaining {[(str(a), str(b)) for a, b, _, _ in remaining]})')
        remaining.remove(nxt)
        cur = nxt[1]
        st = nxt[2]
    if prove.entails_ge(st, cur - length) and prove.entails_ge(st, length - cur):
        return True, ''
    return False, f'accesses end at {cur}, not at the array length {length}'


def accumulator(chk, fn, rule='C19-R3'):
    """R3: syntax-directed accumulator discipline."""
    f = 'cumsum'
    body = fn.body
    # the stored value name
    stores = [n for n in walk_no_nested(fn) if isinstance(n, ast.Assign) and isinstance(n.targets[0], ast.Subscript)
              and isinstance(n.targets[0].value, ast.Name) and n.targets[0].value.id == 'out']
    if not stores:
        raise AnalysisError('cumsum: no store to out found')
    accs = {unparse(s.value) for s in stores}
    chk.check(len(accs) == 1 and all(isinstance(s.value, ast.Name) for s in stores), rule, UTIL, f,
              'all stores write the same accumulator', f'stored values: {sorted(accs)}', 'stores write different expressions', node=stores[0])
    if not (len(accs) == 1 and isinstance(stores[0].value, ast.Name)):
        return
    acc = stores[0].value.id
    # definitions of the accumulator
    inits, adds, others = [], [], []

    def arr_term(e):
        """arr[<e>] or dtype(arr[<e>]) -> (subscript node, cast?)"""
        if isinstance(e, ast.Call) and isinstance(e.func, ast.Name) and e.func.id == 'dtype' and len(e.args) == 1 and not e.keywords:
            t = arr_term(e.args[0])
            return (t[0], True) if t else None
        if isinstance(e, ast.Subscript) and isinstance(e.value, ast.Name) and e.value.id == 'arr':
            return (e, False)
        return None

    class Add:
        """one accumulation statement, normalised: .value = the arr[...] subscript, .cast = the term is cast to the output type,
        .via = name of a type-dispatched add helper (acc = helper(acc, arr[e], <scalar of the output type>)) or None"""
        def __init__(self, node, sub, cast, via=None):
            self.node, self.value, self.cast, self.lineno, self.via = node, sub, cast, node.lineno, via
    for n in walk_no_nested(fn):
        if isinstance(n, ast.Assign) and any(isinstance(t, ast.Name) and t.id == acc for t in n.targets):
            v = n.value
            if isinstance(v, ast.Call) and isinstance(v.func, ast.Name) and v.func.id != 'dtype' and len(v.args) == 3 and not v.keywords \
                    and isinstance(v.args[0], ast.Name) and v.args[0].id == acc and arr_term(v.args[1]) and not arr_term(v.args[1])[1]:
                adds.append(Add(n, arr_term(v.args[1])[0], False, via=(v.func.id, v.args[2])))
                continue
            if isinstance(v, ast.Call) and isinstance(v.func, ast.Name) and v.func.id == 'dtype' and len(v.args) == 1 and isinstance(v.args[0], ast.BinOp):
                v = v.args[0]          # acc = dtype(acc + term)
            if isinstance(v, ast.BinOp) and isinstance(v.op, ast.Add):
                l, r = v.left, v.right
                t = arr_term(r) if isinstance(l, ast.Name) and l.id == acc else (arr_term(l) if isinstance(r, ast.Name) and r.id == acc else None)
                if t:
                    adds.append(Add(n, t[0], t[1]))
                    continue
            inits.append(n)
        elif isinstance(n, ast.AugAssign) and isinstance(n.target, ast.Name) and n.target.id == acc:
            t = arr_term(n.value) if isinstance(n.op, ast.Add) else None
            if t:
                adds.append(Add(n, t[0], t[1]))
            else:
                others.append(n)
    # the start value: the offset in the output type -- except a FLOAT offset into an INTEGER output, which is kept (F40): the partial sums
    # start from the offset and are converted on the store, like float terms; `dtype(offset)` truncated it before the first addition
    ok_init, why_init = False, ''
    if len(inits) == 1 and isinstance(inits[0].value, ast.Call) and isinstance(inits[0].value.func, ast.Name) and inits[0].value.args \
            and unparse(inits[0].value.args[0]) == 'offset' and not inits[0].value.keywords:
        c0 = inits[0].value
        if c0.func.id == 'dtype' and len(c0.args) == 1:
            why_init = ('total = dtype(offset): a fractional offset into an integer output is truncated before the first addition '
                        '(offset 0.5, terms [0.5, 0.5, 0.5] into int64: [0, 0, 1, 1] / 1.5 instead of [0, 1, 1, 2] / 2.0)')
        elif len(c0.args) == 2:
            ok_init, why_init = _typed_start_helper(chk.src, c0.func.id, c0.args[1], fn)
        else:
            why_init = f'start value {unparse(c0)[:50]} not understood'
    chk.check(ok_init and not others, rule, UTIL, f, 'accumulator starts at the offset (in the output type, a float offset into an integer output kept) and is only advanced by += arr[.]',
              f'init={unparse(inits[0]) if inits else None}; adds={[unparse(a.node) for a in adds]}',
              (why_init + '; ' if why_init else '') + f'accumulator updates: init={[unparse(i) for i in inits]} others={[unparse(o) for o in others]}',
              node=inits[0] if inits else fn)
    # element type of the accumulation.  Two ways to get it wrong, both seen: (F16) the plain `total += arr[i]` lets numba unify
    # uint64 + int64 to float64, rounding integer sums above 2**53; (F30) casting every term to the output type first,
    # `dtype(total + dtype(arr[i]))`, truncates float terms that go into an integer output (0.5+0.5+... stays 0) and rounds sums to
    # float32 term by term.  Right is a dispatch on the TYPES: integer (or bool) terms into an integer output are added in the
    # output type, every other pairing is added in the promoted type and converted on the store -- as numpy.cumsum(arr, out=out) does.
    dt = [n for n in walk_no_nested(fn) if isinstance(n, ast.Assign) and len(n.targets) == 1 and unparse(n.targets[0]) == 'dtype']
    okdt = len(dt) == 1 and unparse(dt[0].value) in ('out.dtype.type',)
    if not dt:
        # no local alias of the output type: fine when the scalar handed to the add helper is built from out.dtype directly
        okdt = all(any(isinstance(n_, ast.Assign) and len(n_.targets) == 1 and unparse(n_.targets[0]) == unparse(a_.via[1]) and unparse(n_.value) == 'out.dtype.type(0)'
                       for n_ in walk_no_nested(fn)) or unparse(a_.via[1]) == 'out.dtype.type(0)' for a_ in adds if a_.via is not None) and any(a_.via is not None for a_ in adds)
    plain = [a for a in adds if a.via is None and not a.cast]
    castall = [a for a in adds if a.via is None and a.cast]
    via = [a for a in adds if a.via is not None]
    okvia, whyvia = True, ''
    for a in via:
        o, w = _typed_add_helper(chk.src, a.via[0], a.via[1], fn)
        okvia, whyvia = okvia and o, whyvia or w
    chk.check(okdt and bool(via) and not plain and not castall and okvia, rule, UTIL, f,
              'integer terms into an integer output are added in the output type, every other pairing in the promoted type (type-dispatched add)',
              f'dtype = {unparse(dt[0].value) if dt else None}; {len(adds)} accumulation(s) through {sorted({a.via[0] for a in via})}',
              (f'{unparse(plain[0].node)}: the term is added in its own type; for a signed (or list) input and an unsigned 64-bit output numba unifies uint64 + int64 to float64, '
               'so partial sums above 2**53 are rounded and a float total is returned' if plain else
               f'{unparse(castall[0].node)}: every term is converted to the output type before it is added; a float input into an integer output is truncated term by term '
               '([0.5]*4 sums to 0, numpy.cumsum(arr, out=out) gives [0,1,1,2]) and sums into float32 are rounded term by term' if castall else
               f'type-dispatched add helper not as required: {whyvia}'),
              node=(plain + castall + via)[0].node if adds else fn)
    # loop: exactly one add of arr[loopvar] before the store, in the loop over range(N-1); plus arr[-1] outside
    loops = [n for n in body if isinstance(n, ast.For)]
    ok_loop = False
    detail = ''
    if len(loops) == 1:
        lp = loops[0]
        lv = lp.target.id if isinstance(lp.target, ast.Name) else None
        ladds = [a for a in adds if any(a.node is x for x in ast.walk(lp))]
        lstores = [s for s in stores if any(s is x for x in ast.walk(lp))]
        if len(ladds) == 1 and len(lstores) == 1 and lv and unparse(ladds[0].value.slice) == lv:
            # the add must be an unconditional statement of the loop body; the store follows it (possibly under a guard)
            seq = [x for x in walk_no_nested(lp) if x is ladds[0].node or x is lstores[0]]
            ok_loop = len(seq) == 2 and seq[0] is ladds[0].node and any(x is ladds[0].node for x in lp.body)
            detail = f'loop adds arr[{lv}] then stores'
        else:
            detail = f'loop adds={[unparse(a.node) for a in ladds]} stores={[unparse(s) for s in lstores]}'
        tail = [a for a in adds if a not in ladds]
        # every read of arr is an accumulation (so read coverage above == add coverage)
        reads = [n for n in walk_no_nested(fn) if isinstance(n, ast.Subscript) and isinstance(n.value, ast.Name)
                 and n.value.id == 'arr' and isinstance(n.ctx, ast.Load)]
        ok_reads = len(reads) == len(adds)
        chk.check(ok_loop and len(tail) <= 1 and ok_reads, rule, UTIL, f,
                  'in the loop the element is added before the store; every read of arr is an accumulation',
                  f'{detail}; tail={[unparse(t.node) for t in tail]}',
                  f'accumulation order broken: {detail}; tail adds={[unparse(t.node) for t in tail]}; reads={len(reads)} adds={len(adds)}', node=lp)
    else:
        chk.refuted(rule, UTIL, f, 'single accumulation loop', f'{len(loops)} top-level loops', node=fn)
    rets = [n for n in walk_no_nested(fn) if isinstance(n, ast.Return)]
    chk.check(len(rets) >= 1 and all(isinstance(r.value, ast.Name) and r.value.id == acc for r in rets), rule, UTIL, f,
              'the accumulator is returned', f'returns {[unparse(r) for r in rets]}', 'return value is not the accumulator',
              node=rets[0] if rets else fn)


def _typed_add_helper(src, name, like_arg, caller):
    """The helper `name(total, x, like)` must be implemented through numba.extending.overload with exactly this dispatch:
       x integer/bool AND like integer  ->  T(total + T(x)) with T the type of `like`;   otherwise  ->  total + x.
    `like_arg` (third argument at the call) must be a scalar of the output type: dtype(0) or a name bound to it."""
    mod = src.tree(UTIL)
    la = unparse(like_arg)
    if la not in ('dtype(0)',):
        ds = [n for n in walk_no_nested(caller) if isinstance(n, ast.Assign) and len(n.targets) == 1 and unparse(n.targets[0]) == la]
        if not (len(ds) == 1 and unparse(ds[0].value) in ('dtype(0)', 'dtype(offset)', 'out.dtype.type(0)')):
            return False, f'third argument {la} is not a scalar of the output type'
    ovs = [n for n in mod.body if isinstance(n, ast.FunctionDef) and any(isinstance(d, ast.Call) and dotted(d.func).split('.')[-1] == 'overload' and d.args
                                                                         and unparse(d.args[0]) == name for d in n.decorator_list)]
    if len(ovs) != 1:
        return False, f'{len(ovs)} numba overloads of {name} found'
    ov = ovs[0]
    ps = [a.arg for a in ov.args.args]
    if len(ps) != 3:
        return False, 'overload signature is not (total, x, like)'
    # Evaluate the overload for every pairing of argument type classes: the function is a small decision procedure over
    # isinstance tests of its parameters, so it is interpreted (not pattern-matched) and the implementation it returns is
    # compared with the required one.  Anything the interpreter does not know makes the rule fail closed.
    # (the running total is a float whenever a float offset went into an integer output: then nothing may be added in the output type)
    seen = 0
    for tk in ('Integer', 'Float'):
      for xk in ('Integer', 'Boolean', 'Float'):
        for lk in ('Integer', 'Float'):
            if tk == 'Integer' and lk == 'Float':
                continue                  # the total starts as T(offset): an integer total with a float output does not occur
            try:
                clo = _Dispatch(mod, {ps[0]: tk, ps[1]: xk, ps[2]: lk}, ps).call(ov, [_TypeOf(p) for p in ps])
            except _NoEval as e:
                return False, f'overload of {name} cannot be evaluated for total:{tk}, x:{xk}, like:{lk}: {e}'
            if not isinstance(clo, _Closure):
                return False, f'overload of {name} returns no implementation for total:{tk}, x:{xk}, like:{lk}'
            expr = clo.returned(ps)
            if expr is None:
                return False, f'implementation {clo.fn.name} for total:{tk}, x:{xk}, like:{lk} is not a single returned expression'
            want_int = tk == 'Integer' and xk in ('Integer', 'Boolean') and lk == 'Integer'
            if want_int and expr not in ('T(total+T(x))', 'T(T(x)+total)'):
                return False, f'for total:{tk}, x:{xk}, like:{lk} the implementation returns {expr}, need T(total + T(x)) with T = type of like'
            if not want_int and expr not in ('total+x', 'x+total'):
                return False, (f'for total:{tk}, x:{xk}, like:{lk} the implementation returns {expr}, need total + x' +
                               (' (a float running total -- a fractional offset into an integer output -- must not be truncated term by term)' if tk == 'Float' and lk == 'Integer' else ''))
            seen += 1
    return seen == 9, ''


def _typed_start_helper(src, name, like_arg, caller):
    """`name(offset, like)`: overload returning `offset` itself for (offset float, like integer) and `T(offset)` (T = type of like) otherwise."""
    mod = src.tree(UTIL)
    la = unparse(like_arg)
    array_form = la == 'out'                   # the output array itself: the overload reads its element type as out.dtype
    if la != 'dtype(0)' and not array_form:
        ds = [n for n in walk_no_nested(caller) if isinstance(n, ast.Assign) and len(n.targets) == 1 and unparse(n.targets[0]) == la]
        if not (len(ds) == 1 and unparse(ds[0].value) in ('dtype(0)', 'out.dtype.type(0)')):
            return False, f'second argument {la} of {name} is not a scalar of the output type (or the output array)'
    ovs = [n for n in mod.body if isinstance(n, ast.FunctionDef) and any(isinstance(d, ast.Call) and dotted(d.func).split('.')[-1] == 'overload' and d.args
                                                                         and unparse(d.args[0]) == name for d in n.decorator_list)]
    if len(ovs) != 1:
        return False, f'{len(ovs)} numba overloads of {name} found'
    ov = ovs[0]
    ps = [a.arg for a in ov.args.args]
    if len(ps) != 2:
        return False, f'overload of {name} does not take (offset, like)'
    for ok_ in ('Integer', 'Boolean', 'Float'):
        for lk in ('Integer', 'Float'):
            try:
                clo = _Dispatch(mod, {ps[0]: ok_, ps[1]: lk}, ps + ['<none>'], array_params=[ps[1]] if array_form else ()).call(ov, [_TypeOf(p) for p in ps])
            except _NoEval as e:
                return False, f'overload of {name} cannot be evaluated for offset:{ok_}, like:{lk}: {e}'
            if not isinstance(clo, _Closure):
                return False, f'overload of {name} returns no implementation for offset:{ok_}, like:{lk}'
            expr = clo.returned2(ps)
            keep = ok_ == 'Float' and lk == 'Integer'
            if keep and expr != 'offset':
                return False, f'for a float offset into an integer output the start value is {expr}, need the offset itself'
            if not keep and expr != 'T(offset)':
                return False, f'for offset:{ok_}, like:{lk} the start value is {expr}, need T(offset) with T = type of like'
    return True, ''


class _NoEval(Exception):
    pass


class _TypeOf:
    """The numba type object bound to a parameter of the overload (via_dtype: the element type `.dtype` of an array parameter)."""
    def __init__(self, param, via_dtype=False):
        self.param, self.via_dtype = param, via_dtype


class _Closure:
    def __init__(self, fn, env):
        self.fn, self.env = fn, env

    def returned(self, ovparams):
        """Canonical text of the single returned expression: own parameters -> total/x/like by position, free names
        bound to the type of `like` -> T; local single assignments are substituted."""
        ps = [a.arg for a in self.fn.args.args]
        if len(ps) != 3:
            return None
        body = [n for n in self.fn.body if not (isinstance(n, ast.Expr) and isinstance(n.value, ast.Constant))]
        local = {}
        for n in body[:-1]:
            if isinstance(n, ast.Assign) and len(n.targets) == 1 and isinstance(n.targets[0], ast.Name):
                local[n.targets[0].id] = n.value
            else:
                return None
        if not body or not isinstance(body[-1], ast.Return) or body[-1].value is None:
            return None
        canon = dict(zip(ps, ('total', 'x', 'like')))
        env = self.env

        class Sub(ast.NodeTransformer):
            def visit_Name(s, n):
                if n.id in local:
                    return s.visit(local[n.id])
                if n.id in canon:
                    return ast.Name(id=canon[n.id], ctx=ast.Load())
                v = env.get(n.id)
                if isinstance(v, _TypeOf):
                    return ast.Name(id='T' if v.param == ovparams[2] else f'typeof_{v.param}', ctx=ast.Load())
                return n
        import copy
        e = Sub().visit(clone_pos(body[-1].value))
        return unparse(e).replace(' ', '')


def _returned2(self, ovparams):
    ps = [a.arg for a in self.fn.args.args]
    body = [n for n in self.fn.body if not (isinstance(n, ast.Expr) and isinstance(n.value, ast.Constant))]
    if len(ps) != 2 or len(body) != 1 or not isinstance(body[0], ast.Return) or body[0].value is None:
        return None
    canon = dict(zip(ps, ('offset', 'like')))
    env = self.env

    class Sub(ast.NodeTransformer):
        def visit_Name(s, n):
            if n.id in canon:
                return ast.Name(id=canon[n.id], ctx=ast.Load())
            v = env.get(n.id)
            if isinstance(v, _TypeOf):
                return ast.Name(id='T' if v.param == ovparams[1] else f'typeof_{v.param}', ctx=ast.Load())
            return n
    return unparse(Sub().visit(clone_pos(body[0].value))).replace(' ', '')


_Closure.returned2 = _returned2


class _Dispatch:
    """Interpreter for the type-dispatch function of numba.extending.overload: straight-line code, if/else, isinstance tests of
    the parameters against numba type classes, nested implementation functions, module-level factories."""
    # numba's scalar class hierarchy: Number > {Integer, Float, Complex}; Boolean is not a Number
    KNOWN = {'Integer': {'Integer'}, 'Boolean': {'Boolean'}, 'Float': {'Float'}, 'Number': {'Integer', 'Float'}, 'Complex': set()}

    def __init__(self, mod, kinds, ovparams, array_params=()):
        self.mod, self.kinds, self.ovparams = mod, kinds, ovparams
        self.array_params = set(array_params)      # parameters that are arrays: their kind is that of `.dtype`, the array type itself is no scalar class
        self.mfuncs = {n.name: n for n in mod.body if isinstance(n, ast.FunctionDef)}
        self.depth = 0

    def call(self, fn, args):
        self.depth += 1
        if self.depth > 4:
            raise _NoEval('call depth')
        ps = [a.arg for a in fn.args.args]
        if len(ps) != len(args) or fn.args.vararg or fn.args.kwarg or fn.args.kwonlyargs:
            raise _NoEval(f'call of {fn.name} with {len(args)} argument(s)')
        env = dict(zip(ps, args))
        r = self.block(fn.body, env)
        self.depth -= 1
        return r[1] if r else None

    def block(self, stmts, env):
        for n in stmts:
            if isinstance(n, ast.Expr) and isinstance(n.value, ast.Constant):
                continue
            if isinstance(n, ast.Pass):
                continue
            if isinstance(n, ast.FunctionDef):
                env[n.name] = _Closure(n, env)
                continue
            if isinstance(n, ast.Assign) and len(n.targets) == 1 and isinstance(n.targets[0], ast.Name):
                env[n.targets[0].id] = self.ev(n.value, env)
                continue
            if isinstance(n, ast.If):
                t = self.ev(n.test, env)
                if not isinstance(t, bool):
                    raise _NoEval(f'test {unparse(n.test)[:60]} is not decided by the argument types')
                r = self.block(n.body if t else n.orelse, env)
                if r:
                    return r
                continue
            if isinstance(n, ast.Return):
                return ('ret', self.ev(n.value, env) if n.value is not None else None)
            raise _NoEval(f'statement {unparse(n)[:60]}')
        return None

    def _lazy(self, x, env):
        return self.ev(x, env)

    def ev(self, e, env):
        if isinstance(e, ast.Constant) and isinstance(e.value, bool):
            return e.value
        if isinstance(e, ast.Name):
            if e.id in env:
                return env[e.id]
            if e.id in self.mfuncs:
                return _Closure(self.mfuncs[e.id], {})
            raise _NoEval(f'name {e.id}')
        if isinstance(e, ast.Lambda):
            fn = ast.FunctionDef(name='<lambda>', args=e.args, body=[ast.Return(value=e.body)], decorator_list=[])
            return _Closure(fn, env)
        if isinstance(e, ast.UnaryOp) and isinstance(e.op, ast.Not):
            v = self.ev(e.operand, env)
            if not isinstance(v, bool):
                raise _NoEval(unparse(e)[:60])
            return not v
        if isinstance(e, ast.BoolOp):
            vs = [self.ev(v, env) for v in e.values]
            if not all(isinstance(v, bool) for v in vs):
                raise _NoEval(unparse(e)[:60])
            return all(vs) if isinstance(e.op, ast.And) else any(vs)
        if isinstance(e, ast.Attribute) and e.attr == 'dtype':
            v = self.ev(e.value, env)
            if isinstance(v, _TypeOf) and v.param in self.array_params and not v.via_dtype:
                return _TypeOf(v.param, via_dtype=True)
            raise _NoEval(unparse(e)[:60])
        if isinstance(e, (ast.Tuple, ast.List)):
            return tuple(self._lazy(x, env) for x in e.elts)
        if isinstance(e, ast.Attribute) and (dotted(e) or '').split('.')[-1] in self.KNOWN:
            return ('typeclass', dotted(e).split('.')[-1])
        if isinstance(e, ast.Call) and isinstance(e.func, ast.Name) and e.func.id in ('all', 'any') and len(e.args) == 1 and not e.keywords \
                and isinstance(e.args[0], (ast.GeneratorExp, ast.ListComp)) and len(e.args[0].generators) == 1 and not e.args[0].generators[0].ifs \
                and isinstance(e.args[0].generators[0].target, ast.Name):
            g = e.args[0]
            it = self.ev(g.generators[0].iter, env)
            if not isinstance(it, tuple):
                raise _NoEval(unparse(e)[:60])
            vals = [self.ev(g.elt, dict(env, **{g.generators[0].target.id: v})) for v in it]
            if not all(isinstance(v, bool) for v in vals):
                raise _NoEval(unparse(e)[:60])
            return all(vals) if e.func.id == 'all' else any(vals)
        if isinstance(e, ast.IfExp):
            t = self.ev(e.test, env)
            if not isinstance(t, bool):
                raise _NoEval(unparse(e.test)[:60])
            return self.ev(e.body if t else e.orelse, env)
        if isinstance(e, ast.Call) and isinstance(e.func, ast.Name) and e.func.id == 'isinstance' and len(e.args) == 2 and not e.keywords:
            v = self.ev(e.args[0], env)
            if not isinstance(v, _TypeOf) or v.param not in self.kinds:
                raise _NoEval(f'isinstance of {unparse(e.args[0])[:40]}')
            if v.param in self.array_params and not v.via_dtype:
                self.ev(e.args[1], env)
                return False             # an array type is none of Integer / Boolean / Float
            cl = self.ev(e.args[1], env)
            classes = cl if isinstance(cl, tuple) and not (len(cl) == 2 and cl[0] == 'typeclass') else (cl,)
            kind = self.kinds[v.param]
            res = False
            for c in classes:
                if not (isinstance(c, tuple) and len(c) == 2 and c[0] == 'typeclass'):
                    raise _NoEval(f'type class {unparse(e.args[1])[:40]}')
                res = res or kind in self.KNOWN.get(c[1], {c[1]})
            return res
        if isinstance(e, ast.Call) and isinstance(e.func, ast.Name) and not e.keywords:
            f = self.ev(e.func, env)
            if isinstance(f, _Closure) and not f.env and f.fn.name in self.mfuncs:
                return self.call(f.fn, [self.ev(a, env) for a in e.args])
        raise _NoEval(f'expression {unparse(e)[:60]}')


# ------------------------------------------------------------------ call sites
def _len_of(node, fn, depth=0):
    """Symbolic length of an expression in a caller (Lin over opaque 'len(...)' symbols)."""
    if depth > 6:
        return None
    if isinstance(node, ast.Name):
        d = _last_def(fn, node.id, node)
        if d is not None:
            return _len_of(d, fn, depth + 1)
        return Lin.sym(f'len({node.id})')
    if isinstance(node, ast.Subscript) and isinstance(node.slice, (ast.Constant, ast.JoinedStr)):
        return Lin.sym(f'len({unparse(node.value)})')       # table column: one entry per row
    if isinstance(node, ast.Subscript) and not isinstance(node.slice, ast.Slice):
        d = _last_def(fn, unparse(node), node)
        if d is not None:
            return _len_of(d, fn, depth + 1)
        return Lin.sym(f'len({unparse(node)})')
    if isinstance(node, ast.BinOp):
        a = _len_of(node.left, fn, depth + 1)
        b = _len_of(node.right, fn, depth + 1)
        return a if a is not None and a == b else None
    if isinstance(node, ast.Call):
        cn = dotted(node.func)
        if cn in ('np.empty', 'np.zeros', 'np.ones') and node.args:
            return _int_of(node.args[0], fn)
        if cn in ('np.array', 'np.asarray') and node.args:
            return _len_of(node.args[0], fn, depth + 1)
        if cn == 'np.fromiter' and node.args:
            # np.fromiter(<generator over X without filter>, dtype, count=len(X))  has len(X) items
            cnt = [k.value for k in node.keywords if k.arg == 'count'] or list(node.args[2:3])
            g = node.args[0]
            if isinstance(g, ast.GeneratorExp) and len(g.generators) == 1 and not g.generators[0].ifs:
                n_it = _len_of(g.generators[0].iter, fn, depth + 1)
                if not cnt or (_int_of(cnt[0], fn) is not None and _int_of(cnt[0], fn) == n_it):
                    return n_it
    if isinstance(node, ast.ListComp) and len(node.generators) == 1 and not node.generators[0].ifs:
        return _len_of(node.generators[0].iter, fn, depth + 1)
    return Lin.sym(f'len({unparse(node)})')


def _int_of(node, fn):
    if isinstance(node, ast.Constant) and isinstance(node.value, int):
        return Lin.const(node.value)
    if isinstance(node, ast.BinOp) and isinstance(node.op, (ast.Add, ast.Sub)):
        a, b = _int_of(node.left, fn), _int_of(node.right, fn)
        if a is None or b is None:
            return None
        return a + b if isinstance(node.op, ast.Add) else a - b
    if isinstance(node, ast.Call) and dotted(node.func) == 'len' and node.args:
        return _len_of(node.args[0], fn)
    return None


def _last_def(fn, name, before):
    """The single assignment 'name = expr' textually preceding `before` in fn (None if ambiguous)."""
    cands = []
    for n in walk_no_nested(fn):
        if isinstance(n, ast.Assign) and len(n.targets) == 1 and unparse(n.targets[0]) == name \
                and n.lineno < before.lineno:
            cands.append(n)
    if not cands:
        return None
    return cands[-1].value if len(cands) == 1 or True else None


def callsites(chk):
    src = chk.src
    found = 0
    for rel in (CAT, MENV):
        aliases = src.import_aliases(rel)
        for q, fn in src.functions(rel).items():
            for node in walk_no_nested(fn):
                if not isinstance(node, ast.Call):
                    continue
                cn = dotted(node.func)
                if not (cn == 'util.cumsum' or (cn == 'cumsum' and aliases.get('cumsum', '').endswith('util.cumsum'))):
                    continue
                found += 1
                args = {a: v for a, v in zip(('arr', 'out', 'initial', 'final', 'offset'), node.args)}
                args.update({k.arg: k.value for k in node.keywords})
                ini = _const_flag(args.get('initial'), False)
                fin = _const_flag(args.get('final'), True)
                key = f'call cumsum({unparse(args.get("arr"))}, {unparse(args.get("out"))})'
                if ini is None or fin is None or 'arr' not in args or 'out' not in args:
                    chk.unknown('C19-R5', rel, q, key, 'flags or arrays not literal', node=node)
                    continue
                # numba cannot type an EMPTY reflected list ("cannot compute fingerprint of empty list"): a call site that builds the
                # input as a Python list fails for length 0, which the property includes
                av = args['arr']
                if isinstance(av, ast.Name):
                    ds_ = [n_ for n_ in walk_no_nested(fn) if isinstance(n_, ast.Assign) and len(n_.targets) == 1 and unparse(n_.targets[0]) == av.id]
                    av = ds_[-1].value if len(ds_) == 1 else av
                is_list = isinstance(av, (ast.List, ast.ListComp)) or (isinstance(av, ast.Call) and dotted(av.func) in ('list', 'sorted'))
                chk.check(not is_list, 'C19-R5', rel, q, key + ': input is an array, not a Python list', unparse(av)[:50],
                          f'the input {unparse(av)[:60]} is a Python list: for an empty list numba raises "cannot compute fingerprint of empty list", '
                          'so the length-0 case fails although the output length is right', node=node, nontrivial=False)
                la = _len_of(args['arr'], fn)
                lo = _len_of(args['out'], fn)
                if la is None or lo is None:
                    chk.unknown('C19-R5', rel, q, key, 'length of arr/out not resolvable', node=node)
                    continue
                want = la - 1 + int(ini) + int(fin)
                chk.check(lo == want, 'C19-R5', rel, q, key, f'len(out) = {lo} == len(arr)-1+{int(ini)}+{int(fin)} = {want}',
                          f'len(out) = {lo} but cumsum requires {want}: the call raises (or writes the wrong slots)', node=node)
    if found == 0:
        raise AnalysisError('no call site of util.cumsum found')


def _const_flag(node, default):
    if node is None:
        return default
    if isinstance(node, ast.Constant) and isinstance(node.value, bool):
        return node.value
    return None
