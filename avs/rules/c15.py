"""C15 -- pack9 streams decode one particle per record relative to its cell header."""
import ast
from fractions import Fraction

from ..core.bits import BV, ZERO
from ..core.poly import Poly
from ..core.bitpoly import BPEval, NotInDomain, to_poly
from ..core.srcmodel import dotted, unparse, norm, walk_no_nested, AnalysisError, names_in, stores_in, clone_pos

P9 = 'abacusnbody/data/pack9.py'
RA = 'abacusnbody/data/read_abacus.py'
FILES = [P9, 'abacusnbody/data/read_abacus.py']


def run(chk):
    src = chk.src
    chk.explanation = ('_expand_to_short is evaluated in the bit-provenance domain over the 72 input bits of a record (all byte '
                       'patterns at once): the six shorts must partition those bits, 12 each at positions 0-11, then be biased by '
                       '-2048. _unpack_pack9 is checked for record discipline (headers store nothing; particles store at the write '
                       'counter, incremented once; the counter is returned) and its position/velocity formulas are normalised to '
                       'exact polynomials in the header and particle shorts and compared across the three axes and with the '
                       'cell-header form (one bias constant used consistently).')
    chk.rule('C15-R1', 'nibble expansion is a bijection: 6 x 12 distinct input bits at positions 0-11; bias -2048 on all six', 8)
    chk.rule('C15-R2', 'record discipline: header branch stores no output; particle branch stores at the write counter, +1 once; counter returned; wrapper truncates', 5)
    chk.rule('C15-R3', 'axis agreement: pos_a from short a and cell_a (header short 3+a); vel_a from short 3+a; one consistent bias', 7)
    chk.rule('C15-R6', 'read_asdf: a pack9 read keeps max(npos, nvel) rows, so the particle count does not depend on which of pos / vel was requested', 1)
    chk.rule('C15-R5', 'output selection: pos/vel stores under their own flags only; wrapper treats posout/velout symmetrically', 2)
    chk.assume('no independent description of the pack9 constants exists in the repository: the oracle is internal consistency plus the property statement')
    expand(chk)
    unpack(chk)
    wrapper(chk)
    from . import c16
    ok6, why6, node6 = c16.decoder_call(src, 'unpack_pack9')
    chk.check(ok6, 'C15-R6', c16.RA, c16.Q, 'pack9 branch of read_asdf: buffers, scales and row count', '', f'unpack_pack9 in read_asdf: {why6}', node=node6)


def expand(chk):
    src = chk.src
    fn = src.func(P9, '_expand_to_short')
    cp, sp = [a.arg for a in fn.args.args][:2]

    def inp(node):
        if isinstance(node.value, ast.Name) and node.value.id == cp and isinstance(node.slice, ast.Constant):
            return BV.input(f'{cp}.{node.slice.value}', 8, False)
        return None
    shorts = {}
    bias = {}
    for s in fn.body:
        if isinstance(s, ast.Assign) and isinstance(s.targets[0], ast.Subscript) and isinstance(s.targets[0].value, ast.Name) \
                and s.targets[0].value.id == sp and isinstance(s.targets[0].slice, ast.Constant):
            k = s.targets[0].slice.value
            try:
                shorts[k] = (BPEval({}, inp).ev(s.value), s)
            except NotInDomain as e:
                chk.refuted('C15-R1', P9, '_expand_to_short', f's[{k}]', f'not a bit rearrangement: {e}', node=s)
                shorts[k] = (None, s)
        elif isinstance(s, ast.For) and dotted(s.iter.func) == 'range' and len(s.iter.args) == 1 and isinstance(s.iter.args[0], ast.Constant):
            n = s.iter.args[0].value
            for b in s.body:
                if isinstance(b, ast.AugAssign) and isinstance(b.op, ast.Sub) and isinstance(b.target, ast.Subscript) \
                        and unparse(b.target) == f'{sp}[{s.target.id}]' and isinstance(b.value, ast.Constant):
                    for k in range(n):
                        bias[k] = bias.get(k, 0) + b.value.value
        elif isinstance(s, ast.AugAssign) and isinstance(s.op, ast.Sub) and isinstance(s.target, ast.Subscript) \
                and isinstance(s.target.slice, ast.Constant) and isinstance(s.value, ast.Constant):
            bias[s.target.slice.value] = bias.get(s.target.slice.value, 0) + s.value.value
    if len(shorts) < 6:
        # fields that are stored only on some paths (under a flag, in a branch): the header test and the cell index of a header record
        # read ALL six fields of every record, whatever outputs were requested
        cond = sorted({n.targets[0].slice.value for b in fn.body if isinstance(b, (ast.If, ast.For, ast.While)) for n in ast.walk(b)
                       if isinstance(n, ast.Assign) and isinstance(n.targets[0], ast.Subscript) and isinstance(n.targets[0].value, ast.Name)
                       and n.targets[0].value.id == sp and isinstance(n.targets[0].slice, ast.Constant)} - set(shorts))
        if cond and len(shorts) + len(cond) >= 6:
            chk.refuted('C15-R1', P9, '_expand_to_short', 'all six 12-bit fields of a record are expanded unconditionally',
                        f'fields {cond} are stored only on some paths: a header record keeps its cell index in fields 3..5, so when they are skipped every later '
                        'position is decoded relative to stale / uninitialised cell indices (the result depends on which outputs were requested)', node=fn)
            return
        raise AnalysisError(f'_expand_to_short: only {len(shorts)} short stores recognised')
    allbits = []
    for k in range(6):
        v, node = shorts.get(k, (None, fn))
        if v is None:
            if k not in shorts:
                chk.refuted('C15-R1', P9, '_expand_to_short', f's[{k}]', 'short never stored', node=fn)
            continue
        low = [b for b in v.bits[:12]]
        high = set(v.bits[12:])
        okk = all(b[0] == 'b' for b in low) and len(set(low)) == 12 and high <= {ZERO}
        # nibble order: contiguous runs of input bits keep their order (each run is ascending)
        chk.check(okk, 'C15-R1', P9, '_expand_to_short', f's[{k}] 12 distinct input bits at positions 0-11',
                  f'{v.describe()}', f'short {k} is {v.describe()} (needs 12 distinct input bits in bits 0-11 and nothing above)',
                  node=node, nf=str(v.describe()))
        allbits += [b for b in v.bits if b[0] == 'b']
    want = {('b', f'{cp}.{j}', k) for j in range(9) for k in range(8)}
    dup = len(allbits) - len(set(allbits))
    missing = sorted(want - set(allbits))
    chk.check(dup == 0 and not missing and set(allbits) <= want, 'C15-R1', P9, '_expand_to_short', 'partition of the 72 record bits',
              f'{len(set(allbits))} distinct bits used, 0 duplicated', f'{dup} bits used twice; unused bits {missing[:6]}', node=fn)
    # sibling agreement: short k uses bytes of triple k//2 in the same shape as short k%2
    for k in range(2, 6):
        v, node = shorts[k]
        r, _ = shorts[k % 2]
        if v is None or r is None:
            continue
        shift = 3 * (k // 2)
        mapped = tuple((b if b[0] != 'b' else ('b', f'{cp}.{int(b[1].split(".")[1]) + shift}', b[2])) for b in r.bits)
        chk.check(mapped == v.bits, 'C15-R3', P9, '_expand_to_short', f's[{k}] has the shape of s[{k % 2}] on byte triple {k // 2}',
                  '', f's[{k}] = {v.describe()} differs from s[{k % 2}] shifted by {shift} bytes', node=node)
    okb = all(bias.get(k) == 2048 for k in range(6))
    chk.check(okb, 'C15-R1', P9, '_expand_to_short', 'bias -2048 applied once to each of the six shorts', f'{bias}',
              f'bias table {bias} (need 2048 for k=0..5)', node=fn)


def _loop_local_value(lp, use, name, mod):
    """Value of `name` at statement `use` of the loop body when it is bound exactly once in the loop, by an earlier top-level
    `name = value` of the same iteration, and no name read by `value` is re-bound or handed to a callee that writes into it in between."""
    if use not in lp.body:
        return None
    stores = [n for n in walk_no_nested(lp) if isinstance(n, ast.Name) and n.id == name and isinstance(n.ctx, ast.Store)]
    defs = [s for s in lp.body[:lp.body.index(use)] if isinstance(s, ast.Assign) and len(s.targets) == 1 and isinstance(s.targets[0], ast.Name) and s.targets[0].id == name]
    if len(stores) != 1 or len(defs) != 1:
        return None
    d = defs[0]
    reads = {n.id for n in ast.walk(d.value) if isinstance(n, ast.Name)}
    funcs = {f.name: f for f in mod.body if isinstance(f, ast.FunctionDef)}
    for st in lp.body[lp.body.index(d) + 1:lp.body.index(use)]:
        for n in ast.walk(st):
            if isinstance(n, ast.Name) and isinstance(n.ctx, ast.Store) and n.id in reads:
                return None
            if isinstance(n, (ast.Subscript, ast.Attribute)) and isinstance(n.ctx, ast.Store):
                b = n
                while isinstance(b, (ast.Subscript, ast.Attribute)):
                    b = b.value
                if isinstance(b, ast.Name) and b.id in reads:
                    return None
            if isinstance(n, ast.Call):
                f = funcs.get(n.func.id) if isinstance(n.func, ast.Name) else None
                for i, a in enumerate(n.args):
                    an = {x.id for x in ast.walk(a) if isinstance(x, ast.Name)}
                    if not (an & reads):
                        continue
                    if f is None or n.keywords or i >= len(f.args.args):
                        return None
                    par = f.args.args[i].arg
                    # the callee must only read this parameter: no store through it, not passed on, not returned
                    for x in ast.walk(f):
                        if isinstance(x, (ast.Subscript, ast.Attribute)) and isinstance(x.ctx, ast.Store):
                            b = x
                            while isinstance(b, (ast.Subscript, ast.Attribute)):
                                b = b.value
                            if isinstance(b, ast.Name) and b.id == par:
                                return None
                        if isinstance(x, ast.Call) and any(isinstance(y, ast.Name) and y.id == par for arg in x.args for y in ast.walk(arg)) \
                                and not (dotted(x.func) or '').startswith(('np.', 'int', 'len')):
                            return None
                        if isinstance(x, ast.Name) and x.id == par and isinstance(x.ctx, ast.Store):
                            return None
                for k in n.keywords:
                    if {x.id for x in ast.walk(k.value) if isinstance(x, ast.Name)} & reads:
                        return None
    import copy
    return clone_pos(d.value)


def unpack(chk):
    src = chk.src
    fn = src.func(P9, '_unpack_pack9')
    params = [a.arg for a in fn.args.args]
    if len(params) < 6:
        raise AnalysisError('_unpack_pack9 signature changed')
    data, boxp, velzp, posn, veln, dtp = params[:6]
    loops = [s for s in fn.body if isinstance(s, ast.For)]
    if len(loops) != 1:
        chk.refuted('C15-R2', P9, '_unpack_pack9', 'single record loop', f'{len(loops)} top-level loops', node=fn)
        return
    lp = loops[0]
    iv = lp.target.id
    ifs = [s for s in lp.body if isinstance(s, ast.If)]
    # a test that was given a name earlier in the same iteration (is_header = p9[0] == 0xFF ... if is_header:) is put back in place,
    # provided nothing it reads is changed in between
    for s_ in ifs:
        if isinstance(s_.test, ast.Name):
            v_ = _loop_local_value(lp, s_, s_.test.id, src.tree(P9))
            if v_ is not None:
                s_.test = v_
    # `if <first byte> != 0xFF: <particle> else: <header>` is the same two-way choice with the arms exchanged
    for s_ in ifs:
        if isinstance(s_.test, ast.Compare) and len(s_.test.ops) == 1 and isinstance(s_.test.ops[0], ast.NotEq) and s_.orelse \
                and ('255' in unparse(s_.test) or '0XFF' in unparse(s_.test).upper()):
            s_.test.ops = [ast.Eq()]
            s_.body, s_.orelse = s_.orelse, s_.body
    hdr = [s for s in ifs if '255' in unparse(s.test) or '0xFF' in unparse(s.test).upper() or '0xff' in unparse(s.test)]
    if len(hdr) != 1:
        # the record loop has a two-way header / particle choice whose test is not "first byte == 0xFF"
        two = [s for s in ifs if s.orelse and any(isinstance(n, ast.Subscript) and isinstance(n.ctx, ast.Store) for b in s.orelse for n in ast.walk(b))]
        if len(two) == 1:
            chk.refuted('C15-R2', P9, '_unpack_pack9', 'header test reads byte 0 of the current record',
                        f'header records are recognised by "{unparse(two[0].test)}": the format marks a cell header by its first byte 0xFF alone '
                        '(the low nibble of the second byte is free: real files use 0xFF0), so headers would be decoded as particles and their cell state ignored', node=two[0])
            return
        raise AnalysisError('_unpack_pack9: header test (first byte == 0xFF) not recognised')
    H = hdr[0]
    # which name is the expanded-short buffer?
    exp = [n for n in walk_no_nested(lp) if isinstance(n, ast.Call) and dotted(n.func) == '_expand_to_short']
    if len(exp) == 1 and len(exp[0].args) + len(exp[0].keywords) > 2 and len(exp[0].args) >= 2:
        extra_ = [unparse(a) for a in exp[0].args[2:]] + [f'{k.arg}={unparse(k.value)}' for k in exp[0].keywords]
        chk.refuted('C15-R2', P9, '_unpack_pack9', 'every record is expanded in full before it is classified',
                    f'_expand_to_short is called with {extra_}: the expansion of a record depends on something else than the record, while the header test and the '
                    'cell index need all six fields of every record', node=exp[0])
    elif len(exp) != 1 or len(exp[0].args) != 2:
        raise AnalysisError('_unpack_pack9: call of _expand_to_short not recognised')
    rec, sh = unparse(exp[0].args[0]), unparse(exp[0].args[1])
    # the test must look at byte 0 of the record that was expanded
    t = H.test
    okt = isinstance(t, ast.Compare) and isinstance(t.ops[0], ast.Eq) and unparse(t.left) in (f'{rec}[0]', f'{data}[{iv}][0]', f'{data}[{iv}, 0]')
    chk.check(okt, 'C15-R2', P9, '_unpack_pack9', 'header test reads byte 0 of the current record', unparse(t),
              f'header test is {unparse(t)}', node=H)
    outs = {posn, veln}
    hstores = [n for s in H.body for n in walk_no_nested(s) if isinstance(n, ast.Subscript) and isinstance(n.ctx, ast.Store)
               and isinstance(n.value, ast.Name) and n.value.id in outs]
    wname = None
    rets = [n for n in walk_no_nested(fn) if isinstance(n, ast.Return)]
    if len(rets) == 1 and isinstance(rets[0].value, ast.Name):
        wname = rets[0].value.id
    # post-increment form of the particle branch: `row = w; w += 1; <stores at row>` is `<stores at w>; w += 1` (row holds the old w, nothing
    # else in the branch reads or writes w or binds row)
    if wname is not None:
        br = H.orelse
        for k_ in range(len(br) - 1):
            a_, b_ = br[k_], br[k_ + 1]
            if isinstance(a_, ast.Assign) and len(a_.targets) == 1 and isinstance(a_.targets[0], ast.Name) and isinstance(a_.value, ast.Name) and a_.value.id == wname \
                    and isinstance(b_, ast.AugAssign) and isinstance(b_.target, ast.Name) and b_.target.id == wname and isinstance(b_.op, ast.Add) and unparse(b_.value) == '1':
                rname = a_.targets[0].id
                rest = br[k_ + 2:]
                touched = any(isinstance(n_, ast.Name) and n_.id == wname for st_ in rest for n_ in ast.walk(st_))
                rstores = sum(1 for n_ in walk_no_nested(lp) if isinstance(n_, ast.Name) and n_.id == rname and isinstance(n_.ctx, ast.Store))
                wstores = sum(1 for st_ in br for n_ in ast.walk(st_) if isinstance(n_, ast.Name) and n_.id == wname and isinstance(n_.ctx, ast.Store))
                if not touched and rstores == 1 and wstores == 1 and rname != wname:
                    class SubR(ast.NodeTransformer):
                        def visit_Name(s_, n_):
                            return ast.copy_location(ast.Name(id=wname, ctx=n_.ctx), n_) if n_.id == rname else n_
                    H.orelse = br[:k_] + [SubR().visit(st_) for st_ in rest] + [b_]
                    for st_ in H.orelse:
                        st_._parent = H
                        for n_ in ast.walk(st_):
                            for c_ in ast.iter_child_nodes(n_):
                                c_._parent = n_
                break
    alt = _header_counter_form(fn, lp, H, iv, data, outs)
    if alt is not None:
        ok_alt, why_alt, hname = alt
        chk.check(not hstores, 'C15-R2', P9, '_unpack_pack9', 'header records yield no particle', 'header branch stores no output',
                  f'header branch stores outputs {[unparse(x) for x in hstores]}', node=H)
        chk.check(ok_alt, 'C15-R2', P9, '_unpack_pack9', 'particle stores are indexed by the write counter',
                  f'row = record index - headers seen ({iv} - {hname})', why_alt, node=H)
        chk.check(ok_alt, 'C15-R2', P9, '_unpack_pack9', 'write counter incremented exactly once per particle record, after the stores, unconditionally',
                  f'{hname} += 1 exactly once per header record; particles = records - headers', why_alt, node=H)
        chk.check(ok_alt, 'C15-R2', P9, '_unpack_pack9', 'counter starts at 0 and is the return value', f'returns len({data}) - {hname}', why_alt, node=fn)
        wname = '__none__'
    hw = [n for s in H.body for n in walk_no_nested(s) if isinstance(n, ast.Name) and isinstance(n.ctx, ast.Store) and n.id == wname]
    pstores = [n for s in H.orelse for n in walk_no_nested(s) if isinstance(n, ast.Assign) and isinstance(n.targets[0], ast.Subscript)
               and isinstance(n.targets[0].value, ast.Name) and n.targets[0].value.id in outs]
    if alt is None:
      chk.check(not hstores and not hw, 'C15-R2', P9, '_unpack_pack9', 'header records yield no particle',
                'header branch stores no output and leaves the write counter alone',
                f'header branch stores outputs {[unparse(x) for x in hstores]} / counter writes {len(hw)}', node=H)
      # particle branch
      pstores = [n for s in H.orelse for n in walk_no_nested(s) if isinstance(n, ast.Assign) and isinstance(n.targets[0], ast.Subscript)
                 and isinstance(n.targets[0].value, ast.Name) and n.targets[0].value.id in outs]
      okw = bool(pstores) and wname is not None
      badidx = []
      for n in pstores:
          sl = n.targets[0].slice
          first = sl.elts[0] if isinstance(sl, ast.Tuple) else sl
          if not (isinstance(first, ast.Name) and first.id == wname):
              badidx.append(unparse(n.targets[0]))
      chk.check(okw and not badidx, 'C15-R2', P9, '_unpack_pack9', 'particle stores are indexed by the write counter',
                f'{len(pstores)} stores at [{wname}, a]', f'stores not at the write counter: {badidx}', node=H)
      incs = [s for s in H.orelse if isinstance(s, ast.AugAssign) and isinstance(s.target, ast.Name) and s.target.id == wname
              and isinstance(s.op, ast.Add) and isinstance(s.value, ast.Constant) and s.value.value == 1]
      allw = [n for n in walk_no_nested(lp) if isinstance(n, ast.Name) and isinstance(n.ctx, ast.Store) and n.id == wname]
      after = False
      if incs:
          pos_inc = H.orelse.index(incs[0])
          after = all(any(p is x for st in H.orelse[:pos_inc] for x in ast.walk(st)) for p in pstores)
      chk.check(len(incs) == 1 and len(allw) == 1 and after, 'C15-R2', P9, '_unpack_pack9',
                'write counter incremented exactly once per particle record, after the stores, unconditionally',
                '', f'increments in particle branch: {len(incs)}, writes to counter in loop: {len(allw)}, after stores: {after}', node=H)
      init = [s for s in fn.body if isinstance(s, ast.Assign) and isinstance(s.targets[0], ast.Name) and s.targets[0].id == wname]
      ok0 = len(init) == 1 and fn.body.index(init[0]) < fn.body.index(lp) and unparse(init[0].value) in ('np.int64(0)', '0')
      chk.check(ok0 and wname is not None, 'C15-R2', P9, '_unpack_pack9', 'counter starts at 0 and is the return value',
                '', f'init={[unparse(i) for i in init]} return={[unparse(r) for r in rets]}', node=fn)
    # loop covers every record once
    chk.check(unparse(lp.iter) in (f'range(len({data}))', 'range(N)') and _is_len(fn, 'N', data) or unparse(lp.iter) == f'range(len({data}))'
              or (unparse(lp.iter) == data and isinstance(lp.target, ast.Name) and lp.target.id == rec),
              'C15-R2', P9, '_unpack_pack9', 'one loop iteration per record, in stream order', unparse(lp.iter),
              f'record loop is {unparse(lp.iter)} and its bound is not (only) the number of records of the stream: records are skipped -- e.g. a bound clipped to the rows of a supplied '
              'output stops n_headers records early, because header records take a stream slot but no output row', node=lp)

    from ..core.srcmodel import early_exits
    ex = early_exits(lp)
    chk.check(not ex, 'C15-R2', P9, '_unpack_pack9', 'no record is skipped: no continue/break/return in the record loop', '',
              f'{type(ex[0]).__name__.lower() if ex else ""} at line {ex[0].lineno if ex else 0}: a record can leave the loop before it is decoded', node=ex[0] if ex else lp, nontrivial=False)
    # ---- formulas -------------------------------------------------------
    mode = {'ctx': 'H'}

    def inp(node):
        if isinstance(node.value, ast.Name) and node.value.id == sh and isinstance(node.slice, ast.Constant):
            return Poly.sym(f'{mode["ctx"]}{node.slice.value}')
        return None
    env = {}
    cast = {dtp}
    for s in fn.body[:fn.body.index(lp)]:
        if isinstance(s, ast.Assign) and isinstance(s.targets[0], ast.Name):
            try:
                env[s.targets[0].id] = BPEval(env, inp, cast).ev(s.value)
            except NotInDomain:
                pass
    # header state must be refreshed unconditionally by every header record
    top = {s.targets[0].id for s in H.body if isinstance(s, ast.Assign) and isinstance(s.targets[0], ast.Name)}
    nested = []
    for s in H.body:
        if not isinstance(s, ast.Assign):
            for n in ast.walk(s):
                if isinstance(n, ast.Assign) and isinstance(n.targets[0], ast.Name):
                    nested.append(n)
    used_by_particles = set()
    for s in H.orelse:
        used_by_particles |= {n.id for n in ast.walk(s) if isinstance(n, ast.Name)}
    # transitive: header variables feeding the ones the particle branch reads
    allh = [s for s in H.body if isinstance(s, ast.Assign)] + nested
    changed = True
    while changed:
        changed = False
        for a in allh:
            if isinstance(a.targets[0], ast.Name) and a.targets[0].id in used_by_particles:
                new = {n.id for n in ast.walk(a.value) if isinstance(n, ast.Name)} - used_by_particles
                if new:
                    used_by_particles |= new
                    changed = True
    # a conditional refresh is a sound cache iff the guard compares every header field the cached value depends on
    hdefs = {}
    for a in allh:
        if isinstance(a.targets[0], ast.Name):
            hdefs.setdefault(a.targets[0].id, []).append(a.value)

    def fields_of(expr, seen=()):
        out = set()
        for n in ast.walk(expr):
            if isinstance(n, ast.Subscript) and unparse(n.value) == sh and isinstance(n.slice, ast.Constant):
                out.add(n.slice.value)
            elif isinstance(n, ast.Name) and n.id in hdefs and n.id not in seen:
                for v in hdefs[n.id]:
                    out |= fields_of(v, seen + (n.id,))
        return out

    def guard_fields(node):
        out = None
        p = getattr(node, '_parent', None)
        while p is not None and p is not H:
            if isinstance(p, ast.If):
                t = p.test
                f = fields_of(t) if isinstance(t, ast.Compare) and isinstance(t.ops[0], ast.NotEq) else set()
                out = f if out is None else (out | f)
            p = getattr(p, '_parent', None)
        return out or set()
    cond_state = sorted({n.targets[0].id for n in nested if n.targets[0].id in used_by_particles and n.targets[0].id not in top
                         and not fields_of(n.value) <= guard_fields(n)})
    chk.check(not cond_state, 'C15-R2', P9, '_unpack_pack9', 'every header record refreshes all of the header state unconditionally', f'state: {sorted(top & used_by_particles)}',
              f'header state {cond_state} is refreshed only when other header fields change, although it also depends on fields the guard does not compare: '
              'particles after a later header can be decoded with the previous header\'s value',
              node=nested[0] if nested else H)

    def walk_assigns(stmts):
        for s in stmts:
            if isinstance(s, ast.Assign) and isinstance(s.targets[0], ast.Name):
                yield s
            elif isinstance(s, ast.If):
                yield from walk_assigns(s.body)
                yield from walk_assigns(s.orelse)
    for s in walk_assigns(H.body):
        try:
            env[s.targets[0].id] = BPEval(env, inp, cast).ev(s.value)
        except NotInDomain as e:
            if s.targets[0].id in used_by_particles:
                chk.refuted('C15-R3', P9, '_unpack_pack9', f'header state {s.targets[0].id}', f'not a polynomial form: {e}', node=s)
    # precision of the header state: the cell size 1/cpd, rounded to the working dtype, is multiplied by a cell index of up to 4047; in
    # float32 the product is off by up to box*1.2e-7 while the position quantum is 0.0005*box/cpd = box*1.25e-7 at cpd ~ 4000
    hcasts = []
    for s in list(walk_assigns(H.body)) + [x for x in fn.body if isinstance(x, ast.Assign) and isinstance(x.targets[0], ast.Name) and x.targets[0].id in ('boxsize', 'halfbox')]:
        if s.targets[0].id in used_by_particles or s.targets[0].id in ('invcpd', 'csize', 'boxsize', 'halfbox'):
            for c in ast.walk(s.value):
                if isinstance(c, ast.Call) and dotted(c.func) in ('dtype', 'np.float32') and not (isinstance(c.args[0] if c.args else None, ast.Attribute) and unparse(c.args[0]) == 'np.nan'):
                    hcasts.append((s, c))
    pos_state = sorted({s_.targets[0].id for s_, _ in hcasts})
    chk.check(not hcasts, 'C15-R3', P9, '_unpack_pack9', 'header state is kept in double precision (cell centre rounded once)', '',
              f'{len(hcasts)} conversions to the working dtype inside the header state ({pos_state}), e.g. {unparse(hcasts[0][0])[:60] if hcasts else ""}: with float32 output the rounding of '
              '1/cpd is multiplied by the cell index; for cpd >= 3815 (box 2000) decoded positions are more than one quantum from the encoded value '
              '(box=2000, cpd=3981, cell 3974, offset code -333: 1.12 quanta), beyond "the float type beyond rounding"', node=hcasts[0][0] if hcasts else H, nontrivial=False)
    mode['ctx'] = 'S'
    got = {}
    for n in pstores:
        sl = n.targets[0].slice
        comp = sl.elts[1].value if isinstance(sl, ast.Tuple) and isinstance(sl.elts[1], ast.Constant) else None
        try:
            got[(n.targets[0].value.id, comp)] = (to_poly(BPEval(env, inp, cast).ev(n.value)), n)
        except NotInDomain as e:
            chk.refuted('C15-R3', P9, '_unpack_pack9', f'{n.targets[0].value.id}[:,{comp}]', f'not a polynomial form: {e}', node=n)
    # discover the bias from the cells-per-dimension term inv(H1 + B)
    B = None
    for (o, c), (p, n) in got.items():
        for sname in p.syms():
            if sname.startswith('inv(') and 'H1' in sname:
                inner = sname[4:-1]
                parts = inner.replace(' ', '').split('+')
                for x in parts:
                    try:
                        B = Fraction(x)
                    except ValueError:
                        pass
    if B is None:
        if chk.refutations():
            return
        raise AnalysisError('_unpack_pack9: cells-per-dimension term 1/(sh[1] + bias) not recognised')
    inv = Poly.sym(f'inv({Poly.sym("H1") + B!r})')
    box, velz = Poly.sym(boxp), Poly.sym(velzp)
    for a in range(3):
        want = (Poly.sym(f'S{a}') / B + Poly.sym(f'H{3 + a}') + B + Fraction(1, 2)) * box * inv - box / 2
        p, n = got.get((posn, a), (None, fn))
        chk.check(p == want, 'C15-R3', P9, '_unpack_pack9', f'{posn}[:,{a}]', f'= {p}',
                  f'position {a} decodes to {p}; consistent form is {want}', node=n, nf=str(p))
        want = Poly.sym(f'S{3 + a}') * (Poly.sym('H2') + B) / B * inv * velz
        p, n = got.get((veln, a), (None, fn))
        chk.check(p == want, 'C15-R3', P9, '_unpack_pack9', f'{veln}[:,{a}]', f'= {p}',
                  f'velocity {a} decodes to {p}; consistent form is {want}', node=n, nf=str(p))
    # R5 flags
    flags = {}
    for s in fn.body:
        if isinstance(s, ast.Assign) and isinstance(s.targets[0], ast.Name) and isinstance(s.value, ast.Compare) \
                and isinstance(s.value.ops[0], ast.IsNot) and isinstance(s.value.left, ast.Name):
            flags[s.targets[0].id] = s.value.left.id
    bad = []
    for st in H.orelse:
        if isinstance(st, ast.If):
            g = flags.get(unparse(st.test)) or (st.test.left.id if isinstance(st.test, ast.Compare) and isinstance(st.test.ops[0], ast.IsNot) and isinstance(st.test.left, ast.Name) else None)
            for n in walk_no_nested(st):
                if isinstance(n, ast.Subscript) and isinstance(n.ctx, ast.Store) and isinstance(n.value, ast.Name) and n.value.id in outs and n.value.id != g:
                    bad.append(f'{unparse(n)} under {unparse(st.test)}')
                if isinstance(n, ast.Subscript) and isinstance(n.ctx, ast.Load) and isinstance(n.value, ast.Name) and n.value.id in outs:
                    bad.append(f'reads output {unparse(n)}')
        else:
            for n in walk_no_nested(st):
                if isinstance(n, ast.Subscript) and isinstance(n.ctx, ast.Store) and isinstance(n.value, ast.Name) and n.value.id in outs:
                    bad.append(f'{unparse(n)} unguarded')
    chk.check(not bad, 'C15-R5', P9, '_unpack_pack9', 'each output stored only under its own "is not None" flag', f'flags {flags}',
              f'output selection broken: {bad}', node=H)


def _is_len(fn, name, arr):
    """`name` is bound exactly once in the function, at top level, to len(arr) (a later `if ...: N = min(N, ...)` makes the loop stop early:
    header records use a stream slot but no output row, so a bound taken from an output's length drops the last records -- seed C15g)."""
    stores = [n for n in walk_no_nested(fn) if isinstance(n, ast.Name) and n.id == name and isinstance(n.ctx, ast.Store)]
    tops = [s for s in fn.body if isinstance(s, ast.Assign) and len(s.targets) == 1 and isinstance(s.targets[0], ast.Name) and s.targets[0].id == name]
    return len(stores) == 1 and len(tops) == 1 and unparse(tops[0].value) in (f'len({arr})', f'{arr}.shape[0]')


def wrapper(chk):
    src = chk.src
    fn = src.func(P9, 'unpack_pack9')

    class Ren(ast.NodeTransformer):
        def visit_Name(self, n):
            return ast.copy_location(ast.Name(id=n.id.replace('pos', 'vel'), ctx=n.ctx), n)
    ps = [s for s in fn.body if any('pos' in x for x in names_in(s)) and not any('vel' in x for x in names_in(s))]
    vs = [s for s in fn.body if any('vel' in x and 'velzspace' not in x for x in names_in(s)) and not any('pos' in x for x in names_in(s))]
    pn = [norm(Ren().visit(ast.parse(unparse(s)))) for s in ps]
    vn = [norm(ast.parse(unparse(s))) for s in vs]
    chk.check(bool(pn) and pn == vn, 'C15-R5', P9, 'unpack_pack9', 'posout/velout handled symmetrically',
              f'{len(pn)} statement groups alpha-equivalent under pos<->vel', 'pos and vel paths differ beyond renaming', node=fn)
    # allocated outputs are truncated to the decoded count; supplied outputs report the count
    call = [n for n in walk_no_nested(fn) if isinstance(n, ast.Assign) and isinstance(n.value, ast.Call) and dotted(n.value.func) == '_unpack_pack9']
    ok = False
    detail = ''
    if len(call) == 1 and isinstance(call[0].targets[0], ast.Name):
        npart = call[0].targets[0].id
        txt = [unparse(s) for s in fn.body]
        sl = [t for t in txt if f'[:{npart}]' in t]
        from ..core.idioms import _alias_of
        defs_ = {}
        for n_ in walk_no_nested(fn):
            if isinstance(n_, ast.Assign) and len(n_.targets) == 1 and isinstance(n_.targets[0], ast.Name) and n_.targets[0].id not in ('posout', 'velout'):
                defs_.setdefault(n_.targets[0].id, []).append(n_.value)
        a_ = call[0].value.args
        # positions 3 and 4 carry the position / velocity output: the value derives from the caller's posout (resp. velout) and from nothing of the other
        okpos = len(a_) >= 5 and _alias_of(a_[3], 'posout', defs_) is not None and _alias_of(a_[3], 'velout', defs_) is None \
            and _alias_of(a_[4], 'velout', defs_) is not None and _alias_of(a_[4], 'posout', defs_) is None
        ok = len(sl) >= 2 and [unparse(a) for a in a_][:3] == ['data', 'boxsize', 'velzspace_to_kms'] and okpos
        detail = f'count variable {npart}; truncations {len(sl)}'
    chk.check(ok, 'C15-R2', P9, 'unpack_pack9', 'allocated outputs truncated to the decoded particle count; kernel argument order', detail,
              f'wrapper does not truncate both outputs to the decoded count or passes arguments in another order ({detail})', node=fn)
    # a preallocated output reaches the kernel as a view of the caller's memory (never a possible copy)
    from ..core.idioms import supplied_output_reaches
    if len(call) == 1:
        for P_, pos_ in (('posout', 3), ('velout', 4)):
            if pos_ < len(call[0].value.args):
                okv_, why_ = supplied_output_reaches(fn, P_, call[0].value.args[pos_])
                chk.check(okv_, 'C15-R5', P9, 'unpack_pack9', f'a supplied {P_} reaches the kernel as a view of the caller\'s array (never a possible copy)', why_,
                          f'{why_}: for a strided or Fortran-ordered preallocated array the kernel decodes into a temporary copy that is dropped; the caller\'s array '
                          'stays unfilled while the particle count is returned', node=fn)


def _header_counter_form(fn, lp, H, iv, data, outs):
    """Alternative bookkeeping: count the header records (h += 1 in the header branch) and store particle i at row i - h;
    the number of particles returned is len(data) - h.  Returns (ok, why, h) when the function returns `N - h`, else None."""
    rets = [n for n in walk_no_nested(fn) if isinstance(n, ast.Return)]
    if len(rets) != 1 or not (isinstance(rets[0].value, ast.BinOp) and isinstance(rets[0].value.op, ast.Sub) and isinstance(rets[0].value.right, ast.Name)):
        return None
    h = rets[0].value.right.id
    total = rets[0].value.left
    why = []
    if not (unparse(total) == f'len({data})' or (isinstance(total, ast.Name) and _is_len(fn, total.id, data))):
        why.append(f'returns {unparse(rets[0].value)}, not len({data}) - {h}')
    init = [s_ for s_ in fn.body if isinstance(s_, ast.Assign) and isinstance(s_.targets[0], ast.Name) and s_.targets[0].id == h]
    if not (len(init) == 1 and fn.body.index(init[0]) < fn.body.index(lp) and unparse(init[0].value) in ('np.int64(0)', '0')):
        why.append(f'{h} does not start at 0')
    incs = [s_ for s_ in H.body if isinstance(s_, ast.AugAssign) and isinstance(s_.target, ast.Name) and s_.target.id == h
            and isinstance(s_.op, ast.Add) and isinstance(s_.value, ast.Constant) and s_.value.value == 1]
    allw = [n for n in walk_no_nested(lp) if isinstance(n, ast.Name) and isinstance(n.ctx, ast.Store) and n.id == h]
    if not (len(incs) == 1 and len(allw) == 1):
        why.append(f'{h} is advanced {len(allw)} time(s) in the loop, {len(incs)} of them unconditionally in the header branch')
    # particle stores at i - h (directly or through one local bound at the top of the particle branch)
    local = {}
    for s_ in H.orelse:
        if isinstance(s_, ast.Assign) and isinstance(s_.targets[0], ast.Name):
            local[s_.targets[0].id] = unparse(s_.value).replace(' ', '')
    pst = [n for s_ in H.orelse for n in walk_no_nested(s_) if isinstance(n, ast.Assign) and isinstance(n.targets[0], ast.Subscript)
           and isinstance(n.targets[0].value, ast.Name) and n.targets[0].value.id in outs]
    bad = []
    for n in pst:
        sl = n.targets[0].slice
        first = sl.elts[0] if isinstance(sl, ast.Tuple) else sl
        t = unparse(first).replace(' ', '')
        t = local.get(t, t)
        if t != f'{iv}-{h}':
            bad.append(unparse(n.targets[0]))
    if not pst or bad:
        why.append(f'particle stores not at row {iv} - {h}: {bad[:3]}')
    wloc = [k for k, v in local.items() if v == f'{iv}-{h}']
    for k in wloc:
        if sum(1 for n in walk_no_nested(lp) if isinstance(n, ast.Name) and n.id == k and isinstance(n.ctx, ast.Store)) != 1:
            why.append(f'{k} is rebound in the loop')
    return (not why, '; '.join(why), h)
