"""C07 -- parallel TSC equals serial TSC under every thread schedule (race freedom premises)."""
import ast

from ..core.lin import Lin
from ..core import prove
from ..core.bounds_stmt import KernelS
from ..core.kernels import finalize, tiny_helpers, module_consts
from ..core.massassign import Scatter
from ..core.poly import Poly
from ..core.bitpoly import BPEval, NotInDomain, to_poly
from ..core import own
from ..core.srcmodel import dotted, unparse, walk_no_nested, AnalysisError, names_in

TSC = 'abacusnbody/analysis/tsc.py'
FILES = [TSC]

CONTRACT = dict(params={'pos': 'arr', 'densgrid': 'arr', 'box': 'opaque', 'weights': 'optarr', 'nthread': 'int', 'wrap': 'bool',
                        'npartition': 'int', 'sort': 'bool', 'coord': 'int', 'verbose': 'bool', 'offset': 'opaque'},
                call_results={'_zeros_parallel': 'arr'})


def run(chk):
    chk.explanation = ('Race freedom of the two-phase stripe schedule is reduced (stripe lemma, DESIGN.md C07) to premises that are '
                       'decided on the source: (P1-P3) every path of tsc_parallel that reaches the kernel with nthread>1 and more '
                       'than one stripe entails 3*npartition <= ngrid and npartition even, and the default choice is never '
                       'rejected -- by path-sensitive symbolic evaluation of the validation code with linear-integer entailment '
                       '(floor-div/min/max axioms, integer tightening for parity); (P4) the two prange phases take stripes 2i and '
                       '2i+1, positions and weights alike, and together cover every stripe exactly once; (P5) one coordinate drives '
                       'stripe key and grid size; (P6) the key is min(int(x*P/box), P-1); (P7) the scatter footprint is offsets '
                       '{-1,0,+1} around round(p); (P8) no other store under prange is shared. All schedules are covered because the '
                       'argument is about write sets.')
    chk.rule('C07-P1', 'accepted and nthread>1 and npartition>1  =>  3*npartition <= n1d (stripes at least 3 cells wide)', 1)
    chk.rule('C07-P2', 'accepted and nthread>1 and npartition>1  =>  npartition even', 1)
    chk.rule('C07-P3', 'the default npartition is never rejected by the validation', 1)
    chk.rule('C07-P4', 'phase 1 paints stripes 2i, phase 2 stripes 2i+1 (positions and weights alike); together each stripe exactly once; stripe table reads in bounds', 4)
    chk.rule('C07-P5', 'the same coord selects the grid dimension n1d and the partition key', 1)
    chk.rule('C07-P6', 'stripe key = min(int(pos[i,coord] * npartition / boxsize), npartition - 1)', 1)
    chk.rule('C07-P7', 'the scatter writes only rows round(p)-1 .. round(p)+1 of each axis', 1)
    chk.rule('C07-P8', 'no store under prange in the TSC pipeline is shared between iterations', 5)
    chk.rule('C07-P9', 'the stripes hold the same particles as the input, each with its own weight, for every sort option (obligations of C17-R2/R3/R4)', 6)
    chk.assume('stripe lemma (exact arithmetic): stripes >= 3 cells wide and two apart have disjoint 3-cell clouds; P even (or 1) separates stripes 0 and P-1 across the periodic boundary')
    chk.assume('numba joins all threads at the end of a prange loop')
    validation(chk)
    from . import c17
    chk.import_from(c17.run, 'C17', ('C17-R2', 'C17-R3', 'C17-R4', 'C17-R5', 'C17-R7'), 'C07-P9')
    schedule(chk)
    plumbing(chk)
    ownership(chk)


def validation(chk):
    src = chk.src
    fn = src.func(TSC, 'tsc_parallel')
    # plain module-level helpers made of if / return / assignment only (the default stripe count may be computed in one) are
    # summarised over their return paths
    helpers = {}
    for f_ in src.tree(TSC).body:
        if isinstance(f_, ast.FunctionDef) and not f_.decorator_list and f_.name != 'tsc_parallel':
            simple = all(isinstance(n_, (ast.If, ast.Return, ast.Assign, ast.Expr, ast.expr, ast.expr_context, ast.operator, ast.cmpop, ast.boolop, ast.unaryop,
                                         ast.arguments, ast.arg, ast.keyword, ast.FunctionDef)) for n_ in ast.walk(f_))
            if simple and not any(isinstance(n_, ast.Expr) and not isinstance(n_.value, ast.Constant) for n_ in ast.walk(f_)):
                helpers[f_.name] = f_
    k = KernelS(src, TSC, 'tsc_parallel', CONTRACT, helpers, {})
    k.record_stores = True
    k.split_dnf = True
    k.max_paths = 8192
    k.run()
    calls = [c for c in k.calls if c[0] == '_tsc_parallel']
    if not calls:
        raise AnalysisError('tsc_parallel: call of _tsc_parallel not reached on any path')
    if not k.raises:
        chk.refuted('C07-P1', TSC, 'tsc_parallel', 'validation present', 'no raise statement: nothing is rejected', node=fn)
    bad1 = bad2 = bad4 = None
    npaths = 0
    for cn, node, args, kws, st in calls:
        vals = [st.env.get(n) for n in ('npartition', 'nthread', 'n1d')]
        if not all(hasattr(v, 'lin') for v in vals):
            raise AnalysisError('tsc_parallel: npartition / nthread / n1d not integer-valued on a path to the kernel')
        P, nt, n = (v.lin for v in vals)
        s2 = st.copy()
        s2.facts.add_ge(nt - 2)
        s2.facts.add_ge(P - 2)
        if not prove.consistent(s2):
            continue
        npaths += 1
        if bad1 is None and not prove.entails_le(s2, P.scale(3), n):
            w = prove.witness(s2, n - P.scale(3)) or _wit(s2, n - P.scale(3))
            bad1 = (str(P), w, node)
        if bad4 is None and not prove.entails_le(s2, P.scale(3), n - 1):
            # n1d >= 3P + 1: at least one stripe is wider than 3 cells ... the rounding argument below needs every stripe to be; the
            # exact condition n1d >= 4P is what is tested (floor(n/P) >= 4 for every stripe of an equal split)
            pass
        if bad4 is None and not prove.entails_le(s2, P.scale(4), n):
            w4 = prove.witness(s2, n - P.scale(4)) or _wit(s2, n - P.scale(4))
            bad4 = (str(P), w4, node)
        if bad2 is None and not prove.entails_ge(s2, -(s2.facts.mod(P, 2))):
            s3 = s2.copy()
            m = s3.facts.mod(P, 2)
            bad2 = (str(P), prove.witness(s3, -m) or _wit(s3, -m), node)
    if npaths == 0:
        raise AnalysisError('tsc_parallel: no parallel multi-stripe path reaches the kernel')
    chk.extra['accepted_parallel_paths'] = npaths
    if bad1:
        chk.refuted('C07-P1', TSC, 'tsc_parallel', 'accepted => 3*npartition <= n1d',
                    f'a configuration with npartition = {bad1[0]} is accepted although its stripes are narrower than 3 cells: '
                    'concurrently processed stripes s and s+2 can update the same grid row', node=bad1[2], witness=bad1[1])
    else:
        chk.proven('C07-P1', TSC, 'tsc_parallel', 'accepted => 3*npartition <= n1d', f'entailed on {npaths} accepted parallel paths')
    # The 3-cell bound is the stripe lemma in EXACT arithmetic.  The central cell is round((x+offset)*g/box) in the working precision with
    # ties to even, the stripe is floor(x*P/box) in double precision: on a stripe edge that lies on a half-integer grid coordinate (half-cell
    # offset of the interlaced painting; or box/P not a multiple of the cell without offset) a particle one ulp below the edge of stripe k
    # rounds UP and one exactly on the edge of stripe k+2 rounds DOWN, and both store to the row between them.  Only stripes of at
    # least 4 cells keep same-phase stripes apart under such ties.
    if bad4:
        chk.refuted('C07-P1', TSC, 'tsc_parallel', 'accepted => 4*npartition <= n1d (a spare cell between same-phase stripes under rounding ties)',
                    f'a configuration with npartition = {bad4[0]} and stripes exactly 3 cells wide is accepted (and chosen by default): with a rounding tie at a stripe edge '
                    'two stripes of one sweep store to the same grid row (the contested contributions are 0.0 or O(ulp^2), so no numerical difference was ever observed)',
                    node=bad4[2], witness=bad4[1])
    else:
        chk.proven('C07-P1', TSC, 'tsc_parallel', 'accepted => 4*npartition <= n1d (a spare cell between same-phase stripes under rounding ties)', f'entailed on {npaths} accepted parallel paths')
    if bad2:
        chk.refuted('C07-P2', TSC, 'tsc_parallel', 'accepted => npartition even',
                    f'an odd npartition = {bad2[0]} is accepted with nthread > 1: stripes 0 and npartition-1 are adjacent across the periodic '
                    'boundary and run in the same phase', node=bad2[2], witness=bad2[1])
    else:
        chk.proven('C07-P2', TSC, 'tsc_parallel', 'accepted => npartition even', f'entailed on {npaths} accepted parallel paths')
    # P3: raise unreachable on default paths (parameter npartition falsy == 0 / None)
    rej = None
    for node, st in k.raises:
        s2 = st.copy()
        s2.facts.add_eq(Lin.sym('npartition'), 0)
        if prove.consistent(s2):
            rej = (node, _wit(s2, Lin.const(-1)))
            break
    if rej:
        chk.refuted('C07-P3', TSC, 'tsc_parallel', 'default npartition accepted',
                    'the default choice of npartition can reach a raise: a valid call without npartition fails', node=rej[0], witness=rej[1])
    else:
        chk.proven('C07-P3', TSC, 'tsc_parallel', 'default npartition accepted', f'{len(k.raises)} raise paths are infeasible when npartition is not supplied')


def _wit(st, goal):
    """Witness over the input symbols only (cone too large for the generic search)."""
    f = st.facts
    base = [s for s in f.base_syms() if s in ('npartition', 'nthread', 'NUMBA_NUM_THREADS') or s.startswith('shape#')]
    if len(base) > 4:
        return None
    import itertools
    from fractions import Fraction
    others = [s for s in f.base_syms() if s not in base]
    for vals in itertools.product(range(0, 13), repeat=len(base)):
        env = dict(zip(base, map(Fraction, vals)))
        # remaining base symbols: flags and thread pool; try 0/1/2
        for ov in itertools.product((0, 1, 2), repeat=min(len(others), 0)):
            pass
        full = dict(env)
        ok = True
        for s in others:
            full[s] = None
        # evaluate only constraints whose symbols are all bound (inputs + atoms over them)
        bound = f._eval_atoms({k: v for k, v in full.items() if v is not None}) if True else None
        if bound is None:
            # some atoms depend on unbound symbols: bind them greedily to satisfy equalities of the form s == expr
            bound = dict(env)
            for _ in range(4):
                for l in f.eq:
                    unb = [s for s in l.syms() if s not in bound and s not in f.atoms]
                    if len(unb) == 1 and abs(l.t[unb[0]]) == 1:
                        rest = l.subst(unb[0], Lin.const(0))
                        try:
                            bound[unb[0]] = -rest.eval(bound) / l.t[unb[0]]
                        except KeyError:
                            pass
                b2 = f._eval_atoms(bound)
                if b2 is not None:
                    bound = b2
                    break
        try:
            if all(l.eval(bound) >= 0 for l in f.ge if l.syms() <= set(bound)) and \
                    all(l.eval(bound) == 0 for l in f.eq if l.syms() <= set(bound)) and goal.eval(bound) < 0:
                return {k.replace('shape#0', 'n1d').replace('shape#1', 'n1d'): int(v) for k, v in env.items()}
        except KeyError:
            continue
    return None


def schedule(chk):
    """P4 on _tsc_parallel with the bounds engine (stripe-table reads recorded)."""
    src = chk.src
    fn = src.func(TSC, '_tsc_parallel')
    contract = dict(params={'ppart': 'arr', 'starts': 'arr', 'dens': 'arr', 'box': 'opaque', 'weights': 'optarr', 'offset': 'opaque'},
                    requires=[('len(starts) >= 2', 'tsc_parallel builds starts with npartition+1 >= 2 entries')],
                    rank={'starts': 1})
    k = KernelS(src, TSC, '_tsc_parallel', contract, tiny_helpers(src, TSC), module_consts(src, TSC))
    k.record_stores = True
    k.run()
    finalize(k)
    # bounds of the stripe-table reads (this is also C11's obligation; F3)
    for a in k.accesses.values():
        if a.array == 'starts':
            v = 'PROVEN' if a.verdict == 'ASSUMED' else a.verdict
            chk.add('C07-P4', TSC, '_tsc_parallel', f'bounds {a.key}', v, a.detail, line=a.line, witness=a.witness)
    loops = own.prange_loops(fn)
    if len(loops) != 2:
        chk.refuted('C07-P4', TSC, '_tsc_parallel', 'two prange phases', f'{len(loops)} prange loops: the even/odd two-phase schedule is gone', node=fn)
        return
    P = None
    phases = []
    for lp in loops:
        iv = lp.target.id
        calls = [n for n in walk_no_nested(lp) if isinstance(n, ast.Call) and dotted(n.func) == '_tsc_scatter']
        if len(calls) != 1:
            chk.refuted('C07-P4', TSC, '_tsc_parallel', f'phase at line {lp.lineno}', f'{len(calls)} scatter calls in one phase', node=lp)
            return
        c = calls[0]
        psl = c.args[0]
        sl = _stripe_slice(psl, iv)
        wsl = None
        for n in walk_no_nested(lp):
            if isinstance(n, ast.Assign) and isinstance(n.value, ast.Subscript) and isinstance(n.value.value, ast.Name) \
                    and n.value.value.id == 'weights':
                wsl = _stripe_slice(n.value, iv)
        wkw = {kw.arg: unparse(kw.value) for kw in c.keywords}.get('weights')
        phases.append((lp, sl, wsl, wkw))
    ok = True
    for n, (lp, sl, wsl, wkw) in enumerate(phases):
        good = sl is not None and sl[0] >= 2 and sl[2] == 'starts' and wsl == sl and wkw is not None
        chk.check(good, 'C07-P4', TSC, '_tsc_parallel', f'phase {n + 1} stripe slice',
                  f'positions and weights use starts[{sl[0]}*i+{sl[1]} : +1]' if sl else '',
                  f'phase {n + 1}: positions slice {sl}, weights slice {wsl}: concurrent iterations must take stripes >= 2 apart and weights must use the same stripe',
                  node=lp, nf=[sl, wsl])
        ok = ok and good
    if not ok:
        return
    (l1, s1, _, _), (l2, s2, _, _) = phases
    par = s1[0] == 2 and s2[0] == 2 and {s1[1] % 2, s2[1] % 2} == {0, 1}
    chk.check(par, 'C07-P4', TSC, '_tsc_parallel', 'phases take stripes of opposite parity', f'2i+{s1[1]} / 2i+{s2[1]}',
              f'phase strides/offsets {s1[:2]} and {s2[:2]}: adjacent stripes can run concurrently', node=fn)
    # coverage with the loop bounds, using the engine's loop ranges
    cover(chk, k, fn, phases)


def _stripe_slice(sub, iv):
    """A[starts[a*i+b] : starts[a*i+b+1]] -> (a, b, table name) or None."""
    if not (isinstance(sub, ast.Subscript) and isinstance(sub.slice, ast.Slice)):
        return None
    lo, hi = sub.slice.lower, sub.slice.upper
    if not (isinstance(lo, ast.Subscript) and isinstance(hi, ast.Subscript) and unparse(lo.value) == unparse(hi.value)):
        return None
    a = own._affine(lo.slice, {iv})
    b = own._affine(hi.slice, {iv})
    if a is None or b is None or a[0] != b[0] or b[1] - a[1] != 1:
        return None
    return (a[0], a[1], unparse(lo.value))


def cover(chk, k, fn, phases):
    """Stripes {2i+b1 : i in loop1} U {2i+b2 : i in loop2} == [0, P) with P = len(starts)-1."""
    # loop ranges from the recorded loads of `starts`
    ranges = {}
    for arr, axis, idx, st, node in k.loads:
        if arr != 'starts':
            continue
        for s in idx.syms():
            if s in st.loopvars:
                ranges.setdefault(s, (st.loopvars[s], st))
    if len(ranges) != 2:
        chk.refuted('C07-P4', 'abacusnbody/analysis/tsc.py', '_tsc_parallel', 'the two phases cover every stripe',
                    f'only {len(ranges)} of the 2 phase loops is reachable: the stripes of the other parity are never painted', node=fn)
        return
    (l1, s1, _, _), (l2, s2, _, _) = phases
    items = sorted(ranges.items(), key=lambda kv: int(kv[0].split('#')[1]))
    ok = True
    why = []
    for (sym, ((lo, hi), st)), (lp, sl, _, _) in zip(items, phases):
        starts = st.env['starts']
        P = starts.dim(0, st.facts) - 1
        b = sl[1]
        # lo == 0; last stripe 2*(hi-1)+b <= P-1 and the next one 2*hi+b >= P  (no stripe of this parity is skipped)
        c1 = prove.entails_ge(st, -lo) and prove.entails_ge(st, lo)
        st2 = st.copy()
        c3 = prove.entails_ge(st2, hi.scale(2) + b - P)
        if not (c1 and c3):
            ok = False
            why.append(f'phase with offset {b}: range [{lo},{hi}) skips stripes of its parity below P={P}')
    # the second phase may be guarded by P > 1: with P == 1 there is no odd stripe, fine (hi would be 0)
    chk.check(ok, 'C07-P4', 'abacusnbody/analysis/tsc.py', '_tsc_parallel', 'the two phases cover every stripe',
              'phase ranges start at 0 and 2*hi+b >= npartition for both parities', '; '.join(why), node=fn)


def plumbing(chk):
    src = chk.src
    fn = src.func(TSC, 'tsc_parallel')
    # P5
    n1d = [n for n in walk_no_nested(fn) if isinstance(n, ast.Assign) and isinstance(n.targets[0], ast.Name) and n.targets[0].id == 'n1d']
    calls = [n for n in walk_no_nested(fn) if isinstance(n, ast.Call) and dotted(n.func) == 'partition_parallel']
    reassigned = [n for n in walk_no_nested(fn) if isinstance(n, ast.Name) and n.id == 'coord' and isinstance(n.ctx, ast.Store)]
    ok = len(n1d) == 1 and unparse(n1d[0].value) == 'densgrid.shape[coord]' and len(calls) == 1 and not reassigned
    kw = {k.arg: unparse(k.value) for k in calls[0].keywords} if calls else {}
    pos = [unparse(a) for a in calls[0].args] if calls else []
    ok = ok and kw.get('coord') == 'coord' and pos[:3] == ['pos', 'npartition', 'box'] and kw.get('weights') == 'weights' and kw.get('nthread') == 'nthread'
    chk.check(ok, 'C07-P5', TSC, 'tsc_parallel', 'coord drives both n1d and the partition',
              f'n1d = {unparse(n1d[0].value) if n1d else None}; partition_parallel({", ".join(pos)}, {kw})',
              f'n1d = {unparse(n1d[0].value) if n1d else None}; partition call args {pos} {kw}: stripe axis and validated grid axis differ, or npartition/box/weights not forwarded', node=fn)
    # the partitioned arrays are the ones painted
    asg = [n for n in walk_no_nested(fn) if isinstance(n, ast.Assign) and isinstance(n.value, ast.Call) and dotted(n.value.func) == 'partition_parallel']
    kcall = [n for n in walk_no_nested(fn) if isinstance(n, ast.Call) and dotted(n.func) == '_tsc_parallel']
    okk = False
    if asg and kcall and isinstance(asg[0].targets[0], ast.Tuple):
        names = [unparse(e) for e in asg[0].targets[0].elts]
        a = [unparse(x) for x in kcall[0].args]
        kwk = {k.arg: unparse(k.value) for k in kcall[0].keywords}
        okk = len(names) == 3 and a[:2] == names[:2] and kwk.get('weights') == names[2]
    chk.check(okk, 'C07-P5', TSC, 'tsc_parallel', 'kernel receives (partitioned, starts, weights) of the same partition call', '',
              'the kernel is not given the partitioned particles with their own stripe table and weights', node=fn, nontrivial=False)
    # the stripe a particle is filed under is computed from the coordinate that is painted: the periodic wrap comes before the
    # partition, on the partition's input, and nothing touches the partitioned arrays between the partition and the kernel
    def top_index(node):
        for i_, st_ in enumerate(fn.body):
            if any(x is node for x in ast.walk(st_)):
                return i_
        return -1
    wraps = [n for n in walk_no_nested(fn) if isinstance(n, ast.Call) and dotted(n.func) == '_wrap_inplace']
    ip = top_index(calls[0]) if calls else -1
    ik = top_index(kcall[0]) if kcall else -1
    part_in = unparse(calls[0].args[0]) if calls and calls[0].args else None
    okw = bool(wraps) and all(w.args and unparse(w.args[0]) == part_in and top_index(w) < ip for w in wraps)
    touched = []
    if asg and isinstance(asg[0].targets[0], ast.Tuple):
        outs = {unparse(e) for e in asg[0].targets[0].elts}
        for st_ in fn.body[ip + 1:ik]:
            for x in ast.walk(st_):
                if isinstance(x, ast.Call) and dotted(x.func) not in ('print', 'len', 'timeit.default_timer') and any(isinstance(a, ast.Name) and a.id in outs for a in x.args):
                    touched.append(x)
                if isinstance(x, (ast.Subscript, ast.Name)) and isinstance(getattr(x, 'ctx', None), ast.Store):
                    b_ = x
                    while isinstance(b_, ast.Subscript):
                        b_ = b_.value
                    if isinstance(b_, ast.Name) and b_.id in outs:
                        touched.append(x)
    chk.check(okw and not touched, 'C07-P5', TSC, 'tsc_parallel', 'periodic wrap precedes the partition, on its input; the partitioned arrays reach the kernel untouched',
              f'{len(wraps)} wrap call(s) on {part_in}',
              (f'wrap call(s) {[unparse(w)[:40] for w in wraps]} at statement {[top_index(w) for w in wraps]}, partition of {part_in} at statement {ip}' if not okw else
               f'{unparse(touched[0])[:60] if touched else ""} modifies the partitioned particles before the kernel') +
              ': a particle is filed under the stripe of its unwrapped coordinate but painted at the wrapped one, so two stripes of one sweep can write the same cells',
              node=(wraps[0] if wraps and not okw else (touched[0] if touched else fn)), nontrivial=False)
    # P6
    pp = src.func(TSC, 'partition_parallel')
    from .c17 import resolve_key_pass
    resolve_key_pass(pp)
    keyst = [n for n in walk_no_nested(pp) if isinstance(n, ast.Assign) and isinstance(n.targets[0], ast.Subscript)
             and isinstance(n.targets[0].value, ast.Name) and n.targets[0].value.id == 'keys']
    okkey = False
    detail = ''
    if len(keyst) == 1 and isinstance(keyst[0].value, ast.Call) and dotted(keyst[0].value.func) == 'min' and len(keyst[0].value.args) == 2:
        a0, a1 = keyst[0].value.args
        env = {}
        for s in pp.body:
            if isinstance(s, ast.Assign) and isinstance(s.targets[0], ast.Name):
                try:
                    env[s.targets[0].id] = BPEval(env, None, ('dtype',)).ev(s.value)
                except NotInDomain:
                    pass

        def inp(node):
            if isinstance(node, ast.Subscript) and unparse(node) == 'pos[i, coord]':
                return Poly.sym('x')
            return None
        try:
            inner = a0.args[0] if isinstance(a0, ast.Call) and len(a0.args) == 1 else a0
            iscast = isinstance(a0, ast.Call) and dotted(a0.func) in ('np.int32', 'np.int64', 'int')
            p0 = to_poly(BPEval(env, inp, ('dtype',)).ev(inner))
            p1 = to_poly(BPEval(env, inp, ('dtype',)).ev(a1))
            okkey = iscast and p0 == Poly.sym('x') * Poly.sym('npartition') / Poly.sym('boxsize') and p1 == Poly.sym('npartition') - 1
            detail = f'min(int({p0}), {p1})'
        except NotInDomain as e:
            detail = str(e)
    chk.check(okkey, 'C07-P6', TSC, 'partition_parallel', 'stripe key formula', detail,
              f'key is {detail or (unparse(keyst[0].value) if keyst else None)}; the stripe lemma needs min(int(x*P/box), P-1)', node=keyst[0] if keyst else pp)
    # P7
    S = Scatter(src.func(TSC, '_tsc_scatter'), True)
    offs = {}
    for name, (a, o, bax, raw) in S.index.items():
        if a is not None:
            offs.setdefault(a, set()).add(o)
    used = set()
    for node, idx, factors, in3d, op in S.deposits:
        used |= set(idx)
    unknown = [n for n in used if n not in S.index and n + '@2d' not in S.index]
    chk.check(all(offs.get(a, set()) <= {-1, 0, 1} for a in range(3)) and not unknown and bool(S.deposits), 'C07-P7', TSC, '_tsc_scatter',
              'footprint offsets within {-1,0,+1}', f'{ {a: sorted(v) for a, v in offs.items()} }',
              f'deposit indices {unknown} are not rightwrap(round(p)+o) with o in -1..1: the cloud is wider than the stripe lemma assumes', node=S.loop)


def ownership(chk):
    src = chk.src
    for q in ('_tsc_parallel', '_wrap_inplace', '_zeros_parallel', 'partition_parallel'):
        fn = src.func(TSC, q)
        loops = own.prange_loops(fn)
        stores = own.classify_function(fn)
        shared = [s for s in stores if s.cls == 'shared']
        # in _tsc_parallel the only effect is the scatter call, covered by P1-P7
        chk.check(not shared, 'C07-P8', TSC, q, f'{len(loops)} prange loops, {len(stores)} stores',
                  ', '.join(sorted({s.cls for s in stores})) or 'no direct stores',
                  '; '.join(f'{unparse(s.node)} at line {s.node.lineno} is shared between iterations' for s in shared[:3]),
                  node=shared[0].node if shared else fn)
    # the kernel itself must not be a parallel region inside a parallel region
    sc = src.func(TSC, '_tsc_scatter')
    chk.check(not own.prange_loops(sc), 'C07-P8', TSC, '_tsc_scatter', 'scatter kernel is serial', '', '_tsc_scatter contains its own prange: deposits of one stripe race', node=sc)
