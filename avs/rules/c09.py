"""C09 -- galaxies follow the HOD threshold rule and inherit their host (bookkeeping clauses)."""
import ast
import re

from ..core.hodpass import Pass2, GH, idx, tracer_of
from ..core.poly import Poly
from ..core.bitpoly import BPEval, NotInDomain, to_poly
from ..core.srcmodel import dotted, unparse, walk_no_nested, AnalysisError, names_in, norm

FILES = [GH]
SUFFIX = {'LRG': 'L', 'ELG': 'E', 'QSO': 'Q'}
COLS = ['x', 'y', 'z', 'vx', 'vy', 'vz', 'mass', 'id']

HOST = {
    'gen_cent': dict(pos='pos', vel='vel', dev='vdev', mass='mass', ids='ids', weight='multis', rnd='randoms', alpha='alpha_c'),
    'gen_sats': dict(pos='ppos', vel='pvel', hvel='hvel', mass='hmass', ids='hid', weight='weights', rnd='randoms', alpha='alpha_s'),
}


def run(chk):
    src = chk.src
    chk.explanation = ('Decided is the bookkeeping that attaches each galaxy to its host and stacks the tracer slices: one consistent '
                       'bijection tracer <-> keep code <-> counter row <-> prefix column <-> cursor <-> array prefix <-> output dict across the '
                       'count pass, the prefix sums, the allocations, the fill pass and the dict assembly; the markers are stacked in the '
                       'order LRG, ELG, QSO, each increment being that tracer\'s own occupation term times incompleteness times the host '
                       'multiplicity/weight, compared with the stored random by an if/elif chain; in the fill pass host arrays are indexed '
                       'only by the host row and tracer arrays only by the tracer\'s cursor; position/velocity components, velocity-bias '
                       'formulas, host mass/id, the RSD displacement with the [-L/2, L/2) wrap and the centrals-then-satellites assembly are '
                       'normalised and compared across the three tracers and with the documented formulas.')
    chk.rule('C09-R1', 'one bijection tracer<->keep code<->Nout row<->gstart column<->cursor<->array prefix<->dict, consistent across all sites', 6)
    chk.rule('C09-R2', 'marker chain 0 -> LRG -> ELG -> QSO; each increment uses only its own tracer\'s parameters, times ic, times multiplicity/weight; if/elif chain on randoms[i] <= marker', 10)
    chk.rule('C09-R3', 'fill pass index spaces: host arrays by the host row only, tracer arrays by their cursor only; all 8 columns stored', 6)
    chk.rule('C09-R4', 'component c of a position/velocity store reads component c; velocity-bias formula; the three tracer blocks are alpha-equivalent', 8)
    chk.rule('C09-R5', 'RSD (box observer): only z is re-assigned, to wrap(z + vz/velz2kms, L); wrap maps into [-L/2, L/2)', 8)
    chk.rule('C09-R6', 'galaxy mass and id are the host\'s (same row as the position)', 6)
    chk.rule('C09-R8', 'parameter tables: every entry D[k] = SRC.get(k, default) copies its own key from its own tracer\'s table', 1)
    chk.rule('C09-R7', 'assembly: concatenate(cent[k], sat[k]) for every column and the id; Ncent = number of centrals; tracer dicts mapped by position; fast_concatenate copies array1 then array2 completely', 8)
    chk.assume('the numerical form of the occupation functions and slice end-points (<= at a zero-width slice) are not decided')
    passes = {}
    for name in ('gen_cent', 'gen_sats'):
        passes[name] = Pass2(src, name)
        one(chk, passes[name], name)
    conformity(chk, passes)
    wrap_rule(chk)
    assembly(chk)
    parameter_tables(chk)
    from .c10 import concat
    concat(chk, R6='C09-R7', R1='C09-R7')


def conformity(chk, passes):
    """Satellite occupation with central-galaxy conformity: the `_EL` parameters (ELG satellites around an LRG central) apply to
    hosts whose central carries the LRG keep code, the `_EE` parameters to hosts with the ELG code, every other host keeps the plain
    ELG parameters.  The keep codes are read from gen_cent's decision chain; each conformity arm must test `keep_cent[i] == <code>`."""
    Pc, Ps = passes['gen_cent'], passes['gen_sats']
    codes = {}
    for b in Pc.branches:
        T = tracer_of(b['marker'])
        if T and len(b['codes']) == 1:
            codes[T] = b['codes'][0][1]
    n = 0
    for m in Ps.marker_order:
        blk = Ps.markers[m]['block']
        if blk is None:
            continue
        for st in walk_no_nested(blk):
            if not (isinstance(st, ast.If) and 'keep_cent' in unparse(st.test)):
                continue
            par = getattr(st, '_parent', None)
            if isinstance(par, ast.If) and st in par.orelse and 'keep_cent' in unparse(par.test):
                continue                  # an elif arm: handled with its chain
            c = st
            while True:
                n += 1
                used = {x.id for b_ in c.body for x in ast.walk(b_) if isinstance(x, ast.Name)}
                kinds = {mm.group(1) for u in used for mm in [re.match(r'^.*_(E[EL])$', u)] if mm}
                want = None
                if kinds == {'EL'}:
                    want = codes.get('LRG')
                elif kinds == {'EE'}:
                    want = codes.get('ELG')
                t = c.test
                okt = isinstance(t, ast.Compare) and len(t.ops) == 1 and isinstance(t.ops[0], ast.Eq) and unparse(t.left) == f'keep_cent[{Ps.i_c}]' \
                    and want is not None and unparse(t.comparators[0]) == want
                chk.check(okt, 'C09-R2', GH, 'gen_sats', f'conformity arm {sorted(kinds)} applies to hosts whose central has keep code {want}',
                          unparse(t), f'the arm that uses the {sorted(kinds)} parameters runs under "{unparse(t)}" (need keep_cent[{Ps.i_c}] == {want}): hosts with another '
                          'central (or none of that kind) get this conformity occupation, so switching that tracer on changes the ELG satellites', node=c)
                if len(c.orelse) == 1 and isinstance(c.orelse[0], ast.If) and 'keep_cent' in unparse(c.orelse[0].test):
                    c = c.orelse[0]
                    continue
                break
    if n == 0:
        raise AnalysisError('gen_sats: no conformity arms (tests on keep_cent) found')
    # sibling agreement: an arm re-derives quantities of the plain occupation (M1_E_temp, base_p_E) with the conformity parameters in
    # place of the plain ones and nothing else changed -- the same assembly-bias / shear / rank terms at the same host
    def canon(e):
        if isinstance(e, ast.BinOp) and isinstance(e.op, (ast.Add, ast.Mult)):
            terms = []

            def flat(x):
                if isinstance(x, ast.BinOp) and type(x.op) is type(e.op):
                    flat(x.left)
                    flat(x.right)
                else:
                    terms.append(canon(x))
            flat(e)
            return ('+' if isinstance(e.op, ast.Add) else '*').join(sorted(terms)).join('()')
        if isinstance(e, ast.BinOp):
            return f'({canon(e.left)}{type(e.op).__name__}{canon(e.right)})'
        if isinstance(e, ast.Call):
            return f'{unparse(e.func)}({",".join(canon(a) for a in e.args)})'
        if isinstance(e, ast.Name):
            return re.sub(r'_E[EL]$', '_E', e.id)
        return unparse(e)
    for m in Ps.marker_order:
        blk = Ps.markers[m]['block']
        if blk is None:
            continue
        base = {}
        for st in blk.body:
            if isinstance(st, ast.Assign) and len(st.targets) == 1 and isinstance(st.targets[0], ast.Name):
                base.setdefault(st.targets[0].id, st.value)
            if isinstance(st, ast.If) and 'keep_cent' in unparse(st.test):
                c = st
                while True:
                    for a_ in c.body:
                        if isinstance(a_, ast.Assign) and len(a_.targets) == 1 and isinstance(a_.targets[0], ast.Name) and a_.targets[0].id in base:
                            v_ = a_.targets[0].id
                            same = canon(a_.value) == canon(base[v_])
                            chk.check(same, 'C09-R2', GH, 'gen_sats', f'conformity arm: {v_} is the plain definition with the conformity parameters substituted', '',
                                      f'under "{unparse(c.test)}" {v_} = {unparse(a_.value)[:110]} differs from the plain {unparse(base[v_])[:110]} by more than the '
                                      '_EL/_EE parameters: a secondary-bias term (assembly bias, shear) is applied to hosts without a central but not to hosts with one, '
                                      'so the slice width is not the occupation at the host\'s ranks', node=a_)
                    if len(c.orelse) == 1 and isinstance(c.orelse[0], ast.If) and 'keep_cent' in unparse(c.orelse[0].test):
                        c = c.orelse[0]
                        continue
                    break


def one(chk, P, name):
    fn = P.fn
    Hn = HOST[name]
    # ---- R2 marker chain
    order = P.marker_order
    tr = [tracer_of(m) for m in order]
    ok_order = tr == ['LRG', 'ELG', 'QSO']
    inits = [P.markers[m]['init'] for m in order]
    ok_init = ok_order and inits[0] == '0' and inits[1:] == order[:2]
    chk.check(ok_init, 'C09-R2', GH, name, 'markers stacked 0 -> LRG -> ELG -> QSO', f'{list(zip(order, inits))}',
              f'marker initialisations {list(zip(order, inits))}: slices would overlap or leave the order LRG, ELG, QSO', node=P.markers[order[0]]['node'] if order else fn)
    for m in order:
        T = tracer_of(m)
        info = P.markers[m]
        g = info['guard']
        okg = g == f'want_{T}' and len(info['incs']) >= 1
        chk.check(okg, 'C09-R2', GH, name, f'{m} advanced only under want_{T}', f'{len(info["incs"])} increment(s)',
                  f'{m} is advanced under {g}: enabling another tracer would change this one', node=info['node'])
        if not info['block']:
            continue
        # suffix discipline inside the block
        S = SUFFIX.get(T)
        foreign = set()
        for n in walk_no_nested(info['block']):
            if isinstance(n, ast.Name):
                mm = re.match(r'^.*_([LEQ])(?:_temp)?$', n.id)
                mm2 = re.match(r'^.*_(E[EL])$', n.id)
                if mm2:
                    if T != 'ELG':
                        foreign.add(n.id)
                elif mm and mm.group(1) != S and not n.id.startswith('want_'):
                    foreign.add(n.id)
                elif tracer_of(n.id) in SUFFIX and tracer_of(n.id) != T and n.id.endswith('_marker') and n.id != m:
                    foreign.add(n.id)
        chk.check(not foreign, 'C09-R2', GH, name, f'{T} block uses only {T} parameters', '',
                  f'the {T} occupation term reads {sorted(foreign)}: it depends on another tracer\'s parameters', node=info['block'])
        # factor structure: ic_S and the host weight multiply every probability that reaches the marker
        prob_defs = [n for n in walk_no_nested(info['block']) if isinstance(n, ast.Assign) and isinstance(n.targets[0], ast.Name)
                     and n.targets[0].id.startswith('base_p_') and not _only_decorated(n)]
        sources = prob_defs if prob_defs else [i for i in info['incs']]
        okf = True
        detail = []
        for s_ in sources:
            fac = _factors(s_.value)
            calls = [f for f in fac if isinstance(f, ast.Call) and dotted(f.func)[:1] in ('n', 'N')]
            need = {f'ic_{S}', f'{Hn["weight"]}[{P.i_c}]'}
            have = {unparse(f) for f in fac}
            first_arg = unparse(calls[0].args[0]) if calls and calls[0].args else None
            good = need <= have and len(calls) == 1 and first_arg == f'{Hn["mass"]}[{P.i_c}]'
            okf = okf and good
            detail.append(f'{sorted(have & need)} occ({first_arg})')
        # the increment must be (a decorated form of) the probability
        for inc in info['incs']:
            v = unparse(inc.value)
            if prob_defs:
                okf = okf and (v in ('exp_sat',) or v.startswith('base_p_'))
        chk.check(okf and bool(sources), 'C09-R2', GH, name, f'{T} increment = occupation(host mass, {T} params) * ic_{S} * {Hn["weight"]}[i]', '; '.join(detail),
                  f'{T} increment factors {detail}: the slice width must be the occupation at the host mass times incompleteness times multiplicity/weight', node=sources[0] if sources else info['block'])
        # the secondary-rank decoration must survive to the increment on every path (ranks enabled): a later re-definition of the
        # probability from scratch (e.g. a conformity branch placed after it) silently drops the rank term
        decos = [n for n in walk_no_nested(info['block']) if isinstance(n, ast.Assign) and isinstance(n.targets[0], ast.Name)
                 and n.targets[0].id.startswith('base_p_') and _only_decorated(n)]
        if decos:
            pname = decos[0].targets[0].id
            lost = []

            def flow(stmts, dec):
                for st_ in stmts:
                    if isinstance(st_, ast.If):
                        if unparse(st_.test) == 'enable_ranks':
                            dec = flow(st_.body, dec)
                        else:
                            a_, b_ = flow(st_.body, dec), flow(st_.orelse, dec)
                            dec = a_ and b_
                    elif isinstance(st_, (ast.For, ast.While, ast.With)):
                        dec = flow(st_.body, dec)
                    elif isinstance(st_, ast.Assign) and any(isinstance(t_, ast.Name) and t_.id == pname for t_ in st_.targets):
                        if not _only_decorated(st_):
                            dec = False          # defined from scratch
                        elif 'decorator' in unparse(st_.value):
                            dec = True           # p = p * decorator
                        # p = p * <other factor>: keeps what it had
                    elif any(st_ is i_ for i_ in info['incs']) or (isinstance(st_, ast.AugAssign) and unparse(st_.target) == m):
                        if not dec and pname in unparse(st_.value):
                            lost.append(st_)
                return dec
            blk = info['block']
            flow(blk.body if hasattr(blk, 'body') else [blk], False)
            chk.check(not lost, 'C09-R2', GH, name, f'{T}: the rank decoration reaches the marker increment on every path', f'{len(decos)} decoration(s) of {pname}',
                      f'{pname} is re-defined after its rank decoration on some path to "{unparse(lost[0])[:40] if lost else ""}": for those hosts the slice width '
                      'lacks the secondary-rank factor (1 + s*rank + ...)', node=lost[0] if lost else blk, nontrivial=False)
    # comparison chain
    okc = [b['marker'] for b in P.branches] == order and all(b['op'] == 'LtE' and b['lhs'] == f'{Hn["rnd"]}[{P.i_c}]' for b in P.branches)
    chk.check(okc, 'C09-R2', GH, name, 'if/elif chain randoms[i] <= LRG, ELG, QSO marker', '',
              f'decision chain {[(b["lhs"], b["op"], b["marker"]) for b in P.branches]}', node=P.decision)
    # a tracer that is switched off has a slice of width zero [m, m]: with the closed comparison r <= m the value r == m (r = 0.0 for
    # the first tracer) would still select it, so each branch is guarded by its tracer's flag (or compares strictly)
    # An EMPTY slice selects no host.  A slice is empty when its tracer is switched off, and also when the tracer is on but its mean
    # occupation at this host is exactly 0 (N_sat below kappa*M_cut, a saturated erf, ic = 0, a zero weight): marker_T == marker_{T-1}.
    # With the closed comparison r <= marker_T the stored random r == marker_{T-1} (r = 0.0 for the first tracer) would still select T
    # and take the host away from the next tracer.  Each branch therefore tests that its slice is non-empty: marker_T > marker_{T-1}
    # (marker_first > 0); the want_T flag alone covers only the switched-off case (F21), not the zero-occupation case (F36).
    prev = None
    for b in P.branches:
        T = tracer_of(b['marker'])
        need = f"{b['marker']}>{prev if prev is not None else '0'}"
        alt = f"{prev if prev is not None else '0'}<{b['marker']}"
        ex_ = [re.sub(r'(?<![\w.])0\.0(?![\w.])', '0', x) for x in b.get('extra', [])]      # the literal 0.0 is the number 0
        okz = need in ex_ or alt in ex_
        chk.check(okz, 'C09-R2', GH, name, f'{T}: an empty slice selects no host (branch tests {need})',
                  f'guards {b.get("guard")}, {b.get("extra")}',
                  f'branch "{unparse(b["node"].test)[:70]}": when the {T} slice is empty at this host (tracer off, or on with mean occupation exactly 0) {b["marker"]} equals '
                  f'{prev if prev is not None else 0}, and a host whose stored random is exactly that value (0.0 occurs in float32 randoms) is given to {T}: the next tracer loses its galaxy',
                  node=b['node'], nontrivial=False)
        prev = b['marker']
    # ---- R1 bijection
    table = {}
    for b in P.branches:
        T = tracer_of(b['marker'])
        row = b['rows'][0][0][1] if b['rows'] else None
        code = b['codes'][0][1] if b['codes'] else None
        table[T] = dict(code=code, row=row)
    for T, d in table.items():
        col = next((c for c, (r, _) in P.gs_cols.items() if r == d['row']), None)
        d['col'] = col
        d['cursor'] = P.cursors[int(col)] if col is not None and col.isdigit() and int(col) < len(P.cursors) else None
        fb = next((f for f in P.fbranches if f['code'] == d['code']), None)
        arrs = set()
        curs = set()
        if fb:
            for st in fb['body']:
                for n in ast.walk(st):
                    if isinstance(n, ast.Assign) and isinstance(n.targets[0], ast.Subscript):
                        arrs.add(unparse(n.targets[0].value))
                        curs.add(idx(n.targets[0])[0])
        pref = {a.split('_')[0] for a in arrs}
        d['prefix'] = sorted(pref)
        d['fill_cursors'] = sorted(curs)
        d['sizes'] = sorted({P.sizes.get(P.arrays.get(a)) for a in arrs})
        dname = next((dn for dn in P.dicts if tracer_of(dn) == T), None)
        d['dict'] = dname
        dv = P.dicts.get(dname, {})
        idv = P.dicts.get('ID_dict', {}).get(T)
        d['dict_ok'] = {k: dv.get(k) for k in COLS[:-1]} == {k: f'{T.lower()}_{k}' for k in COLS[:-1]} and idv == f'{T.lower()}_id'
        ok = (d['code'] is not None and d['row'] is not None and d['col'] == d['row'] and d['prefix'] == [T.lower()] and d['fill_cursors'] == [d['cursor']]
              and d['sizes'] == [d['col']] and d['dict_ok'])
        chk.check(ok, 'C09-R1', GH, name, f'{T}: code {d["code"]} / row {d["row"]} / column {d["col"]} / cursor {d["cursor"]} / arrays {d["prefix"]} / {dname}', '',
                  f'{T}: keep code {d["code"]}, counter row {d["row"]}, prefix column {d["col"]}, fill cursors {d["fill_cursors"]} (expected {d["cursor"]}), '
                  f'arrays {d["prefix"]} sized by column {d["sizes"]}, dict ok={d["dict_ok"]}: galaxies of one tracer would be counted, placed or returned as another',
                  node=fb['node'] if fb else P.fill, nf={k: v for k, v in d.items()})
    codes = [d['code'] for d in table.values()]
    chk.check(len(set(codes)) == 3 and P.ret is not None and P.ret[:4] == ['LRG_dict', 'ELG_dict', 'QSO_dict', 'ID_dict'], 'C09-R1', GH, name,
              'three distinct keep codes; dicts returned in the order LRG, ELG, QSO, ID', f'{P.ret}', f'keep codes {codes}; return tuple {P.ret}', node=fn, nontrivial=False)
    # ---- R3/R4/R5/R6 per fill branch
    blocks = []
    for T, d in table.items():
        fb = next((f for f in P.fbranches if f['code'] == d['code']), None)
        if not fb:
            continue
        cur, pre, S = d['cursor'], T.lower(), SUFFIX[T]
        body = fb['body']
        hosts = {Hn[k] for k in ('pos', 'vel', 'mass', 'ids')} | ({Hn['dev']} if 'dev' in Hn else set()) | ({Hn['hvel']} if 'hvel' in Hn else set())
        bad = []
        stored = set()
        for st in body:
            for n in ast.walk(st):
                if isinstance(n, ast.Subscript) and isinstance(n.value, ast.Name):
                    a = n.value.id
                    first = idx(n)[0]
                    if a in hosts and first != P.i_f:
                        bad.append(unparse(n))
                    if a.startswith(pre + '_'):
                        if first != cur:
                            bad.append(unparse(n))
                        if isinstance(n.ctx, ast.Store):
                            stored.add(a[len(pre) + 1:])
                    elif a.split('_')[0] in ('lrg', 'elg', 'qso') and a.split('_')[0] != pre:
                        bad.append(unparse(n))
        chk.check(not bad and stored == set(COLS), 'C09-R3', GH, name, f'{T} fill: hosts by {P.i_f}, {pre}_* by {cur}, 8 columns stored', '',
                  f'{T} fill block: mis-indexed accesses {bad[:4]}; columns stored {sorted(stored)} (need {COLS}): a galaxy would take another host\'s or another galaxy\'s values',
                  node=fb['node'])
        # formulas (top-level stores of the block)
        env = {}

        def inp(node, cur=cur, pre=pre):
            if isinstance(node, ast.Subscript) and isinstance(node.value, ast.Name):
                ix = idx(node)
                a = node.value.id
                if a in hosts and ix[0] == P.i_f:
                    return Poly.sym(f'{a}{"." + ix[1] if len(ix) > 1 else ""}')
                if a.startswith(pre + '_') and ix == [cur]:
                    return env.get(a, Poly.sym(a))
            return None
        forms = {}
        okforms = True
        for st in body:
            if isinstance(st, ast.Assign) and isinstance(st.targets[0], ast.Subscript) and unparse(st.targets[0].value).startswith(pre + '_'):
                col = unparse(st.targets[0].value)[len(pre) + 1:]
                try:
                    v = to_poly(BPEval({}, inp, ()).ev(st.value))
                except NotInDomain:
                    okforms = False
                    continue
                env[f'{pre}_{col}'] = v
                forms[col] = v
        alpha = Poly.sym(f'{Hn["alpha"]}_{S}')
        want = {}
        for a, c in enumerate('xyz'):
            want[c] = Poly.sym(f'{Hn["pos"]}.{a}')
            if name == 'gen_cent':
                want['v' + c] = Poly.sym(f'{Hn["vel"]}.{a}') + alpha * Poly.sym(f'{Hn["dev"]}.{a}')
            else:
                hv, pv = Poly.sym(f'{Hn["hvel"]}.{a}'), Poly.sym(f'{Hn["vel"]}.{a}')
                want['v' + c] = hv + alpha * (pv - hv)
        okpv = okforms and all(forms.get(k) == v for k, v in want.items())
        chk.check(okpv, 'C09-R4', GH, name, f'{T}: position = host position; velocity = documented velocity-bias formula, component-wise', '',
                  f'{T} fill formulas { {k: str(forms.get(k)) for k in want if forms.get(k) != want[k]} } differ from { {k: str(v) for k, v in want.items() if forms.get(k) != v} }',
                  node=fb['node'], nf={k: str(v) for k, v in forms.items()})
        okid = forms.get('mass') == Poly.sym(Hn['mass']) and forms.get('id') == Poly.sym(Hn['ids'])
        chk.check(okid, 'C09-R6', GH, name, f'{T}: mass and id copied from the host row', '',
                  f'{T}: mass = {forms.get("mass")}, id = {forms.get("id")}: the galaxy does not carry its host\'s mass/id', node=fb['node'])
        # RSD branch
        rsd = [st for st in body if isinstance(st, ast.If) and 'rsd' in unparse(st.test)]
        okr = False
        detail = ''
        # which statements run for (rsd, observer) is decided by evaluating the tests of the if/elif chain for the four cases:
        # nothing without rsd; the single z <- wrap(...) store for the box observer; the line-of-sight block for an origin
        if len(rsd) == 1:
            sel = {(r_, o_): _select_rsd(rsd[0], r_, o_) for r_ in (False, True) for o_ in (False, True)}
            bb = sel[(True, False)]
            los = sel[(True, True)]
            if None not in sel.values() and sel[(False, False)] == [] and sel[(False, True)] == [] and los and los is not bb \
                    and len(bb) == 1 and isinstance(bb[0], ast.Assign) and unparse(bb[0].targets[0]) == f'{pre}_z[{cur}]' and isinstance(bb[0].value, ast.Call) \
                    and dotted(bb[0].value.func) == 'wrap' and len(bb[0].value.args) == 2 and unparse(bb[0].value.args[1]) == 'lbox':
                try:
                    arg = to_poly(BPEval({}, inp, ()).ev(bb[0].value.args[0]))
                    okr = arg == want['z'] + want['vz'] * Poly.sym('inv_velz2kms')
                    detail = str(arg)
                except NotInDomain as e:
                    detail = str(e)
        chk.check(okr, 'C09-R5', GH, name, f'{T}: box-observer RSD moves only z, to wrap(z + vz * inv_velz2kms, lbox)', detail,
                  f'{T}: RSD branch is not "z <- wrap(z + vz/velz2kms, L)" only (argument {detail})', node=rsd[0] if rsd else fb['node'])
        # alpha-equivalence of the three blocks modulo (prefix, cursor, suffix)
        class Ren(ast.NodeTransformer):
            def visit_Name(self, n, pre=pre, cur=cur, S=S):
                s = n.id
                if s.startswith(pre + '_'):
                    s = 'T_' + s[len(pre) + 1:]
                elif s == cur:
                    s = 'J'
                elif s.endswith('_' + S):
                    s = s[:-len(S)] + 'S'
                return ast.copy_location(ast.Name(id=s, ctx=n.ctx), n)
        blocks.append((T, [norm(Ren().visit(ast.parse(unparse(st)))) for st in body]))
    same = all(b[1] == blocks[0][1] for b in blocks) if blocks else False
    chk.check(same and len(blocks) == 3, 'C09-R4', GH, name, 'the three tracer blocks of the fill pass are alpha-equivalent', '',
              'the LRG / ELG / QSO fill blocks differ beyond the renaming of prefix, cursor and parameter suffix', node=P.fill)


def _select_rsd(node, rsd, has_origin):
    """The statement list an if/elif/else chain over `rsd` and `origin is [not] None` executes for the given case ([] if none);
    None when a test reads anything else."""
    def ev(t):
        if isinstance(t, ast.Name) and t.id == 'rsd':
            return rsd
        if isinstance(t, ast.Compare) and len(t.ops) == 1 and unparse(t.left) == 'origin' and unparse(t.comparators[0]) == 'None' \
                and isinstance(t.ops[0], (ast.Is, ast.IsNot)):
            return (not has_origin) if isinstance(t.ops[0], ast.Is) else has_origin
        if isinstance(t, ast.UnaryOp) and isinstance(t.op, ast.Not):
            v = ev(t.operand)
            return None if v is None else not v
        if isinstance(t, ast.BoolOp):
            vs = [ev(v) for v in t.values]
            if None in vs:
                return None
            return all(vs) if isinstance(t.op, ast.And) else any(vs)
        return None
    c = node
    while True:
        v = ev(c.test)
        if v is None:
            return None
        if v:
            return c.body
        if len(c.orelse) == 1 and isinstance(c.orelse[0], ast.If):
            c = c.orelse[0]
            continue
        return c.orelse


def _only_decorated(n):
    """base_p_E = base_p_E * decorator_E  (rank modification of an already complete probability)."""
    v = n.value
    return isinstance(v, ast.BinOp) and isinstance(v.op, ast.Mult) and isinstance(v.left, ast.Name) and v.left.id == n.targets[0].id


def _factors(e):
    out = []

    def rec(n):
        if isinstance(n, ast.BinOp) and isinstance(n.op, ast.Mult):
            rec(n.left)
            rec(n.right)
        else:
            out.append(n)
    rec(e)
    return out


def wrap_rule(chk):
    src = chk.src
    fn = src.func(GH, 'wrap')
    x, L = [a.arg for a in fn.args.args][:2]
    body = [s for s in fn.body if not (isinstance(s, ast.Expr) and isinstance(s.value, ast.Constant))]
    t = [unparse(s) for s in body]
    ok = len(body) == 3 and t[0] == f'L2 = {L} / 2' and isinstance(body[1], ast.If) and unparse(body[1].test) == f'{x} >= L2' and \
        unparse(body[1].body[0]) == f'return {x} - {L}' and len(body[1].orelse) == 1 and unparse(body[1].orelse[0].test) == f'{x} < -L2' and \
        unparse(body[1].orelse[0].body[0]) == f'return {x} + {L}' and t[2] == f'return {x}'
    chk.check(ok, 'C09-R5', GH, 'wrap', 'wrap: x >= L/2 -> x - L; x < -L/2 -> x + L; else x  (maps [-3L/2, 3L/2) into [-L/2, L/2))', '',
              'wrap no longer maps one period into [-L/2, L/2)', node=fn)
    gg = src.func(GH, 'gen_gals')
    t = {unparse(s.targets[0]): unparse(s.value) for s in gg.body if isinstance(s, ast.Assign)}
    chk.check(t.get('velz2kms') == "params['velz2kms']" and t.get('inv_velz2kms') == '1 / velz2kms' and t.get('lbox') == "params['Lbox']",
              'C09-R5', GH, 'gen_gals', 'inv_velz2kms = 1 / params[velz2kms]; lbox = params[Lbox]', '',
              f'velz2kms = {t.get("velz2kms")}, inv = {t.get("inv_velz2kms")}, lbox = {t.get("lbox")}', node=gg)


def parameter_tables(chk):
    """The HOD parameters reach the kernels through per-tracer typed dicts filled in gen_gals: every entry `D['k'] = SRC.get('k2', default)` copies
    the user's value of the SAME key (a copy-pasted neighbour key makes one parameter silently take another one's value, and overwrites a value
    the user did supply), )."""
    src = chk.src
    gg = src.func(GH, 'gen_gals')
    n = 0
    bad = []
    for st in ast.walk(gg):
        if isinstance(st, ast.Assign) and len(st.targets) == 1 and isinstance(st.targets[0], ast.Subscript) and isinstance(st.targets[0].value, ast.Name) \
                and st.targets[0].value.id.endswith('_hod_dict') and isinstance(st.targets[0].slice, ast.Constant) and isinstance(st.value, ast.Call) \
                and isinstance(st.value.func, ast.Attribute) and st.value.func.attr == 'get' and st.value.args and isinstance(st.value.args[0], ast.Constant):
            n += 1
            tr_d = st.targets[0].value.id.split('_')[0]
            tr_s = unparse(st.value.func.value).split('_')[0]
            if st.targets[0].slice.value != st.value.args[0].value or tr_d != tr_s:
                bad.append(st)
    if n < 10:
        raise AnalysisError(f'gen_gals: only {n} parameter table entries of the form D[k] = SRC.get(k, default) found')
    chk.check(not bad, 'C09-R8', GH, 'gen_gals', 'every parameter table entry copies the user\'s value of its own key from its own tracer\'s table', f'{n} entries',
              '; '.join(f'line {b.lineno}: {unparse(b)[:90]}' for b in bad[:3]) + ': the entry takes another parameter\'s value (and overwrites the one the user supplied): '
              'the slice widths computed from it are not the occupation with the tracer\'s own parameters', node=bad[0] if bad else gg)


def assembly(chk):
    src = chk.src
    gg = src.func(GH, 'gen_gals')
    t = unparse(gg)
    # tracer dicts mapped by position of the return tuples
    cc = [n for n in walk_no_nested(gg) if isinstance(n, ast.Assign) and isinstance(n.value, ast.Call) and dotted(n.value.func) == 'gen_cent']
    sc = [n for n in walk_no_nested(gg) if isinstance(n, ast.Assign) and isinstance(n.value, ast.Call) and dotted(n.value.func) == 'gen_sats']
    okm = len(cc) == 1 and unparse(cc[0].targets[0]) == '(LRG_dict_cent, ELG_dict_cent, QSO_dict_cent, ID_dict_cent, keep_cent)' and \
        len(sc) == 1 and unparse(sc[0].targets[0]) == '(LRG_dict_sat, ELG_dict_sat, QSO_dict_sat, ID_dict_sat)' and \
        "HOD_dict_sat = {'LRG': LRG_dict_sat, 'ELG': ELG_dict_sat, 'QSO': QSO_dict_sat}" in t and \
        "HOD_dict_cent = {'LRG': LRG_dict_cent, 'ELG': ELG_dict_cent, 'QSO': QSO_dict_cent}" in t
    chk.check(okm, 'C09-R7', GH, 'gen_gals', 'central / satellite dicts mapped to their tracer by position', '',
              'the per-tracer dictionaries returned by gen_cent / gen_sats are no longer mapped to the right tracer keys', node=gg)
    loops = [n for n in walk_no_nested(gg) if isinstance(n, ast.For) and unparse(n.iter) == 'tracers' and 'fast_concatenate' in unparse(n)]
    ok = False
    if len(loops) == 1:
        L = loops[0]
        tv = L.target.id
        body = [unparse(s) for s in L.body]
        ok = f"tracer_dict = {{'Ncent': len(HOD_dict_cent[{tv}]['x'])}}" in body and \
            f"for k in HOD_dict_cent[{tv}]:\n    tracer_dict[k] = fast_concatenate(HOD_dict_cent[{tv}][k], HOD_dict_sat[{tv}][k], Nthread)" in body and \
            f"tracer_dict['id'] = fast_concatenate(ID_dict_cent[{tv}], ID_dict_sat[{tv}], Nthread)" in body and f'HOD_dict[{tv}] = tracer_dict' in body
    chk.check(ok, 'C09-R7', GH, 'gen_gals', 'centrals precede satellites in every column and the id; Ncent = len(cent[x])', '',
              'the assembly no longer concatenates (centrals, satellites) in that order for every column and the id, or Ncent is not the number of centrals', node=loops[0] if loops else gg)
    # host arrays handed to the kernels (argument order)
    a = [unparse(x) for x in cc[0].value.args[:7]] if cc else []
    okargs = a == ["halos_array['hpos']", "halos_array['hvel']", "halos_array['hmass']", "halos_array['hid']", "halos_array['hmultis']", "halos_array['hrandoms']", "halos_array['hveldev']"]
    s = [unparse(x) for x in sc[0].value.args[:7]] if sc else []
    okargs = okargs and s == ["subsample['ppos']", "subsample['pvel']", "subsample['phvel']", "subsample['phmass']", "subsample['phid']", "subsample['pweights']", "subsample['prandoms']"]
    okk = bool(sc) and unparse(sc[0].value.args[-1]) == "keep_cent[subsample['pinds']]"
    chk.check(okargs and okk, 'C09-R7', GH, 'gen_gals', 'host / particle columns passed to the kernels in signature order; satellites see their host\'s central code', '',
              f'kernel arguments {a} / {s}; conformity code {unparse(sc[0].value.args[-1]) if sc else None}', node=gg)
