"""C12 -- HOD staging keeps every per-halo attribute on the same row."""
import ast

from ..core import own
from ..core.srcmodel import dotted, unparse, walk_no_nested, AnalysisError, names_in, stores_in

HOD = 'abacusnbody/hod/abacus_hod.py'
FILES = [HOD]
Q = 'AbacusHOD.staging'


def guards_of(node, stop):
    """Texts of the enclosing `if` tests (with polarity) between node and stop."""
    out = []
    child = node
    p = getattr(node, '_parent', None)
    while p is not None and p is not stop:
        if isinstance(p, ast.If):
            out.append(unparse(p.test) if child in p.body else 'not ' + unparse(p.test))
        child = p
        p = getattr(p, '_parent', None)
    return tuple(reversed(out))


def run(chk):
    src = chk.src
    fn = src.func(HOD, Q)
    chk.explanation = ('The set H of per-halo arrays is computed from the source (arrays allocated with leading dimension Nhalos_tot '
                       'that reach halo_data), not listed. In the branch that re-sorts by halo id, the arrays permuted by sortind '
                       'must contain H (conditional members under the flag of their allocation); in the loading loop every member of '
                       'H (and every per-particle array) is stored through the same slab slice and the ticker advances once per slab '
                       'after those stores; the sortedness assertion and the particle-to-halo lookup follow the sort. Set comparisons: '
                       'holds for every file layout and flag combination.')
    chk.rule('C12-R1', 'every per-halo array that reaches halo_data is permuted by sortind in the re-sort branch (under the same flags)', 10)
    chk.rule('C12-R2', 'every per-halo / per-particle array is filled through the same slab slice; tickers advance once per slab after the stores', 4)
    chk.rule('C12-R3', 'sortedness is asserted after the branch; pinds = sorted search of phid in the (re-sorted) hid', 3)
    chk.assume('halo ids are duplicate-free and every particle records the id of a halo that is present (precondition of the statement)')
    # allocations by leading dimension
    def allocs(dimname):
        out = {}
        for n in walk_no_nested(fn):
            if isinstance(n, ast.Assign) and isinstance(n.targets[0], ast.Name) and isinstance(n.value, ast.Call) \
                    and dotted(n.value.func) in ('np.empty', 'np.zeros', 'np.ones') and n.value.args:
                a = n.value.args[0]
                first = a.elts[0] if isinstance(a, (ast.Tuple, ast.List)) and a.elts else a
                if unparse(first) == dimname:
                    out[n.targets[0].id] = (n, guards_of(n, fn))
        return out
    halo_allocs = allocs('Nhalos_tot')
    part_allocs = allocs('Nparts_tot')
    if len(halo_allocs) < 5 or len(part_allocs) < 5:
        raise AnalysisError(f'staging: allocations not recognised ({len(halo_allocs)}, {len(part_allocs)})')
    # what reaches halo_data
    reach = {}
    for n in walk_no_nested(fn):
        if isinstance(n, ast.Assign) and isinstance(n.targets[0], ast.Name) and n.targets[0].id == 'halo_data' and isinstance(n.value, ast.Dict):
            for k, v in zip(n.value.keys, n.value.values):
                if isinstance(v, ast.Name):
                    reach[v.id] = (unparse(k), guards_of(n, fn))
        if isinstance(n, ast.Assign) and isinstance(n.targets[0], ast.Subscript) and unparse(n.targets[0].value) == 'halo_data' and isinstance(n.value, ast.Name):
            reach[n.value.id] = (unparse(n.targets[0].slice), guards_of(n, fn))
    H = {a: halo_allocs[a] for a in halo_allocs if a in reach}
    if len(H) < 8:
        raise AnalysisError(f'staging: per-halo set H has only {len(H)} members')
    chk.extra['per_halo_arrays'] = sorted(H)
    # the sort branch
    sortif = None
    sortvar = None
    for n in walk_no_nested(fn):
        if isinstance(n, ast.If):
            for s in n.body:
                if isinstance(s, ast.Assign) and isinstance(s.value, ast.Call) and dotted(s.value.func) == 'np.argsort' and isinstance(s.targets[0], ast.Name):
                    sortif, sortvar = n, s.targets[0].id
                    sortkey = unparse(s.value.args[0]) if s.value.args else None
    if sortif is None:
        chk.refuted('C12-R1', HOD, Q, 're-sort branch', 'no branch computes argsort of the halo ids: rows are not brought into increasing id order', node=fn)
        return
    permuted = {}
    wholesale = False
    for n in walk_no_nested(sortif):
        if isinstance(n, ast.Assign) and isinstance(n.targets[0], ast.Name) and isinstance(n.value, ast.Subscript) \
                and isinstance(n.value.value, ast.Name) and n.value.value.id == n.targets[0].id and unparse(n.value.slice) == sortvar:
            permuted[n.targets[0].id] = guards_of(n, sortif)
        if isinstance(n, ast.For) and 'halo_data' in unparse(n.iter):
            for b in walk_no_nested(n):
                if isinstance(b, ast.Assign) and sortvar in unparse(b.value):
                    wholesale = True
    for a in sorted(H):
        node, g_alloc = H[a]
        if wholesale:
            chk.proven('C12-R1', HOD, Q, f'{a} permuted', 'wholesale permutation of the assembled dict')
            continue
        ok = a in permuted and (set(permuted[a]) == set(g_alloc))
        chk.check(ok, 'C12-R1', HOD, Q, f'{a} permuted by {sortvar}', f'allocated under {list(g_alloc)}, permuted under {list(permuted.get(a, ()))}',
                  f'{a} (halo_data[{reach[a][0]}]) is allocated per halo and returned, but ' +
                  ('is not permuted by ' + sortvar if a not in permuted else f'is permuted under {list(permuted[a])} while allocated under {list(g_alloc)}') +
                  ': after the re-sort it describes another halo than the other columns of its row', node=node if a not in permuted else sortif)
    chk.check(sortkey == 'hid' and 'hid' in (permuted if not wholesale else {'hid': 1}), 'C12-R1', HOD, Q, 'sort key is the halo id and is itself permuted',
              f'argsort({sortkey})', f'rows sorted by {sortkey}; hid permuted: {"hid" in permuted}', node=sortif)
    # R2 slab slices
    loops = [n for n in fn.body if isinstance(n, ast.For)]
    load = [l for l in loops if any(isinstance(x, ast.AugAssign) and unparse(x.target) == 'halo_ticker' for x in walk_no_nested(l))]
    if len(load) != 1:
        raise AnalysisError('staging: loading loop not recognised')
    L = load[0]
    from ..core.srcmodel import early_exits
    ex = early_exits(L)
    chk.check(not ex, 'C12-R2', HOD, Q, 'every slab iteration reaches both ticker updates (no continue/break)', '',
              f'{type(ex[0]).__name__.lower() if ex else ""} at line {ex[0].lineno if ex else 0} skips the rest of a slab iteration: later slabs would be stored at stale offsets', node=ex[0] if ex else L, nontrivial=False)
    for allocs_, ticker, counts in ((H, 'halo_ticker', 'Nhalos'), (part_allocs, 'parts_ticker', 'Nparts')):
        stores = {}
        for n in walk_no_nested(L):
            if isinstance(n, ast.Assign) and isinstance(n.targets[0], ast.Subscript) and isinstance(n.targets[0].value, ast.Name) \
                    and n.targets[0].value.id in allocs_:
                stores.setdefault(n.targets[0].value.id, []).append(n)
        want = f'{ticker}:{ticker} + {counts}[eslab - start]'
        bad = {}
        for a in allocs_:
            ss = stores.get(a, [])
            if len(ss) != 1 or unparse(ss[0].targets[0].slice) != want:
                bad[a] = [unparse(s.targets[0].slice) for s in ss]
            else:
                ga = allocs_[a][1]
                gs = guards_of(ss[0], L)
                if not set(ga) <= set(gs):
                    bad[a] = f'stored under {gs}, allocated under {ga}'
        incs = [n for n in walk_no_nested(L) if isinstance(n, ast.AugAssign) and unparse(n.target) == ticker]
        okinc = len(incs) == 1 and unparse(incs[0].value) == f'{counts}[eslab - start]' and isinstance(incs[0].op, ast.Add)
        last_store = max([s.lineno for ss in stores.values() for s in ss] or [0])
        after = okinc and incs[0].lineno > last_store
        chk.check(not bad and after, 'C12-R2', HOD, Q, f'{len(allocs_)} arrays filled through [{want}]', '',
                  f'arrays not filled through the common slab slice: {bad}; ticker advanced once after the stores: {after}', node=L)
        init = [n for n in fn.body if isinstance(n, ast.Assign) and unparse(n.targets[0]) == ticker and unparse(n.value) == '0']
        chk.check(len(init) == 1 and init[0].lineno < L.lineno, 'C12-R2', HOD, Q, f'{ticker} starts at 0 before the loop', '',
                  f'{ticker} is not initialised to 0 before the loading loop', node=L, nontrivial=False)
    # R3
    asserts = [n for n in fn.body if isinstance(n, ast.Assert) and 'hid[:-1] <= hid[1:]' in unparse(n.test)]
    oka = len(asserts) == 1 and asserts[0].lineno > sortif.end_lineno
    chk.check(oka, 'C12-R3', HOD, Q, 'sortedness asserted after the re-sort', '', 'the increasing-id assertion is missing or precedes the re-sort', node=sortif)
    pin = [n for n in fn.body if isinstance(n, ast.Assign) and unparse(n.targets[0]) == 'pinds']
    okp = len(pin) == 1 and unparse(pin[0].value) == '_searchsorted_parallel(hid, phid)' and pin[0].lineno > sortif.end_lineno
    reb = [n for n in fn.body if isinstance(n, ast.Assign) and 'phid' in stores_in(n) and n.lineno > L.lineno]
    chk.check(okp and not reb, 'C12-R3', HOD, Q, 'pinds = _searchsorted_parallel(hid, phid) after the re-sort', '',
              f'pinds is {unparse(pin[0].value) if pin else None} / computed before the re-sort: particles would point at pre-sort rows', node=pin[0] if pin else fn)
    sp = src.func(HOD, '_searchsorted_parallel')
    a, b = [x.arg for x in sp.args.args][:2]
    st = own.classify_function(sp)
    body = [unparse(s) for s in sp.body]
    oks = all(s.cls == 'iteration-private' for s in st) and len(st) == 1 and any(f'np.searchsorted({a}, {b}[i])' in t for t in body) \
        and body[-1] == 'return res' and f'np.empty(len({b})' in body[0]
    chk.check(oks, 'C12-R3', HOD, '_searchsorted_parallel', 'res[i] = searchsorted(a, b[i]) for every i, iteration-private', '',
              'the parallel lookup no longer maps each b[i] to its position in a', node=sp)
    dec = own.prange_loops(sp)
    chk.check(len(dec) == 1 and unparse(dec[0].iter).endswith(f'prange(len({b}))'), 'C12-R3', HOD, '_searchsorted_parallel', 'loop covers every particle', '',
              'lookup loop does not cover all of b', node=sp, nontrivial=False)
