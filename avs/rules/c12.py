"""C12 -- HOD staging keeps every per-halo attribute on the same row."""
import ast

from ..core import own
from ..core.srcmodel import dotted, unparse, walk_no_nested, AnalysisError, names_in, stores_in

HOD = 'abacusnbody/hod/abacus_hod.py'
FILES = [HOD]
Q = 'AbacusHOD.staging'


def guards_of(node, stop):
    """Texts of the enclosing `if` tests (with polarity) between node and stop."""
    out = []
    child = node
    p = getattr(node, '_parent', None)
    while p is not None and p is not stop:
        if isinstance(p, ast.If):
            out.append(unparse(p.test) if child in p.body else 'not ' + unparse(p.test))
        child = p
        p = getattr(p, '_parent', None)
    return tuple(reversed(out))


def _row_permutations(n, sortvar, mod):
    """(target name, source name) pairs of an assignment that binds target to source[sortvar].  Spellings:
         a = a[s]        a, b = a[s], b[s]        a, b = [c[s] for c in (a, b)]        a, b = helper(s, a, b)
    with helper a module-level function  def helper(order, *columns): return [col[order] for col in columns]."""
    t, v = n.targets[0], n.value

    def perm(e, var=sortvar):
        return e.value.id if isinstance(e, ast.Subscript) and isinstance(e.value, ast.Name) and unparse(e.slice) == var else None

    def comp_over(c, order):
        """[x[order] for x in <it>]  ->  <it>"""
        if isinstance(c, ast.Call) and dotted(c.func) in ('tuple', 'list') and len(c.args) == 1 and not c.keywords:
            c = c.args[0]
        if isinstance(c, (ast.ListComp, ast.GeneratorExp)) and len(c.generators) == 1 and not c.generators[0].ifs \
                and isinstance(c.generators[0].target, ast.Name) and perm(c.elt, order) == c.generators[0].target.id:
            return c.generators[0].iter
        return None
    if isinstance(t, ast.Name):
        return [(t.id, perm(v))] if perm(v) else []
    if not (isinstance(t, (ast.Tuple, ast.List)) and all(isinstance(e, ast.Name) for e in t.elts)):
        return []
    names = [e.id for e in t.elts]
    srcs = None
    if isinstance(v, (ast.Tuple, ast.List)) and len(v.elts) == len(names):
        srcs = [perm(e) for e in v.elts]
    else:
        it = comp_over(v, sortvar)
        if it is not None and isinstance(it, (ast.Tuple, ast.List)) and all(isinstance(e, ast.Name) for e in it.elts):
            srcs = [e.id for e in it.elts]
        elif isinstance(v, ast.Call) and isinstance(v.func, ast.Name) and not v.keywords and v.args and unparse(v.args[0]) == sortvar \
                and all(isinstance(a, ast.Name) for a in v.args[1:]):
            h = [f for f in mod.body if isinstance(f, ast.FunctionDef) and f.name == v.func.id and not f.decorator_list]
            if len(h) == 1:
                a = h[0].args
                body = [b for b in h[0].body if not (isinstance(b, ast.Expr) and isinstance(b.value, ast.Constant))]
                if len(a.args) == 1 and a.vararg is not None and not a.kwonlyargs and not a.kwarg and not a.defaults \
                        and len(body) == 1 and isinstance(body[0], ast.Return) and body[0].value is not None:
                    it2 = comp_over(body[0].value, a.args[0].arg)
                    if isinstance(it2, ast.Name) and it2.id == a.vararg.arg:
                        srcs = [x.id for x in v.args[1:]]
    if srcs is None or len(srcs) != len(names):
        return []
    return [(a, b) for a, b in zip(names, srcs) if b]


def run(chk):
    src = chk.src
    fn = src.func(HOD, Q)
    chk.explanation = ('The set H of per-halo arrays is computed from the source (arrays allocated with leading dimension Nhalos_tot '
                       'that reach halo_data), not listed. In the branch that re-sorts by halo id, the arrays permuted by sortind '
                       'must contain H (conditional members under the flag of their allocation); in the loading loop every member of '
                       'H (and every per-particle array) is stored through the same slab slice and the ticker advances once per slab '
                       'after those stores; the sortedness assertion and the particle-to-halo lookup follow the sort. Set comparisons: '
                       'holds for every file layout and flag combination.')
    chk.rule('C12-R1', 'every per-halo array that reaches halo_data is permuted by sortind in the re-sort branch (under the same flags)', 10)
    chk.rule('C12-R2', 'every per-halo / per-particle array is filled through the same slab slice; tickers advance once per slab after the stores', 4)
    chk.rule('C12-R4', 'per-slab values are row-aligned with the slab table they are read from (column reads, element-wise arithmetic, repeat-reshape / stack along axis 1); no re-assembly that moves values between rows', 20)
    chk.rule('C12-R3', 'sortedness is asserted after the branch; pinds = sorted search of phid in the (re-sorted) hid', 3)
    chk.assume('halo ids are duplicate-free and every particle records the id of a halo that is present (precondition of the statement)')
    # allocations by leading dimension
    def allocs(dimname):
        out = {}
        for n in walk_no_nested(fn):
            if isinstance(n, ast.Assign) and isinstance(n.targets[0], ast.Name) and isinstance(n.value, ast.Call) \
                    and dotted(n.value.func) in ('np.empty', 'np.zeros', 'np.ones') and n.value.args:
                a = n.value.args[0]
                first = a.elts[0] if isinstance(a, (ast.Tuple, ast.List)) and a.elts else a
                if unparse(first) == dimname:
                    out[n.targets[0].id] = (n, guards_of(n, fn))
        return out
    halo_allocs = allocs('Nhalos_tot')
    part_allocs = allocs('Nparts_tot')
    if len(halo_allocs) < 5 or len(part_allocs) < 5:
        raise AnalysisError(f'staging: allocations not recognised ({len(halo_allocs)}, {len(part_allocs)})')
    # what reaches halo_data
    reach = {}
    for n in walk_no_nested(fn):
        if isinstance(n, ast.Assign) and isinstance(n.targets[0], ast.Name) and n.targets[0].id == 'halo_data' and isinstance(n.value, ast.Dict):
            for k, v in zip(n.value.keys, n.value.values):
                if isinstance(v, ast.Name):
                    reach[v.id] = (unparse(k), guards_of(n, fn))
        if isinstance(n, ast.Assign) and isinstance(n.targets[0], ast.Subscript) and unparse(n.targets[0].value) == 'halo_data' and isinstance(n.value, ast.Name):
            reach[n.value.id] = (unparse(n.targets[0].slice), guards_of(n, fn))
    H = {a: halo_allocs[a] for a in halo_allocs if a in reach}
    if len(H) < 8:
        raise AnalysisError(f'staging: per-halo set H has only {len(H)} members')
    chk.extra['per_halo_arrays'] = sorted(H)
    # the sort branch
    sortif = None
    sortvar = None
    for n in walk_no_nested(fn):
        if isinstance(n, ast.If):
            for s in n.body:
                if isinstance(s, ast.Assign) and isinstance(s.value, ast.Call) and dotted(s.value.func) == 'np.argsort' and isinstance(s.targets[0], ast.Name):
                    sortif, sortvar = n, s.targets[0].id
                    sortkey = unparse(s.value.args[0]) if s.value.args else None
    if sortif is None:
        chk.refuted('C12-R1', HOD, Q, 're-sort branch', 'no branch computes argsort of the halo ids: rows are not brought into increasing id order', node=fn)
        return
    permuted = {}
    wholesale = False
    mod = src.tree(HOD)
    for n in walk_no_nested(sortif):
        if isinstance(n, ast.Assign) and len(n.targets) == 1:
            for tgt, source in _row_permutations(n, sortvar, mod):
                if tgt == source:
                    permuted[tgt] = guards_of(n, sortif)
        if isinstance(n, ast.For) and 'halo_data' in unparse(n.iter):
            for b in walk_no_nested(n):
                if isinstance(b, ast.Assign) and sortvar in unparse(b.value):
                    wholesale = True
    for a in sorted(H):
        node, g_alloc = H[a]
        if wholesale:
            chk.proven('C12-R1', HOD, Q, f'{a} permuted', 'wholesale permutation of the assembled dict')
            continue
        ok = a in permuted and (set(permuted[a]) == set(g_alloc))
        chk.check(ok, 'C12-R1', HOD, Q, f'{a} permuted by {sortvar}', f'allocated under {list(g_alloc)}, permuted under {list(permuted.get(a, ()))}',
                  f'{a} (halo_data[{reach[a][0]}]) is allocated per halo and returned, but ' +
                  ('is not permuted by ' + sortvar if a not in permuted else f'is permuted under {list(permuted[a])} while allocated under {list(g_alloc)}') +
                  ': after the re-sort it describes another halo than the other columns of its row', node=node if a not in permuted else sortif)
    chk.check(sortkey == 'hid' and 'hid' in (permuted if not wholesale else {'hid': 1}), 'C12-R1', HOD, Q, 'sort key is the halo id and is itself permuted',
              f'argsort({sortkey})', f'rows sorted by {sortkey}; hid permuted: {"hid" in permuted}', node=sortif)
    # R2 slab slices
    loops = [n for n in fn.body if isinstance(n, ast.For)]
    load = [l for l in loops if any((isinstance(x, ast.AugAssign) and unparse(x.target) == 'halo_ticker') or
                                    (isinstance(x, ast.Assign) and unparse(x.targets[0]) == 'halo_ticker') for x in walk_no_nested(l))]
    if len(load) != 1:
        raise AnalysisError('staging: loading loop not recognised')
    L = load[0]
    from ..core.srcmodel import early_exits
    ex = early_exits(L)
    chk.check(not ex, 'C12-R2', HOD, Q, 'every slab iteration reaches both ticker updates (no continue/break)', '',
              f'{type(ex[0]).__name__.lower() if ex else ""} at line {ex[0].lineno if ex else 0} skips the rest of a slab iteration: later slabs would be stored at stale offsets', node=ex[0] if ex else L, nontrivial=False)
    for allocs_, ticker, counts in ((H, 'halo_ticker', 'Nhalos'), (part_allocs, 'parts_ticker', 'Nparts')):
        stores = {}
        for n in walk_no_nested(L):
            if isinstance(n, ast.Assign) and isinstance(n.targets[0], ast.Subscript) and isinstance(n.targets[0].value, ast.Name) \
                    and n.targets[0].value.id in allocs_:
                stores.setdefault(n.targets[0].value.id, []).append(n)
        want = f'{ticker}:{ticker} + {counts}[eslab - start]'
        bad = {}
        for a in allocs_:
            ss = stores.get(a, [])
            if len(ss) != 1 or unparse(ss[0].targets[0].slice) != want:
                bad[a] = [unparse(s.targets[0].slice) for s in ss]
            else:
                ga = allocs_[a][1]
                gs = guards_of(ss[0], L)
                if not set(ga) <= set(gs):
                    bad[a] = f'stored under {gs}, allocated under {ga}'
        incs = [n for n in walk_no_nested(L) if isinstance(n, ast.AugAssign) and unparse(n.target) == ticker]
        okinc = len(incs) == 1 and unparse(incs[0].value) == f'{counts}[eslab - start]' and isinstance(incs[0].op, ast.Add)
        first_store = min([s.lineno for ss in stores.values() for s in ss] or [10**9])
        last_store = max([s.lineno for ss in stores.values() for s in ss] or [0])
        after = okinc and incs[0].lineno > last_store
        init = [n for n in fn.body if isinstance(n, ast.Assign) and unparse(n.targets[0]) == ticker and unparse(n.value) == '0']
        okinit = len(init) == 1 and init[0].lineno < L.lineno
        # alternative: the slab's first row looked up in an exclusive prefix-sum table  T = cumsum(counts) - counts
        looks = [n for n in walk_no_nested(L) if isinstance(n, ast.Assign) and unparse(n.targets[0]) == ticker]
        if not incs and len(looks) == 1 and isinstance(looks[0].value, ast.Subscript) and unparse(looks[0].value.slice) == 'eslab - start' \
                and isinstance(looks[0].value.value, ast.Name):
            T = looks[0].value.value.id
            tdef = [n for n in fn.body if isinstance(n, ast.Assign) and unparse(n.targets[0]) == T]
            okT = len(tdef) == 1 and unparse(tdef[0].value).replace(' ', '') in (f'np.cumsum({counts})-{counts}', f'{counts}.cumsum()-{counts}') and tdef[0].lineno < L.lineno
            cdefs = [n for n in fn.body if isinstance(n, ast.Assign) and unparse(n.targets[0]) == counts and n.lineno > (tdef[0].lineno if tdef else 0) and n.lineno < L.lineno]
            after = okT and looks[0].lineno < first_store and not cdefs
            okinit = after
        chk.check(not bad and after, 'C12-R2', HOD, Q, f'{len(allocs_)} arrays filled through [{want}]', '',
                  f'arrays not filled through the common slab slice: {bad}; ticker advanced once after the stores (or looked up in the exclusive prefix sums of {counts}): {after}', node=L)
        chk.check(okinit, 'C12-R2', HOD, Q, f'{ticker} starts at 0 before the loop', '',
                  f'{ticker} is not initialised to 0 before the loading loop', node=L, nontrivial=False)
    # R4 row alignment of the per-slab values
    _row_alignment(chk, fn, L, H, part_allocs)
    # R3
    asserts = [n for n in fn.body if isinstance(n, ast.Assert) and 'hid[:-1] <= hid[1:]' in unparse(n.test)]
    oka = len(asserts) == 1 and asserts[0].lineno > sortif.end_lineno
    chk.check(oka, 'C12-R3', HOD, Q, 'sortedness asserted after the re-sort', '', 'the increasing-id assertion is missing or precedes the re-sort', node=sortif)
    pin = [n for n in fn.body if isinstance(n, ast.Assign) and unparse(n.targets[0]) == 'pinds']
    okp = len(pin) == 1 and unparse(pin[0].value) == '_searchsorted_parallel(hid, phid)' and pin[0].lineno > sortif.end_lineno
    reb = [n for n in fn.body if isinstance(n, ast.Assign) and 'phid' in stores_in(n) and n.lineno > L.lineno]
    chk.check(okp and not reb, 'C12-R3', HOD, Q, 'pinds = _searchsorted_parallel(hid, phid) after the re-sort', '',
              f'pinds is {unparse(pin[0].value) if pin else None} / computed before the re-sort: particles would point at pre-sort rows', node=pin[0] if pin else fn)
    # ids are compared exactly: both sides of the sorted search are integer buffers (a float64 buffer rounds ids >= 2**53,
    # so two halos collapse to one id and the particle points at the wrong row)
    INT = ('int', 'np.int64', 'np.uint64', 'np.intp', 'np.int_', "'i8'", "'u8'", 'np.longlong')
    for nm in ('hid', 'phid'):
        al = [n for n in walk_no_nested(fn) if isinstance(n, ast.Assign) and len(n.targets) == 1 and unparse(n.targets[0]) == nm
              and isinstance(n.value, ast.Call) and (dotted(n.value.func) or '').startswith('np.')
              and (dotted(n.value.func) or '').split('.')[-1] in ('empty', 'zeros', 'ones', 'full')]
        for a in al:
            dt = [k.value for k in a.value.keywords if k.arg == 'dtype'] or (list(a.value.args[1:2]) if dotted(a.value.func) in ('np.empty', 'np.zeros', 'np.ones') else [])
            okd = bool(dt) and unparse(dt[0]) in INT
            chk.check(okd, 'C12-R3', HOD, Q, f'{nm} is an integer buffer (ids compared exactly)', unparse(a.value)[:60],
                      f'{nm} = {unparse(a.value)[:70]}: not an integer array, the ids are stored as float64 and ids >= 2**53 that differ by less than an ulp '
                      'become equal: the sorted search returns the row of another halo', node=a)
        if not al:
            chk.assumed('C12-R3', HOD, Q, f'{nm} is an integer buffer (ids compared exactly)', f'{nm} is not built by a numpy constructor with a default float type; its element type is that of the data it is built from', node=fn)
    sp = src.func(HOD, '_searchsorted_parallel')
    oks, whys, okcov = _lookup_kernel(sp)
    chk.check(oks, 'C12-R3', HOD, '_searchsorted_parallel', 'res[i] = searchsorted(a, b[i]) for every i, iteration-private', '',
              'the parallel lookup no longer maps each b[i] to its position in a: ' + whys, node=sp)
    chk.check(okcov, 'C12-R3', HOD, '_searchsorted_parallel', 'loop covers every particle', '',
              'lookup loop does not cover all of b', node=sp, nontrivial=False)



ELEMENTWISE = {'np.sqrt', 'np.log', 'np.log10', 'np.exp', 'np.abs', 'np.float32', 'np.float64', 'np.asarray', 'np.array', 'np.ascontiguousarray',
               'np.minimum', 'np.maximum', 'np.clip', 'np.where', 'np.nan_to_num', 'np.power', 'np.square'}
SCRAMBLE = {'np.concatenate', 'np.hstack', 'np.vstack', 'np.append', 'np.roll', 'np.flip', 'np.sort', 'np.argsort', 'np.unique', 'np.tile',
            'np.random.permutation', 'np.random.shuffle', 'np.ravel', 'np.resize', 'np.transpose'}


def _row_alignment(chk, fn, L, halo_allocs, part_allocs):
    """Abstract value of an expression of the slab loop: ('row', T) = one entry per row of table T, in T's row order;
    ('scalar',); ('bad', why) = built from per-row data by an operation that does not keep row r at position r;
    ('unknown', why).  Row r of every per-halo array must come from row r of the slab's halo table."""
    tables = {}
    for n in walk_no_nested(L):
        if isinstance(n, ast.Assign) and len(n.targets) == 1 and isinstance(n.targets[0], ast.Name) and isinstance(n.value, ast.Subscript) \
                and isinstance(n.value.slice, ast.Constant) and isinstance(n.value.slice.value, str) and n.value.slice.value in ('halos', 'particles'):
            tables[n.targets[0].id] = n.value.slice.value
    if not tables:
        raise AnalysisError('staging: slab tables (newfile[\'halos\'], newpart[\'particles\']) not found')
    defs = {}
    for n in walk_no_nested(L):
        if isinstance(n, ast.Assign) and len(n.targets) == 1 and isinstance(n.targets[0], ast.Name):
            defs.setdefault(n.targets[0].id, []).append(n)

    def join(vals):
        vals = [v for v in vals if v[0] != 'scalar']
        if not vals:
            return ('scalar',)
        for v in vals:
            if v[0] == 'bad':
                return v
        for v in vals:
            if v[0] == 'unknown':
                return v
        ts = {v[1] for v in vals}
        return ('row', ts.pop()) if len(ts) == 1 else ('bad', 'mixes rows of different tables')

    def ev(e, before, depth=0):
        if depth > 12:
            return ('unknown', 'too deep')
        if isinstance(e, ast.Constant):
            return ('scalar',)
        if isinstance(e, ast.Name):
            if e.id in tables:
                return ('row', e.id)
            ds = [d for d in defs.get(e.id, []) if d.lineno < before]
            if not ds:
                return ('scalar',)
            return join([ev(d.value, d.lineno, depth + 1) for d in ds]) if all(True for d in ds) else ('unknown', e.id)
        if isinstance(e, ast.Attribute):
            if e.attr in ('T',):
                v = ev(e.value, before, depth + 1)
                return ('bad', 'transposed') if v[0] == 'row' else v
            return ('scalar',)
        if isinstance(e, ast.Subscript):
            v = ev(e.value, before, depth + 1)
            if v[0] != 'row':
                return v
            sl = e.slice
            if isinstance(sl, ast.Constant) and isinstance(sl.value, str):
                return v            # a column of the table
            items = sl.elts if isinstance(sl, ast.Tuple) else [sl]
            first = items[0]
            if isinstance(first, ast.Slice) and first.lower is None and first.upper is None and first.step is None:
                return v            # x[:, k]
            return ('bad', f'rows selected or reordered by [{unparse(sl)}]')
        if isinstance(e, ast.BinOp):
            return join([ev(e.left, before, depth + 1), ev(e.right, before, depth + 1)])
        if isinstance(e, ast.UnaryOp):
            return ev(e.operand, before, depth + 1)
        if isinstance(e, ast.Compare):
            return join([ev(e.left, before, depth + 1)] + [ev(c, before, depth + 1) for c in e.comparators])
        if isinstance(e, ast.IfExp):
            return join([ev(e.body, before, depth + 1), ev(e.orelse, before, depth + 1)])
        if isinstance(e, ast.Call):
            cn = dotted(e.func) or ''
            if isinstance(e.func, ast.Attribute) and e.func.attr in ('astype', 'copy', 'view', 'squeeze'):
                return ev(e.func.value, before, depth + 1)
            if isinstance(e.func, ast.Attribute) and e.func.attr == 'reshape':
                inner = e.func.value
                shape = [unparse(a) for a in e.args]
                shape = shape[0].strip('()').replace(' ', '').split(',') if len(shape) == 1 else shape
                # np.repeat(x, k).reshape(-1, k): row r = (x_r, ..., x_r)
                if isinstance(inner, ast.Call) and dotted(inner.func) == 'np.repeat' and len(inner.args) == 2 and len(shape) == 2 and shape[0] == '-1' \
                        and unparse(inner.args[1]) == shape[1] and not inner.keywords:
                    return ev(inner.args[0], before, depth + 1)
                v = ev(inner, before, depth + 1)
                if v[0] == 'row' and len(shape) == 2 and shape[1] == '1' and shape[0] in ('-1',):
                    return v
                if v[0] in ('row', 'bad'):
                    return ('bad', f'{unparse(e)[:70]}: reshaping {"a re-assembled array" if v[0] == "bad" else "per-row data"} puts consecutive ELEMENTS into a row, not the values of one halo')
                return v
            if cn in ('np.stack', 'np.column_stack') and e.args and isinstance(e.args[0], (ast.Tuple, ast.List)):
                ax = [unparse(k.value) for k in e.keywords if k.arg == 'axis']
                if cn == 'np.column_stack' or ax in (['1'], ['-1']):
                    return join([ev(x, before, depth + 1) for x in e.args[0].elts])
                v = join([ev(x, before, depth + 1) for x in e.args[0].elts])
                return ('bad', f'{unparse(e)[:60]}: stacked along axis 0') if v[0] == 'row' else v
            if cn in ('np.zeros', 'np.ones', 'np.full', 'np.empty') and e.args:
                a0 = unparse(e.args[0])
                for t in tables:
                    if a0 in (f'len({t})', f'{t}.shape[0]', f'({t}.shape[0],)', f'(len({t}),)'):
                        return ('row', t)
                return ('scalar',)
            if cn in SCRAMBLE or (isinstance(e.func, ast.Attribute) and e.func.attr in ('ravel', 'flatten', 'sort', 'argsort', 'transpose', 'repeat', 'tile')):
                vs = [ev(a, before, depth + 1) for a in e.args for a in (a.elts if isinstance(a, (ast.Tuple, ast.List)) else [a])]
                if isinstance(e.func, ast.Attribute) and not cn.startswith('np.'):
                    vs.append(ev(e.func.value, before, depth + 1))
                v = join(vs)
                if v[0] == 'row':
                    return ('bad', f'{unparse(e)[:70]}: {cn or e.func.attr} does not keep row r at position r')
                return v
            if cn in ELEMENTWISE or cn in ('len', 'int', 'float'):
                return join([ev(a, before, depth + 1) for a in e.args]) if cn not in ('len', 'int', 'float') else ('scalar',)
            vs = [ev(a, before, depth + 1) for a in e.args]
            v = join(vs)
            return ('unknown', f'call {cn or unparse(e.func)}') if v[0] == 'row' else v
        return ('unknown', type(e).__name__)
    for allocs_, tname, what in ((halo_allocs, 'halos', 'halo'), (part_allocs, 'particles', 'particle')):
        tvars = [t for t, k in tables.items() if k == tname]
        for n in walk_no_nested(L):
            if isinstance(n, ast.Assign) and isinstance(n.targets[0], ast.Subscript) and isinstance(n.targets[0].value, ast.Name) and n.targets[0].value.id in allocs_:
                a = n.targets[0].value.id
                v = ev(n.value, n.lineno + 1)
                key = f'{a}: row r of the slab slice comes from row r of the slab\'s {what} table'
                if v[0] == 'row':
                    chk.check(v[1] in tvars, 'C12-R4', HOD, Q, key, f'{unparse(n.value)} is row-aligned with {v[1]}',
                              f'{a} is filled from rows of {v[1]}, not of the {what} table', node=n)
                elif v[0] == 'bad':
                    bad_def = n
                    for d in defs.get(unparse(n.value), []):
                        if d.lineno < n.lineno and ev(d.value, d.lineno)[0] == 'bad':
                            bad_def = d
                    chk.refuted('C12-R4', HOD, Q, key, f'{a} <- {unparse(n.value)[:40]}: {v[1]}: row r of {a} holds values of other {what}s', node=bad_def)
                elif v[0] == 'scalar':
                    chk.proven('C12-R4', HOD, Q, key, f'{unparse(n.value)[:40]} is the same for every row')
                else:
                    chk.assumed('C12-R4', HOD, Q, key, f'alignment of {unparse(n.value)[:40]} not decided ({v[1]})', node=n)


def _lookup_kernel(sp):
    """res = empty(len(b)); for i in prange(len(b)): res[i] = <leftmost insertion point of b[i] in a>; return res.
    The insertion point is np.searchsorted(a, b[i]) (side left) or the textbook lower-bound bisection.  An early return
    of an empty result for empty b is allowed.  Locals (nb = len(b)) are resolved."""
    a, b = [x.arg for x in sp.args.args][:2]
    defs = {}
    for n in walk_no_nested(sp):
        if isinstance(n, ast.Assign) and len(n.targets) == 1 and isinstance(n.targets[0], ast.Name):
            defs.setdefault(n.targets[0].id, []).append(n.value)

    def res(e):
        if isinstance(e, ast.Name) and len(defs.get(e.id, [])) == 1 and e.id not in (a, b):
            return unparse(defs[e.id][0])
        return unparse(e)
    loops = own.prange_loops(sp)
    if len(loops) != 1:
        return False, f'{len(loops)} parallel loops', False
    lp = loops[0]
    iv = lp.target.id
    okcov = len(lp.iter.args) == 1 and res(lp.iter.args[0]) in (f'len({b})', f'{b}.size', f'{b}.shape[0]')
    st = own.classify_function(sp)
    if not (len(st) == 1 and st[0].cls == 'iteration-private'):
        return False, f'stores under prange: {[(unparse(x.node), x.cls) for x in st]}', okcov
    store = st[0].node
    out = unparse(store.value)
    if unparse(store.slice) != iv:
        return False, f'store {unparse(store)} is not indexed by the loop variable', okcov
    alloc = defs.get(out, [])
    okalloc = len(alloc) == 1 and isinstance(alloc[0], ast.Call) and dotted(alloc[0].func) in ('np.empty', 'np.zeros') and alloc[0].args \
        and res(alloc[0].args[0]) in (f'len({b})', f'{b}.size', f'{b}.shape[0]')
    rets = [n for n in walk_no_nested(sp) if isinstance(n, ast.Return)]
    main = [r for r in rets if unparse(r.value) == out]
    early = [r for r in rets if r not in main]
    okret = len(main) == 1
    for r in early:
        g = getattr(r, '_parent', None)
        t = unparse(g.test).replace(' ', '') if isinstance(g, ast.If) else ''
        tests = {f'len({b})==0', f'{b}.size==0', f'notlen({b})'} | {f'{k}==0' for k, v in defs.items() if len(v) == 1 and unparse(v[0]) in (f'len({b})', f'{b}.size')}
        emp = isinstance(r.value, ast.Call) and dotted(r.value.func) in ('np.empty', 'np.zeros') and r.value.args and unparse(r.value.args[0]) in ('0', '(0,)')
        if not (t in tests and emp):
            okret = False
    # the assigned value
    assign = store._parent if isinstance(getattr(store, '_parent', None), ast.Assign) else None
    if assign is None:
        return False, 'result element is not a plain assignment', okcov
    v = assign.value
    okval = False
    why = f'res[{iv}] = {unparse(v)[:60]}'
    if isinstance(v, ast.Call) and dotted(v.func) == 'np.searchsorted' and len(v.args) >= 2 and unparse(v.args[0]) == a and unparse(v.args[1]) == f'{b}[{iv}]':
        side = [k for k in v.keywords if k.arg == 'side']
        okval = not side or (isinstance(side[0].value, ast.Constant) and side[0].value.value == 'left')
        okval = okval and all(k.arg in ('side',) for k in v.keywords) and len(v.args) == 2
    elif isinstance(v, ast.Name):
        okval, why2 = _lower_bound(lp, v.id, a, f'{b}[{iv}]', defs)
        why += '; ' + why2
    return okalloc and okret and okval, ('' if okalloc else 'result not allocated with len(b) entries; ') + ('' if okret else 'returns changed; ') + ('' if okval else why), okcov


def _lower_bound(lp, lo, a, key_txt, fdefs):
    """Textbook leftmost bisection inside the loop body:
         lo = 0; hi = len(a); while lo < hi: mid = lo + (hi - lo) // 2 | (lo + hi) // 2 | >> 1; if a[mid] < key: lo = mid + 1 else: hi = mid"""
    body = lp.body
    ldefs = {}
    for n in body:
        if isinstance(n, ast.Assign) and len(n.targets) == 1 and isinstance(n.targets[0], ast.Name):
            ldefs.setdefault(n.targets[0].id, []).append(n.value)
    wl = [n for n in body if isinstance(n, ast.While)]
    if len(wl) != 1:
        return False, 'no single search loop'
    W = wl[0]
    t = W.test
    if not (isinstance(t, ast.Compare) and len(t.ops) == 1 and isinstance(t.ops[0], ast.Lt) and unparse(t.left) == lo and isinstance(t.comparators[0], ast.Name)):
        return False, f'search loop test {unparse(t)}'
    hi = t.comparators[0].id
    init_lo = [unparse(v) for v in ldefs.get(lo, [])]
    init_hi = [unparse(v) for v in ldefs.get(hi, [])]
    if init_lo != ['0'] or init_hi not in ([f'len({a})'], [f'{a}.size'], [f'{a}.shape[0]']):
        hn = init_hi[0] if init_hi else None
        if not (init_lo == ['0'] and hn and len(fdefs.get(hn, [])) == 1 and unparse(fdefs[hn][0]) in (f'len({a})', f'{a}.size')):
            return False, f'search starts with {lo} = {init_lo}, {hi} = {init_hi}'
    wb = W.body
    mids = (f'{lo}+(({hi}-{lo})>>1)', f'{lo}+({hi}-{lo})//2', f'({lo}+{hi})//2', f'{lo}+{hi}>>1', f'({lo}+{hi})>>1', f'{lo}+({hi}-{lo}>>1)')
    if len(wb) == 2 and isinstance(wb[0], ast.Assign) and isinstance(wb[0].targets[0], ast.Name) and isinstance(wb[1], ast.If):
        mid = wb[0].targets[0].id
        if unparse(wb[0].value).replace(' ', '') not in mids:
            return False, f'midpoint {unparse(wb[0].value)}'
        iff = wb[1]
    elif len(wb) == 1 and isinstance(wb[0], ast.If) and isinstance(wb[0].test, ast.Compare) and isinstance(wb[0].test.left, ast.Subscript):
        # the midpoint written out in place (no local)
        iff = wb[0]
        mid = unparse(iff.test.left.slice).replace(' ', '')
        if mid not in mids:
            return False, f'midpoint {mid}'
    else:
        return False, 'search loop body is not [mid = ...;] if a[mid] < key: lo = mid + 1 else: hi = mid'
    key = key_txt
    tt = unparse(iff.test).replace(' ', '')
    keys = {key.replace(' ', '')} | {k for k, v in ldefs.items() if len(v) == 1 and unparse(v[0]) == key}
    ok_test = any(tt == f'{a}[{mid}]<{k}' for k in keys)
    ok_body = len(iff.body) == 1 and unparse(iff.body[0]).replace(' ', '') in (f'{lo}={mid}+1', f'{lo}=1+{mid}') and \
        len(iff.orelse) == 1 and unparse(iff.orelse[0]).replace(' ', '') == f'{hi}={mid}'
    if not (ok_test and ok_body):
        return False, f'bisection step: if {unparse(iff.test)}: {[unparse(x) for x in iff.body]} else: {[unparse(x) for x in iff.orelse]}'
    return True, 'lower-bound bisection'
