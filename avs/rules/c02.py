"""C02 -- a halo column's values do not depend on what else was requested."""
import ast
import itertools

from ..core.loaders import LoaderTable, dtype_tables, CAT, SETUP, Opq, Sqrt
from ..core.poly import Poly
from ..core.strexec import KeyCollector
from ..core.srcmodel import unparse, AnalysisError, dotted, walk_no_nested, names_in, stores_in, norm

FILES = [CAT]
CLS = 'CompaSOHaloCatalog.'


def run(chk):
    src = chk.src
    chk.explanation = ('Request independence is decided through its mechanisms: (R1) every column name of the literal dtype tables '
                       'full-matches exactly one literal loader regex; (R2) the loader dependency graph, obtained by partially '
                       'evaluating each loader body over its match groups, only names valid columns, is acyclic, and multi-column '
                       'loaders always return the requested key; (R3) every temporary/result column allocated in _read_halo_info is '
                       'typed by its own name; (R4) no stale loop variable is read after its loop; (R5) for every configuration '
                       '(cleaned x loaded subsamples) the index columns the subsample code reads are force-added by _setup_fields; '
                       '(R6) loaders read only (m, raw, halos) and the unit constants.')
    chk.rule('C02-R1', 'each column of user_dt / clean_dt_progen / clean_dt / halo_lc_dt full-matches exactly one loader regex', 100)
    chk.rule('C02-R2', 'loader dependencies are valid columns, acyclic; dict loaders always return the requested key', 100)
    chk.rule('C02-R3', 'np.empty(..., dtype=T[k]) flowing into column k\' has k == k\' and T selected by membership of the same key', 4)
    chk.rule('C02-R4', 'no read of a for-loop variable after its loop has exited (stale binding)', 1)
    chk.rule('C02-R5', 'columns read by the subsample code under (cleaned, load_AB) are ensured by _setup_fields under the same flags', 6)
    chk.rule('C02-R6', 'loaders are pure: only m, raw, halos, unit constants, INT16SCALE, _unpack_euler16', 10)
    chk.rule('C02-R7', 'dependencies are loaded before their dependents: capture order, reversed-unique ordering, load loop, in-place stores', 4)
    chk.exhaustive = True
    tabs = dtype_tables(src)
    lt = LoaderTable(src)
    names = []
    for t in ('user_dt', 'clean_dt_progen', 'clean_dt', 'halo_lc_dt'):
        if t not in tabs:
            raise AnalysisError(f'dtype table {t} not found')
        for n, _, _ in tabs[t]:
            if n not in names:
                names.append(n)
    valid = set(names)
    for name in names:
        idx = lt.matches(name)
        chk.check(len(idx) == 1, 'C02-R1', CAT, SETUP, name, f'loader #{idx[0]} /{lt.entries[idx[0]][0][:40]}/' if idx else '',
                  f'column {name} matches {len(idx)} loader patterns {[lt.entries[i][0][:30] for i in idx]}: ' +
                  ('cannot be loaded' if not idx else '"Found more than one way to load field"'),
                  node=lt.entries[idx[0]][2] if idx else lt.fn, nontrivial=False)
        if len(idx) != 1:
            continue
        try:
            res = lt.evaluate(name)
        except AnalysisError as e:
            chk.refuted('C02-R2', CAT, SETUP, name, str(e), node=lt.entries[idx[0]][2])
            continue
        bad = sorted(k for k in res['halos'] if k not in valid)
        v = res['value']
        okret = True
        why = ''
        if isinstance(v, dict):
            ent = v.get(name)
            okret = ent is not None and ent[1] == 'always'
            why = f'multi-column loader returns {sorted(v)}; requested key {"present" if okret else "may be missing"}'
        chk.check(not bad and okret, 'C02-R2', CAT, SETUP, name,
                  f'raw={sorted(res["raw"])} halos={sorted(res["halos"])} {why}',
                  f'dependencies {bad} are not columns / {why}', node=lt.entries[idx[0]][2], nf=sorted(res['raw']))
    # R6 per loader
    allowed = set(lt.units) | {'INT16SCALE', '_unpack_euler16', 'np'}
    for i, (pat, node, asg) in enumerate(lt.entries):
        mine = [n for n in names if lt.matches(n) == [i]]
        frees, imp = set(), []
        for n in mine[:6]:
            try:
                r = lt.evaluate(n)
            except AnalysisError:
                continue          # reported under C02-R2 for that column
            frees |= r['frees']
            imp += r['impure']
        # a loader that fills several columns at once is invoked under the name of ONE of them (whichever the load order reaches
        # first): the value it gives a column must not depend on which name that was
        per_key = {}
        for n in mine[:6]:
            try:
                r = lt.evaluate(n)
            except AnalysisError:
                continue
            if isinstance(r['value'], dict):
                for k_, ent in r['value'].items():
                    per_key.setdefault(k_, {})[n] = repr(ent[0])
        varying = {k_: d for k_, d in per_key.items() if len(set(d.values())) > 1}
        if per_key:
            chk.check(not varying, 'C02-R6', CAT, SETUP, f'loader #{i} /{pat[:40]}/: each column it fills has one value whatever name it was invoked under',
                      f'columns {sorted(per_key)} x invoked as {sorted(mine[:6])}',
                      '; '.join(f'{k_}: ' + ' | '.join(f'as {n_}: {v_[:90]}' for n_, v_ in sorted(d.items())) for k_, d in sorted(varying.items()))[:600] +
                      ': the column depends on which of the co-requested columns is loaded first', node=asg, nontrivial=False)
        extra = sorted(frees - allowed)
        chk.check(not extra and not imp, 'C02-R6', CAT, SETUP, f'loader #{i} /{pat[:40]}/', f'free names {sorted(frees)}',
                  f'loader reads {extra} {imp[:3]}: result can depend on request state', node=asg, nontrivial=False)
    load_order(chk)
    alloc_keys(chk)
    stale_loopvars(chk)
    ensured(chk)


# --------------------------------------------------------------------------- R3
def alloc_keys(chk):
    src = chk.src
    fn = src.func(CAT, CLS + '_read_halo_info')
    parents = {}
    for n in ast.walk(fn):
        for c in ast.iter_child_nodes(n):
            parents[c] = n

    def enclosing(node, kinds):
        out = []
        while node in parents:
            node = parents[node]
            if isinstance(node, kinds):
                out.append(node)
        return out
    found = 0
    for call in walk_no_nested(fn):
        if not (isinstance(call, ast.Call) and dotted(call.func) == 'np.empty'):
            continue
        dts = [k.value for k in call.keywords if k.arg == 'dtype']
        if not dts:
            continue
        dt = dts[0]
        if isinstance(dt, ast.Tuple):
            dt = dt.elts[0]
        if not isinstance(dt, ast.Subscript):
            continue      # passthrough: dtype=col.dtype
        found += 1
        tkey, tab = dt.slice, dt.value
        # destination key
        dest = None
        p = parents.get(call)
        if isinstance(p, ast.Assign) and isinstance(p.targets[0], ast.Subscript):
            dest = p.targets[0].slice
        elif isinstance(p, ast.Call) and isinstance(p.func, ast.Attribute) and p.func.attr == 'add_column':
            nm = [k.value for k in p.keywords if k.arg == 'name']
            dest = nm[0] if nm else None
        elif isinstance(p, ast.Call) and isinstance(p.func, ast.Attribute) and p.func.attr == 'replace_column':
            dest = p.args[0] if p.args else None
        key = f'np.empty(dtype={unparse(dts[0])}) -> column {unparse(dest) if dest is not None else "?"}'
        if dest is None:
            chk.unknown('C02-R3', CAT, CLS + '_read_halo_info', key, 'destination of the allocation not recognised', node=call)
            continue
        same = norm(tkey) == norm(dest)
        # both must be bound by the innermost enclosing loop that binds the destination name
        bound_ok = True
        if isinstance(dest, ast.Name):
            loops = [l for l in enclosing(call, (ast.For,)) if dest.id in stores_in(l.target)]
            bound_ok = bool(loops)
        # table selection by membership of the same key
        sel_ok, sel = True, ''
        if isinstance(tab, ast.Name):
            defs = [n for n in walk_no_nested(fn) if isinstance(n, ast.Assign) and isinstance(n.targets[0], ast.Name)
                    and n.targets[0].id == tab.id and isinstance(n.value, ast.IfExp)]
            inner = [d for d in defs if any(d is x for l in enclosing(call, (ast.For,)) for x in ast.walk(l))]
            for d in inner:
                t = d.value.test
                if isinstance(t, ast.Compare) and isinstance(t.ops[0], ast.In):
                    sel = unparse(t)
                    sel_ok = norm(t.left) == norm(dest)
            for iff in enclosing(call, (ast.If,)):
                t = iff.test
                if isinstance(t, ast.Compare) and isinstance(t.ops[0], ast.In) and '.names' in unparse(t.comparators[0]):
                    sel = unparse(t)
                    sel_ok = sel_ok and norm(t.left) == norm(dest)
        chk.check(same and bound_ok and sel_ok, 'C02-R3', CAT, CLS + '_read_halo_info', key,
                  f'dtype key == column key; table selected by "{sel}"',
                  f'column {unparse(dest)} is allocated with dtype of {unparse(tkey)} (table chosen by "{sel}"): its dtype/shape depends on another column',
                  node=call)
    if found == 0:
        raise AnalysisError('_read_halo_info: no typed allocations recognised')
    # every array that is constructed here and becomes a column carries an explicit dtype: numpy's default (float64)
    # is not the declared type of any halo column, and a derived column would then be computed in another precision
    # depending on whether its inputs are temporaries or requested columns
    CTORS = {'np.empty': 1, 'np.zeros': 1, 'np.ones': 1, 'np.full': 2, 'np.arange': None, 'np.linspace': None}

    def resolve(v):
        if isinstance(v, ast.Name):
            ds = [n for n in walk_no_nested(fn) if isinstance(n, ast.Assign) and len(n.targets) == 1 and isinstance(n.targets[0], ast.Name)
                  and n.targets[0].id == v.id]
            if len(ds) == 1:
                return ds[0].value
        return v
    sinks = []
    for n in walk_no_nested(fn):
        if isinstance(n, ast.Call) and isinstance(n.func, ast.Attribute) and n.func.attr == 'add_column' and n.args:
            nm = [k.value for k in n.keywords if k.arg == 'name']
            sinks.append((n, n.args[0], unparse(nm[0]) if nm else '?'))
        elif isinstance(n, ast.Call) and isinstance(n.func, ast.Attribute) and n.func.attr == 'replace_column' and len(n.args) >= 2:
            sinks.append((n, n.args[1], unparse(n.args[0])))
        elif isinstance(n, ast.Assign) and len(n.targets) == 1 and isinstance(n.targets[0], ast.Subscript) \
                and unparse(n.targets[0].value) in ('cols', 'halos', 'self.halos'):
            sinks.append((n, n.value, unparse(n.targets[0].slice)))
    for node, val, dest in sinks:
        val = resolve(val)
        if isinstance(val, ast.Call) and dotted(val.func) in CTORS:
            cn = dotted(val.func)
            npos = CTORS[cn]
            typed = any(k.arg == 'dtype' for k in val.keywords) or (npos is not None and len(val.args) > npos)
            chk.check(typed, 'C02-R3', CAT, CLS + '_read_halo_info', f'{cn}(...) -> column {dest} carries an explicit dtype', unparse(val)[:80],
                      f'column {dest} is built by {unparse(val)[:80]} without a dtype: it gets numpy\'s default float64 instead of the declared type of the column, '
                      'so values derived from it differ from those derived from the same column when it was requested', node=val)
            dts_ = [k.value for k in val.keywords if k.arg == 'dtype'] or ([val.args[npos]] if npos is not None and len(val.args) > npos else [])
            fixed = dts_ and (dotted(dts_[0]) or '').split('.')[-1] in ('float32', 'float64', 'int32', 'int64', 'uint64', 'uint32', 'int', 'float', 'double', 'single', 'float16', 'int16', 'int8', 'uint8', 'uint16')
            variable_key = not (dest.startswith(("'", '"')))
            if typed and variable_key:
                chk.check(not fixed, 'C02-R3', CAT, CLS + '_read_halo_info', f'{cn}(...) -> column {dest}: dtype depends on the column', unparse(dts_[0])[:60] if dts_ else '',
                          f'columns named by the variable {dest} are all built with the fixed type {unparse(dts_[0]) if dts_ else "?"}: not the declared type of each column', node=val)


# --------------------------------------------------------------------------- R4
def stale_loopvars(chk):
    src = chk.src
    n_loops = 0
    for q in ('_read_halo_info', '_setup_fields', '_load_subsamples', '_compute_new_subsample_indices',
              '_update_subsample_index_cols', '_get_halo_fields_dependencies', '_load_halo_field'):
        fn = src.func(CAT, CLS + q)
        bad = []

        def visit_block(stmts, outer_after):
            nonlocal n_loops
            for i, s in enumerate(stmts):
                after = stmts[i + 1:] + outer_after
                if isinstance(s, ast.For):
                    n_loops += 1
                    for v in stores_in(s.target):
                        stale = first_use(after, v)
                        if stale is not None:
                            bad.append((v, s.lineno, stale.lineno))
                for fld in ('body', 'orelse', 'finalbody'):
                    sub = getattr(s, fld, None)
                    if isinstance(sub, list) and sub and isinstance(sub[0], ast.stmt):
                        # code after a nested block continues with `after`; inside a loop body the
                        # following iterations re-bind loop targets, so only pass what follows textually
                        visit_block(sub, [] if isinstance(s, (ast.For, ast.While)) else after)
        visit_block(fn.body, [])
        chk.check(not bad, 'C02-R4', CAT, CLS + q, 'no stale loop variable read',
                  '', '; '.join(f'loop variable "{v}" of the loop at line {l} is read at line {u} after the loop ended' for v, l, u in bad),
                  node=fn, line=bad[0][2] if bad else fn.lineno)
    if n_loops == 0:
        raise AnalysisError('no loops found for the loop-variable rule')


def first_use(stmts, v):
    """First Load of name v in stmts that is not preceded by a Store to v (textual order)."""
    for s in stmts:
        for n in _ordered(s):
            if isinstance(n, ast.Name) and n.id == v:
                if isinstance(n.ctx, ast.Store):
                    return None
                if isinstance(n.ctx, ast.Load):
                    return n
    return None


def _scoped_walk(node, hidden=frozenset()):
    """ast.walk that respects comprehension scopes: a name bound by a comprehension's `for` is a variable of that comprehension,
    not of the function (only the first iterable is evaluated outside)."""
    if isinstance(node, ast.Name) and node.id in hidden:
        return
    yield node
    if isinstance(node, (ast.ListComp, ast.SetComp, ast.GeneratorExp, ast.DictComp)):
        bound = set()
        for g in node.generators:
            bound |= {n.id for n in ast.walk(g.target) if isinstance(n, ast.Name)}
        inner = frozenset(hidden | bound)
        yield from _scoped_walk(node.generators[0].iter, hidden)
        for i, g in enumerate(node.generators):
            if i:
                yield from _scoped_walk(g.iter, inner)
            for c in g.ifs:
                yield from _scoped_walk(c, inner)
        for part in ([node.key, node.value] if isinstance(node, ast.DictComp) else [node.elt]):
            yield from _scoped_walk(part, inner)
        return
    for ch in ast.iter_child_nodes(node):
        yield from _scoped_walk(ch, hidden)


def _ordered(s):
    """Nodes of a statement in evaluation-ish order: for assignments value before targets."""
    if isinstance(s, ast.Assign):
        yield from _scoped_walk(s.value)
        for t in s.targets:
            yield from _scoped_walk(t)
        return
    if isinstance(s, ast.For):
        yield from _scoped_walk(s.iter)
        yield from _scoped_walk(s.target)
        for b in s.body + s.orelse:
            yield from _ordered(b)
        return
    if isinstance(s, (ast.If, ast.While)):
        yield from _scoped_walk(s.test)
        for b in s.body + s.orelse:
            yield from _ordered(b)
        return
    if isinstance(s, (ast.FunctionDef, ast.ClassDef, ast.Lambda)):
        return
    yield from _scoped_walk(s)


# --------------------------------------------------------------------------- R5
def ensured(chk):
    src = chk.src
    setup = src.func(CAT, CLS + '_setup_fields')
    users = [CLS + '_compute_new_subsample_indices', CLS + '_load_subsamples', CLS + '_update_subsample_index_cols']
    count = 0
    for cleaned in (True, False):
        for load_AB in (['A'], ['B'], ['A', 'B']):
            env = dict(cleaned=cleaned, load_AB=load_AB, passthrough=False, halo_lc=False)
            kc = KeyCollector('self.halos').run(setup, env)
            ens = set()
            for lst, k, guards, node in kc.list_adds:
                if lst not in ('fields', 'cleaned_fields'):
                    continue
                ok = True
                for t, taken, lv in guards:
                    # accept only the "ensure" idiom: if K not in <list>: <list> += [K]
                    if not (taken and isinstance(t, ast.Compare) and isinstance(t.ops[0], ast.NotIn) and lv == k):
                        ok = False
                if ok:
                    ens.add(k)
            need = {}
            for u in users:
                fn = src.func(CAT, u)
                k2 = KeyCollector('self.halos').run(fn, dict(cleaned=cleaned, load_AB=load_AB, AB=None))
                added = set()
                for k, node in k2.reads + k2.removes:
                    need.setdefault(k, (u, node))
                if k2.unknown_keys:
                    chk.unknown('C02-R5', CAT, u, f'cleaned={cleaned},load_AB={"".join(load_AB)}',
                                f'column key not foldable: {k2.unknown_keys[0][0]}', node=k2.unknown_keys[0][1])
            # columns produced by the subsample code itself (new npstart/npout) are not requirements
            missing = {k: v for k, v in need.items() if k not in ens}
            key = f'cleaned={cleaned},load_AB={"".join(load_AB)}'
            count += 1
            if missing:
                k0 = sorted(missing)[0]
                u, node = missing[k0]
                chk.refuted('C02-R5', CAT, CLS + '_setup_fields', key,
                            f'{u.split(".")[-1]} reads halo columns {sorted(missing)} that _setup_fields does not force-add in this configuration '
                            f'(ensured: {sorted(ens)}): a request without them fails with KeyError', node=node,
                            witness=dict(cleaned=cleaned, load_subsamples=''.join(load_AB), fields=['id']))
            else:
                chk.proven('C02-R5', CAT, CLS + '_setup_fields', key, f'required {sorted(need)} subset of ensured {sorted(ens)}')
    if count == 0:
        raise AnalysisError('no configuration evaluated')
    _passthrough_fields(chk, setup, users)
    # the list of cleaning files is empty when cleaned=False: its first element may only be taken under a test that implies it exists
    rh = src.func(CAT, CLS + '_read_halo_info')
    bad = []
    nsub = 0
    for n in walk_no_nested(rh):
        if isinstance(n, ast.Subscript) and unparse(n.value) == 'cleaned_afs' and not isinstance(n.slice, ast.Slice):
            nsub += 1
            q, guarded, child = getattr(n, '_parent', None), False, n
            while q is not None and q is not rh:
                if isinstance(q, ast.IfExp) and child is q.body and any(isinstance(x, ast.Name) and x.id in ('cleaned', 'cleaned_afs') for x in ast.walk(q.test)):
                    guarded = True
                if isinstance(q, ast.If) and child in q.body and any(isinstance(x, ast.Name) and x.id in ('cleaned', 'cleaned_afs', 'cleaned_fields') for x in ast.walk(q.test)) \
                        and not (isinstance(q.test, ast.UnaryOp) and isinstance(q.test.op, ast.Not)):
                    guarded = True
                if isinstance(q, ast.For) and child in q.body and unparse(q.iter) in ('cleaned_fields',):
                    guarded = True      # only entered when a cleaning column was selected, i.e. cleaned
                child, q = q, getattr(q, '_parent', None)
            if not guarded:
                bad.append(n)
    # the per-file cleaning handle (`caf = cleaned_afs[i] if cleaned_afs else None`) is None for an uncleaned catalog AND for a halo light
    # cone, whose own file carries columns with cleaning names (haloindex, N_mainprog, ...): wherever the handle is selected as the source of
    # a column, the selection tests the handle itself, not only the column's name
    nullable = {unparse(a_.targets[0]) for a_ in walk_no_nested(rh) if isinstance(a_, ast.Assign) and len(a_.targets) == 1 and isinstance(a_.targets[0], ast.Name)
                and isinstance(a_.value, ast.IfExp) and isinstance(a_.value.orelse, ast.Constant) and a_.value.orelse.value is None}
    badsel = []
    scope_ = []
    for a_ in walk_no_nested(rh):
        if isinstance(a_, ast.Assign) and len(a_.targets) == 1 and unparse(a_.targets[0]) in nullable and isinstance(a_.value, ast.IfExp):
            par_ = getattr(a_, '_parent', None)
            if par_ is not None:
                scope_.append(par_)          # the block (loop body) in which the name denotes the nullable handle
    for n in [x for sc_ in scope_ for x in walk_no_nested(sc_)]:
        if isinstance(n, ast.IfExp) and isinstance(n.body, ast.Name) and n.body.id in nullable:
            h = n.body.id
            if not any(unparse(c_).replace(' ', '') in (f'{h}isnotNone', h) for c_ in ast.walk(n.test)):
                badsel.append(n)
        if isinstance(n, ast.Subscript) and isinstance(n.value, ast.Name) and n.value.id in nullable and isinstance(n.ctx, ast.Load):
            q, guarded, child = getattr(n, '_parent', None), False, n
            while q is not None and q is not rh:
                if isinstance(q, (ast.If, ast.IfExp)) and any(unparse(c_).replace(' ', '') in (f'{n.value.id}isnotNone', n.value.id) for c_ in ast.walk(q.test)):
                    guarded = True
                child, q = q, getattr(q, '_parent', None)
            if not guarded:
                badsel.append(n)
    chk.check(not badsel, 'C02-R5', CAT, CLS + '_read_halo_info', 'the cleaning-file handle is used as a column source only where it is not None', f'handles {sorted(nullable)}',
              f'{unparse(badsel[0])[:70] if badsel else ""}: the handle is None without a cleaning file (cleaned=False, halo light cone) but is chosen by the column NAME alone; '
              'a light-cone halo file has columns with cleaning names (haloindex, N_mainprog, ...), so the default / "all" passthrough request raises TypeError while other requests load',
              node=badsel[0] if badsel else rh, nontrivial=False)
    chk.check(not bad, 'C02-R5', CAT, CLS + '_read_halo_info', 'cleaned_afs[k] is taken only where a cleaning file exists (cleaned=True)', f'{nsub} subscript(s)',
              f'{unparse(bad[0])[:40] if bad else ""} at line {src.orig_line_of(CAT, bad[0]) if bad else 0} is evaluated also when cleaned=False, where the list of cleaning files is empty: IndexError '
              '(passthrough with cleaned=False cannot load)', node=bad[0] if bad else rh, nontrivial=False)


def _passthrough_fields(chk, setup, users):
    """The passthrough branch of _setup_fields, evaluated (constant propagation, nothing is run) on a synthetic pair of raw
    tables for every (cleaned, loaded subsamples, request): it must not fail, must keep every requested column that a table
    has -- halo_info and cleaning columns alike -- and must hand the subsample code the index columns it reads."""
    from ..core.pe import PE, Raised, Undecided, UNKNOWN
    src = chk.src
    argn = [a.arg for a in setup.args.args]
    for cleaned in (True, False):
        for load_AB in ([], ['A'], ['A', 'B']):
            need = set()
            for u in users:
                k2 = KeyCollector('self.halos').run(src.func(CAT, u), dict(cleaned=cleaned, load_AB=load_AB, AB=None))
                need |= {k for k, _ in k2.reads + k2.removes}
            if not load_AB:
                need = set()
            halo_cols = ['id', 'N', 'x_L2com'] + [f'{a}{ab}' for ab in 'AB' for a in ('npstart', 'npout')]
            clean_cols = ['N_total', 'haloindex'] + [f'{a}{ab}_merge' for ab in 'AB' for a in ('npstart', 'npout')]
            halo = {'data': {k: 0 for k in halo_cols}}
            clean = {'data': {k: 0 for k in clean_cols}}
            tabs_ = dtype_tables(src)
            clean_default = [n for n, _, _ in tabs_.get('clean_dt', [])]
            for req in ('all', ['id', 'haloindex'], 'id', 'DEFAULT_FIELDS'):
                env = dict(fields=(list(req) if isinstance(req, list) else req), cleaned=cleaned, load_AB=list(load_AB), halo_lc=False, passthrough=True,
                           halo_info_af=halo, cleaned_halo_info_af=(clean if cleaned else None))
                env = {k: v for k, v in env.items() if k in argn}
                key = f'passthrough, cleaned={cleaned}, load_AB={"".join(load_AB) or "-"}, fields={req!r}'
                pe = PE({}, text_env={'self.data_key': 'data', 'clean_dt.names': tuple(clean_default), 'user_dt.names': tuple(n for n, _, _ in tabs_.get('user_dt', [])),
                                      'clean_dt_progen.names': tuple(n for n, _, _ in tabs_.get('clean_dt_progen', []))})
                try:
                    got = pe.run(setup.body, env)
                except Raised as r:
                    chk.refuted('C02-R5', CAT, CLS + '_setup_fields', key,
                                f'the field selection raises ({r.kind}) in this configuration' +
                                (': there is no cleaning file when cleaned=False (the caller passes None), yet it is subscripted' if not cleaned else ''),
                                node=setup, witness=dict(passthrough=True, cleaned=cleaned, load_subsamples=''.join(load_AB), fields=req))
                    continue
                except Undecided as u:
                    chk.unknown('C02-R5', CAT, CLS + '_setup_fields', key, f'not decided: {u}', node=setup)
                    continue
                if not (isinstance(got, tuple) and len(got) == 2 and all(isinstance(x, list) for x in got)):
                    chk.unknown('C02-R5', CAT, CLS + '_setup_fields', key, f'result not a pair of lists: {got!r}'[:100], node=setup)
                    continue
                f_, c_ = got
                if req == 'all':
                    want_req = set(halo_cols) | (set(clean_cols) if cleaned else set())
                elif req == 'DEFAULT_FIELDS':
                    # the default set of the unpacked catalog: every halo_info column, and the cleaning columns of clean_dt
                    want_req = set(halo_cols) | ({c for c in clean_cols if c in clean_default} if cleaned else set())
                else:
                    want_req = set([req] if isinstance(req, str) else req)
                lost = sorted((want_req & set(halo_cols)) - set(f_)) + sorted((want_req & set(clean_cols)) - set(c_) if cleaned else [])
                avail = set(halo_cols) | (set(clean_cols) if cleaned else set())
                missing = sorted((need & avail) - set(f_) - set(c_))
                chk.check(not lost and not missing, 'C02-R5', CAT, CLS + '_setup_fields', key, f'fields={f_[:4]}.. cleaned_fields={c_[:4]}..',
                          (f'the default set is not recognised in passthrough mode (\'DEFAULT_FIELDS\' is taken for a column name): {lost[:6]}.. are not selected; ' if lost and req == 'DEFAULT_FIELDS' else
                           f'requested columns {lost} present in the files are not selected (the request list is overwritten before the cleaning columns are matched against it); ' if lost else '') +
                          (f'the subsample code reads {missing}, which the selection does not add: KeyError' if missing else ''), node=setup,
                          witness=dict(passthrough=True, cleaned=cleaned, load_subsamples=''.join(load_AB), fields=req), nontrivial=False)


def KeyCollectorVal(kc, node):
    return kc.val(node)


# --------------------------------------------------------------------------- R7
def load_order(chk):
    """A derived column (sigmavMid) reads halos[...] columns that must already be filled for this file."""
    src = chk.src
    q = CLS + '_get_halo_fields_dependencies'
    fn = src.func(CAT, q)
    t = [unparse(s) for s in walk_no_nested(fn) if isinstance(s, ast.stmt)]
    # every captured halos[...] key is queued behind the requesting field: one by one (`iter_fields += [k]` / `.append(k)` in a loop
    # over capturer.keys with nothing skipped) or in bulk (`iter_fields += capturer.keys` / `.extend(capturer.keys)`)
    bulk = any(x in t for x in ('iter_fields += capturer.keys', 'iter_fields.extend(capturer.keys)', 'iter_fields += list(capturer.keys)'))
    single = False
    for lp_ in [n for n in walk_no_nested(fn) if isinstance(n, ast.For) and unparse(n.iter) == 'capturer.keys' and isinstance(n.target, ast.Name)]:
        kv = lp_.target.id
        single = any(unparse(b) in (f'iter_fields += [{kv}]', f'iter_fields.append({kv})') for b in lp_.body) and \
            not any(isinstance(x, (ast.Continue, ast.Break)) for x in walk_no_nested(lp_))
    ok_cap = (single or bulk) and 'iter_fields = list(fields)' in t and 'for field in iter_fields:' in unparse(fn)
    ok_ord = 'fields_with_deps = list(dict.fromkeys(iter_fields[::-1]))' in t and 'field_deps = list(dict.fromkeys(field_dependencies[::-1]))' in t
    chk.check(ok_cap, 'C02-R7', CAT, q, 'dependencies are appended to the work list after the field that needs them', '',
              'dependency capture no longer appends the halos[...] keys of a loader behind the requesting field', node=fn)
    chk.check(ok_ord, 'C02-R7', CAT, q, 'load order = unique(reversed work list): dependencies first, last occurrence wins', '',
              'the load order is no longer the reversed work list made unique: a derived column could be computed before the columns it reads', node=fn)
    rets = [n for n in walk_no_nested(fn) if isinstance(n, ast.Return)]
    okret = len(rets) == 1 and unparse(rets[0].value) == '(raw_dependencies, fields_with_deps, field_deps)'
    rh = src.func(CAT, CLS + '_read_halo_info')
    tt = [unparse(s) for s in walk_no_nested(rh) if isinstance(s, ast.stmt)]
    okuse = '(raw_dependencies, fields_with_deps, extra_fields) = self._get_halo_fields_dependencies(all_fields)' in tt or \
        'raw_dependencies, fields_with_deps, extra_fields = self._get_halo_fields_dependencies(all_fields)' in tt
    lp = [n for n in walk_no_nested(rh) if isinstance(n, ast.For) and unparse(n.iter) == 'fields_with_deps']
    okloop = len(lp) == 1 and [unparse(b) for b in lp[0].body] == ['if field in loaded_fields:\n    continue', 'loaded_fields += self._load_halo_field(halos, rawhalos, field)']
    ex = [n for n in walk_no_nested(rh) if isinstance(n, ast.For) and unparse(n.iter) == 'extra_fields']
    okex = len(ex) == 1 and bool(lp) and ex[0].lineno < lp[0].lineno
    chk.check(okret and okuse and okloop and okex, 'C02-R7', CAT, CLS + '_read_halo_info', 'fields loaded once each in dependency order; temporary columns exist before loading', '',
              f'returns ok={okret}; used ok={okuse}; load loop ok={okloop}; temporaries created first={okex}', node=rh)
    lf = src.func(CAT, CLS + '_load_halo_field')
    okst, why_st = _store_cases(lf)
    chk.check(okst, 'C02-R7', CAT, CLS + '_load_halo_field', 'loader result stored in place into the column of its own name', '',
              'the loaded values are no longer written in place into halos[field] (or every key of a multi-column result): ' + why_st, node=lf)


def _store_cases(lf):
    """Case analysis of what _load_halo_field does with the loader's result: for a single array it must store it in
    place into halos[field] and report [field]; for a dict it must store every entry in place under its own key and
    report the keys.  The statements after the loader call are interpreted for both cases (isinstance decided per case)."""
    call = None
    for n in walk_no_nested(lf):
        if isinstance(n, ast.Assign) and isinstance(n.value, ast.Call) and isinstance(n.value.func, ast.Subscript) \
                and 'halo_field_loaders' in unparse(n.value.func.value) and len(n.targets) == 1 and isinstance(n.targets[0], ast.Name):
            call = n
        # the loader may also be the value of `for pat, loader in self.halo_field_loaders.items()`
        if isinstance(n, ast.Assign) and isinstance(n.value, ast.Call) and isinstance(n.value.func, ast.Name) and len(n.targets) == 1 \
                and isinstance(n.targets[0], ast.Name) and len(n.value.args) == 3:
            p_ = getattr(n, '_parent', None)
            while p_ is not None and not isinstance(p_, ast.For):
                p_ = getattr(p_, '_parent', None)
            if isinstance(p_, ast.For) and 'halo_field_loaders.items()' in unparse(p_.iter) and isinstance(p_.target, ast.Tuple) \
                    and len(p_.target.elts) == 2 and unparse(p_.target.elts[1]) == n.value.func.id:
                call = n
    if call is None:
        # any other spelling of "the loader for this field" (a helper that yields (match, loader), a local alias ...): the call with the
        # loader signature (match, rawhalos, halos); where the callee comes from is decided by C05-R8
        cands = [n for n in walk_no_nested(lf) if isinstance(n, ast.Assign) and isinstance(n.value, ast.Call) and len(n.value.args) == 3 and not n.value.keywords
                 and [unparse(a_) for a_ in n.value.args[1:]] == ['rawhalos', 'halos'] and len(n.targets) == 1 and isinstance(n.targets[0], ast.Name)]
        if len(cands) == 1:
            call = cands[0]
    if call is None:
        return False, 'loader call not found'
    blk = getattr(call, '_parent', None)
    body = None
    for f in ('body', 'orelse'):
        b = getattr(blk, f, None)
        if isinstance(b, list) and call in b:
            body = b[b.index(call) + 1:]
    if body is None:
        return False, 'loader call not in a statement block'
    res_name = call.targets[0].id
    argn = [a.arg for a in lf.args.args]
    tab, fld = argn[1], argn[3] if len(argn) > 3 else 'field'
    for a in argn:
        if a == 'field':
            fld = a
    out = {}
    for case in ('array', 'dict'):
        env = {res_name: ('obj', res_name) if case == 'array' else ('symdict', res_name), fld: ('obj', fld)}
        stores, loaded, bad = [], [], []

        def ev(e):
            if isinstance(e, ast.Name):
                return env.get(e.id, ('obj', e.id))
            if isinstance(e, ast.IfExp):
                c = ev(e.test)
                if c in (True, False):
                    return ev(e.body if c else e.orelse)
                return ('obj', unparse(e))
            if isinstance(e, ast.Call) and isinstance(e.func, ast.Name) and e.func.id == 'isinstance' and len(e.args) == 2 and unparse(e.args[1]) == 'dict':
                v = ev(e.args[0])
                return v[0] in ('symdict', 'dict')
            if isinstance(e, ast.UnaryOp) and isinstance(e.op, ast.Not):
                c = ev(e.operand)
                return (not c) if c in (True, False) else ('obj', unparse(e))
            if isinstance(e, ast.Dict):
                return ('dict', [(ev(k), ev(v)) for k, v in zip(e.keys, e.values)])
            if isinstance(e, ast.Call) and isinstance(e.func, ast.Name) and e.func.id in ('list', 'tuple', 'sorted') and len(e.args) == 1:
                v = ev(e.args[0])
                return ('keys', v) if v[0] in ('symdict', 'dict') else ('obj', unparse(e))
            if isinstance(e, ast.Call) and isinstance(e.func, ast.Attribute) and e.func.attr == 'keys' and not e.args:
                v = ev(e.func.value)
                return ('keys', v) if v[0] in ('symdict', 'dict') else ('obj', unparse(e))
            if isinstance(e, ast.List):
                return ('list', [ev(x) for x in e.elts])
            if isinstance(e, ast.Subscript):
                b, k = ev(e.value), (ev(e.slice) if not isinstance(e.slice, ast.Slice) else None)
                if b[0] == 'symdict' and k is not None:
                    return ('elem', b[1], k)
                if b[0] == 'dict' and k is not None:
                    for kk, vv in b[1]:
                        if kk == k:
                            return vv
                    return ('obj', unparse(e))
                return ('obj', unparse(e))
            return ('obj', unparse(e))

        def run(stmts):
            for st in stmts:
                if isinstance(st, ast.If):
                    c = ev(st.test)
                    if c is True:
                        run(st.body)
                    elif c is False:
                        run(st.orelse)
                    else:
                        run(st.body)
                        run(st.orelse)
                elif isinstance(st, ast.For) and isinstance(st.target, ast.Name):
                    it = ev(st.iter)
                    if it[0] == 'keys':
                        it = it[1]
                    if it[0] == 'symdict':
                        env[st.target.id] = ('key', it[1])
                        run(st.body)
                    elif it[0] == 'dict':
                        for kk, _ in it[1]:
                            env[st.target.id] = kk
                            run(st.body)
                    else:
                        bad.append(unparse(st.iter))
                elif isinstance(st, ast.Assign) and len(st.targets) == 1 and isinstance(st.targets[0], ast.Name):
                    env[st.targets[0].id] = ev(st.value)
                elif isinstance(st, ast.Assign) and len(st.targets) == 1 and isinstance(st.targets[0], ast.Subscript):
                    t = st.targets[0]
                    inplace = isinstance(t.slice, ast.Slice) and isinstance(t.value, ast.Subscript) and unparse(t.value.value) == tab
                    if inplace:
                        stores.append((ev(t.value.slice), ev(st.value)))
                    elif unparse(t.value) == tab:
                        bad.append(f'{unparse(t)} rebinds the column instead of filling it')
                elif isinstance(st, ast.AugAssign) and isinstance(st.target, ast.Name) and isinstance(st.op, ast.Add):
                    loaded.append(ev(st.value))
                elif isinstance(st, ast.Expr) and isinstance(st.value, ast.Call) and isinstance(st.value.func, ast.Attribute) and st.value.func.attr in ('append', 'extend'):
                    v = ev(st.value.args[0])
                    loaded.append(('list', [v]) if st.value.func.attr == 'append' else v)
        run(body)
        out[case] = (stores, loaded, bad)
    sa, la, ba = out['array']
    sd, ld, bd = out['dict']
    ok_a = sa == [(('obj', fld), ('obj', res_name))] and la in ([('list', [('obj', fld)])], [('keys', ('dict', [(('obj', fld), ('obj', res_name))]))]) and not ba
    ok_d = sd == [(('key', res_name), ('elem', res_name, ('key', res_name)))] and ld == [('keys', ('symdict', res_name))] and not bd
    if ok_a and ok_d:
        return True, ''
    return False, f'single-array result: stores {sa}, reports {la} {ba}; dict result: stores {sd}, reports {ld} {bd}'
