"""C16 -- read_asdf returns exactly the requested particle columns."""
import ast

from ..core.srcmodel import dotted, unparse, walk_no_nested, AnalysisError, names_in, stores_in, fold_str

RA = 'abacusnbody/data/read_abacus.py'
BP = 'abacusnbody/data/bitpacked.py'
FILES = [RA, BP]
Q = 'read_asdf'


def ev_cond(node, env):
    """Evaluate a string condition with names bound to literal strings (colname='rvint', ...)."""
    if isinstance(node, ast.Compare) and len(node.ops) == 1:
        a, b = val(node.left, env), val(node.comparators[0], env)
        if a is None or b is None:
            return None
        op = node.ops[0]
        if isinstance(op, ast.Eq):
            return a == b
        if isinstance(op, ast.NotEq):
            return a != b
        if isinstance(op, ast.In):
            return a in b
        if isinstance(op, ast.NotIn):
            return a not in b
    if isinstance(node, ast.BoolOp):
        vs = [ev_cond(v, env) for v in node.values]
        if None in vs:
            return None
        return all(vs) if isinstance(node.op, ast.And) else any(vs)
    if isinstance(node, ast.UnaryOp) and isinstance(node.op, ast.Not):
        v = ev_cond(node.operand, env)
        return None if v is None else not v
    return None


def val(node, env):
    if isinstance(node, ast.Constant) and isinstance(node.value, str):
        return node.value
    if isinstance(node, ast.Name) and node.id in env:
        return env[node.id]
    if isinstance(node, (ast.Tuple, ast.List)):
        items = [val(e, env) for e in node.elts]
        return tuple(items) if None not in items else None
    return None


def run(chk):
    src = chk.src
    fn = src.func(RA, Q)
    rc = src.func(RA, '_resolve_columns')
    chk.explanation = ('The column-set and plumbing clauses of read_asdf are decided structurally: every table column is added under a '
                       'membership test of its own name in the resolved load list (PID fields through the pid_kwargs comprehension over the '
                       'fields unpack_pids accepts); the defaults of _resolve_columns are evaluated on the literal raw column names; the '
                       'auto-detection raises for zero or several known columns; each detectable raw column selects exactly one decode '
                       'branch, which decodes into the table\'s own buffers with the requested float type and defines the row count by '
                       'which the table is truncated; metadata is the file header. Value independence from co-requested columns is C04-R6 / C15-R5.')
    chk.rule('C16-R1', 'a column named c is added iff c is in the load list (key agreement between membership test and name=)', 4)
    chk.rule('C16-R2', 'defaults for load=None: rvint/pack9 -> (pos, vel); *pid* -> (pid); deprecated load_pos/load_vel mapped as documented', 5)
    chk.rule('C16-R3', 'auto-detection: exactly one known raw column else ValueError', 2)
    chk.rule('C16-R4', 'decoders write into the table-owned pos/vel buffers with float_dtype=dtype; table truncated to the decoded count; meta = header', 5)
    chk.rule('C16-R6', 'each detectable raw column satisfies exactly one decode branch, which defines the row count', 4)
    chk.assume('asdf / astropy behaviour and file contents are not modelled; light-cone header arithmetic not decided')
    # ---- R1
    adds = [n for n in walk_no_nested(fn) if isinstance(n, ast.Call) and isinstance(n.func, ast.Attribute) and n.func.attr == 'add_column'
            and unparse(n.func.value) == 'table']
    literal = 0
    for a in adds:
        nm = [k.value for k in a.keywords if k.arg == 'name']
        if not nm:
            chk.unknown('C16-R1', RA, Q, unparse(a)[:60], 'add_column without name=', node=a)
            continue
        if isinstance(nm[0], ast.Constant):
            literal += 1
            name = nm[0].value
            # guard: innermost enclosing if must be `'name' in load`
            p = getattr(a, '_parent', None)
            while p is not None and not isinstance(p, ast.If):
                p = getattr(p, '_parent', None)
            ok = isinstance(p, ast.If) and unparse(p.test) == f"'{name}' in load" and not p.orelse
            chk.check(ok, 'C16-R1', RA, Q, f"column '{name}' added iff '{name}' in load", '',
                      f"column '{name}' is added under \"{unparse(p.test) if isinstance(p, ast.If) else None}\": requested and returned column sets differ", node=a)
    # pid fields
    pk = [n for n in walk_no_nested(fn) if isinstance(n, ast.Assign) and unparse(n.targets[0]) == 'pid_kwargs' and isinstance(n.value, ast.DictComp)]
    okp = False
    fields = None
    if len(pk) == 1:
        dc = pk[0].value
        k = dc.generators[0].target.id if isinstance(dc.generators[0].target, ast.Name) else None
        fields = val(dc.generators[0].iter, {})
        okp = k is not None and unparse(dc.key) == k and unparse(dc.value) in (f'{k} in load', f'({k} in load)') and fields is not None
    up = src.func(BP, 'unpack_pids')
    accepted = {a.arg for a in up.args.args} & {'pid', 'lagr_pos', 'tagged', 'density', 'lagr_idx'}
    okp = okp and set(fields or ()) == accepted
    chk.check(okp, 'C16-R1', RA, Q, 'PID fields requested from unpack_pids iff in load', f'{fields}',
              f'pid_kwargs = {unparse(pk[0].value) if pk else None}; unpack_pids accepts {sorted(accepted)}: a PID-derived column would be dropped or always produced', node=pk[0] if pk else fn)
    pl = [n for n in walk_no_nested(fn) if isinstance(n, ast.For) and 'cols.items()' in unparse(n.iter)]
    okl = len(pl) == 1 and any(isinstance(b, ast.Expr) and 'table.add_column(col, name=n' in unparse(b) for b in pl[0].body)
    call = [n for n in walk_no_nested(fn) if isinstance(n, ast.Call) and dotted(n.func) == 'unpack_pids']
    okl = okl and len(call) == 1 and any(k.arg is None and unparse(k.value) == 'pid_kwargs' for k in call[0].keywords)
    chk.check(okl, 'C16-R1', RA, Q, 'every array unpack_pids returns becomes a column of the same name', '', 'returned PID arrays are not all added under their own names', node=pl[0] if pl else fn)
    if literal < 3:
        raise AnalysisError('read_asdf: pos/vel/aux column additions not recognised')
    # ---- R2 defaults (evaluate the `if load is None:` block on literal colnames)
    blocks = [n for n in rc.body if isinstance(n, ast.If) and unparse(n.test) == 'load is None']
    if len(blocks) != 1:
        raise AnalysisError('_resolve_columns: default block not found')
    want = {'rvint': ['pos', 'vel'], 'pack9': ['pos', 'vel'], 'packedpid': ['pid'], 'pid': ['pid']}
    for cn, exp in want.items():
        got = []
        okv = True
        for s in blocks[0].body:
            if isinstance(s, ast.Assign) and unparse(s.targets[0]) == 'load':
                got = list(val(s.value, {}) or [])
            elif isinstance(s, ast.If):
                c = ev_cond(s.test, {'colname': cn})
                if c is None:
                    okv = False
                elif c:
                    for b in s.body:
                        if isinstance(b, ast.AugAssign) and unparse(b.target) == 'load':
                            got += list(val(b.value, {}) or ['?'])
        chk.check(okv and got == exp, 'C16-R2', RA, '_resolve_columns', f'default columns for raw column {cn!r}', f'{got}',
                  f'default load list for a {cn!r} file is {got}; documented default is {exp}', node=blocks[0], nf=got)
    ret = [n for n in rc.body if isinstance(n, ast.Return)]
    chk.check(len(ret) == 1 and unparse(ret[0].value) == 'tuple(load)', 'C16-R2', RA, '_resolve_columns', 'returns the resolved list', '',
              f'_resolve_columns returns {unparse(ret[0].value) if ret else None}', node=rc, nontrivial=False)
    # deprecated flags
    dep = [n for n in walk_no_nested(rc) if isinstance(n, ast.If) and 'load_pos' in unparse(n.test) and isinstance(n.body[0], ast.AugAssign)]
    txt = {unparse(n.test): unparse(n.body[0]) for n in dep}
    okd = txt.get('load_pos or (load_pos is None and load_vel is False)') == "load += ['pos']" and \
        txt.get('load_vel or (load_vel is None and load_pos is False)') == "load += ['vel']"
    chk.check(okd, 'C16-R2', RA, '_resolve_columns', 'deprecated load_pos / load_vel flags', '', f'deprecated flag mapping changed: {txt}', node=rc, nontrivial=False)
    # ---- R3 detection
    det = [n for n in walk_no_nested(fn) if isinstance(n, ast.If) and unparse(n.test) == 'colname is None' and any(isinstance(b, ast.For) for b in n.body)]
    if len(det) != 1:
        raise AnalysisError('read_asdf: detection block not found')
    Dt = det[0]
    names = None
    for s in Dt.body:
        if isinstance(s, ast.Assign) and isinstance(s.value, ast.List):
            names = val(s.value, {})
            lname = unparse(s.targets[0])
    loop = [s for s in Dt.body if isinstance(s, ast.For)][0]
    cnv = loop.target.id
    okdet = names is not None and unparse(loop.iter) == lname
    inner = [b for b in loop.body if isinstance(b, ast.If)]
    okdup = False
    if len(inner) == 1 and unparse(inner[0].test) == f'{cnv} in af.tree[data_key]':
        b = inner[0].body
        okdup = len(b) == 2 and isinstance(b[0], ast.If) and unparse(b[0].test) == 'colname is not None' and isinstance(b[0].body[0], ast.Raise) \
            and unparse(b[1]) == f'colname = {cnv}'
    chk.check(okdet and okdup, 'C16-R3', RA, Q, 'a second known raw column raises; otherwise colname is the one found', f'{names}',
              'detection loop no longer raises for several known raw columns / binds colname to the found key', node=loop)
    after = Dt.body[Dt.body.index(loop) + 1:]
    oknone = any(isinstance(s, ast.If) and unparse(s.test) == 'colname is None' and isinstance(s.body[0], ast.Raise) for s in after)
    chk.check(oknone, 'C16-R3', RA, Q, 'no known raw column raises', '', 'a file without any known raw column no longer raises', node=Dt)
    # ---- R6 branch exhaustiveness
    chain = None
    for n in walk_no_nested(fn):
        if isinstance(n, ast.If) and isinstance(n.test, ast.Compare) and unparse(n.test.left) == 'colname' and isinstance(n.test.ops[0], ast.Eq):
            chain = n
            break
    if chain is None:
        raise AnalysisError('read_asdf: decode branch chain not found')
    branches = []
    c = chain
    while True:
        branches.append((c.test, c.body))
        if len(c.orelse) == 1 and isinstance(c.orelse[0], ast.If):
            c = c.orelse[0]
        else:
            if c.orelse:
                branches.append((None, c.orelse))
            break
    for cn in (names or ()):
        hits = []
        for i, (t, body) in enumerate(branches):
            r = True if t is None else ev_cond(t, {'colname': cn})
            if r:
                hits.append(i)
                break           # if/elif: first true branch wins
        okb = len(hits) == 1
        nread_def = okb and any(isinstance(s, ast.Assign) and unparse(s.targets[0]) == 'nread' for s in branches[hits[0]][1])
        decoder = ''
        if okb:
            calls = [dotted(x.func) for s in branches[hits[0]][1] for x in ast.walk(s) if isinstance(x, ast.Call) and dotted(x.func).startswith('unpack_')]
            decoder = calls[0] if calls else ''
        wantdec = {'rvint': 'unpack_rvint', 'pack9': 'unpack_pack9', 'packedpid': 'unpack_pids', 'pid': 'unpack_pids'}.get(cn)
        chk.check(okb and nread_def and decoder == wantdec, 'C16-R6', RA, Q, f'raw column {cn!r} -> {decoder}', '',
                  f'raw column {cn!r}: matching branches {hits}, decoder {decoder!r} (expected {wantdec}), row count defined={nread_def}', node=chain)
    # ---- R4
    for dec in ('unpack_rvint', 'unpack_pack9'):
        cs = [n for n in walk_no_nested(fn) if isinstance(n, ast.Call) and dotted(n.func) == dec]
        ok = len(cs) == 1
        if ok:
            kw = {k.arg: unparse(k.value) for k in cs[0].keywords}
            blk = cs[0]
            while not isinstance(blk, ast.If):
                blk = blk._parent
            defs = {unparse(s.targets[0]): unparse(s.value) for s in blk.body if isinstance(s, ast.Assign) and isinstance(s.targets[0], ast.Name)}
            ok = kw.get('float_dtype') == 'dtype' and kw.get('posout') == '_posout' and kw.get('velout') == '_velout' and \
                defs.get('_posout') == "table['pos'] if 'pos' in load else False" and defs.get('_velout') == "table['vel'] if 'vel' in load else False" and \
                unparse(cs[0].args[0]) == 'data' and unparse(cs[0].args[1]) == "header['BoxSize']" and defs.get('nread') == 'max(npos, nvel)'
            if dec == 'unpack_pack9':
                ok = ok and unparse(cs[0].args[2]) == "header['VelZSpace_to_kms']"
        chk.check(ok, 'C16-R4', RA, Q, f'{dec} decodes into the table\'s own pos/vel buffers (float_dtype=dtype, BoxSize from the header)', '',
                  f'{dec} call no longer receives the table buffers / dtype / header scales', node=cs[0] if cs else fn)
    pc = [n for n in walk_no_nested(fn) if isinstance(n, ast.Call) and dotted(n.func) == 'unpack_pids']
    kw = {k.arg: unparse(k.value) for k in pc[0].keywords} if pc else {}
    chk.check(bool(pc) and kw.get('float_dtype') == 'dtype' and kw.get('box') == "header['BoxSize']" and kw.get('ppd') == 'ppd' and unparse(pc[0].args[0]) == 'data',
              'C16-R4', RA, Q, 'unpack_pids receives data, box, ppd, float_dtype=dtype', '', f'unpack_pids call keywords {kw}', node=pc[0] if pc else fn)
    tr = [n for n in fn.body if isinstance(n, ast.Assign) and unparse(n.targets[0]) == 'table' and unparse(n.value) == 'table[:nread]']
    rets = [n for n in walk_no_nested(fn) if isinstance(n, ast.Return)]
    okt = len(tr) == 1 and len(rets) == 1 and unparse(rets[0].value) == 'table' and tr[0].lineno < rets[0].lineno
    chk.check(okt, 'C16-R4', RA, Q, 'table truncated to the decoded count on the single return path', '', 'the returned table is not truncated to the decoded particle count', node=rets[0] if rets else fn)
    mk = [n for n in walk_no_nested(fn) if isinstance(n, ast.Assign) and unparse(n.targets[0]) == 'table' and unparse(n.value) == 'Table(meta=header)']
    hd = [n for n in walk_no_nested(fn) if isinstance(n, ast.Assign) and unparse(n.targets[0]) == 'header']
    dd = [n for n in walk_no_nested(fn) if isinstance(n, ast.Assign) and unparse(n.targets[0]) == 'data']
    okm = len(mk) == 1 and len(hd) == 1 and unparse(hd[0].value) == 'af.tree[header_key]' and len(dd) == 1 and unparse(dd[0].value) == 'af.tree[data_key][colname]'
    chk.check(okm, 'C16-R4', RA, Q, 'meta = file header; data = the raw column', '', 'table metadata / raw data source changed', node=mk[0] if mk else fn)
    ld = [n for n in walk_no_nested(fn) if isinstance(n, ast.Assign) and unparse(n.targets[0]) == 'load']
    chk.check(len(ld) == 1 and unparse(ld[0].value) == '_resolve_columns(colname, load, kwargs)' and ld[0].lineno < min(a.lineno for a in adds),
              'C16-R4', RA, Q, 'load list resolved once, before any column is added', '', 'load list is not resolved before the columns are created', node=ld[0] if ld else fn, nontrivial=False)
