"""C16 -- read_asdf returns exactly the requested particle columns."""
import ast
import os

from ..core.srcmodel import clone, dotted, unparse, walk_no_nested, AnalysisError, names_in, stores_in, fold_str, clone_pos

RA = 'abacusnbody/data/read_abacus.py'
BP = 'abacusnbody/data/bitpacked.py'
FILES = [RA, BP]
Q = 'read_asdf'


def ev_cond(node, env):
    """Evaluate a string condition with names bound to literal strings (colname='rvint', ...)."""
    if isinstance(node, ast.Compare) and len(node.ops) == 1:
        a, b = val(node.left, env), val(node.comparators[0], env)
        if a is None or b is None:
            return None
        op = node.ops[0]
        if isinstance(op, ast.Eq):
            return a == b
        if isinstance(op, ast.NotEq):
            return a != b
        if isinstance(op, ast.In):
            return a in b
        if isinstance(op, ast.NotIn):
            return a not in b
    if isinstance(node, ast.BoolOp):
        vs = [ev_cond(v, env) for v in node.values]
        if None in vs:
            return None
        return all(vs) if isinstance(node.op, ast.And) else any(vs)
    if isinstance(node, ast.UnaryOp) and isinstance(node.op, ast.Not):
        v = ev_cond(node.operand, env)
        return None if v is None else not v
    return None


def val(node, env):
    if isinstance(node, ast.Constant) and isinstance(node.value, str):
        return node.value
    if isinstance(node, ast.Name) and node.id in env:
        return env[node.id]
    if isinstance(node, (ast.Tuple, ast.List)):
        items = [val(e, env) for e in node.elts]
        return tuple(items) if None not in items else None
    return None


def run(chk):
    src = chk.src
    fn = src.func(RA, Q)
    from ..core.srcmodel import sink_bindings
    sink_bindings(fn.body)       # a decoder and its unit arguments chosen first and called once -> one call per arm
    rc = src.func(RA, '_resolve_columns')
    chk.explanation = ('The column-set and plumbing clauses of read_asdf are decided structurally: every table column is added under a '
                       'membership test of its own name in the resolved load list (PID fields through the pid_kwargs comprehension over the '
                       'fields unpack_pids accepts); the defaults of _resolve_columns are evaluated on the literal raw column names; the '
                       'auto-detection raises for zero or several known columns; each detectable raw column selects exactly one decode '
                       'branch, which decodes into the table\'s own buffers with the requested float type and defines the row count by '
                       'which the table is truncated; metadata is the file header. Value independence from co-requested columns is C04-R6 / C15-R5.')
    chk.rule('C16-R1', 'a column named c is added iff c is in the load list (key agreement between membership test and name=)', 4)
    chk.rule('C16-R2', 'defaults for load=None: rvint/pack9 -> (pos, vel); *pid* -> (pid); deprecated load_pos/load_vel mapped as documented; names the detected raw column cannot supply raise ValueError (never an unwritten buffer, a dropped column or a zero-row column)', 5)
    chk.rule('C16-R3', 'auto-detection: exactly one known raw column else ValueError', 2)
    chk.rule('C16-R4', 'decoders write into the table-owned pos/vel buffers with float_dtype=dtype; table truncated to the decoded count; meta = header', 5)
    chk.rule('C16-R6', 'each detectable raw column satisfies exactly one decode branch, which defines the row count', 4)
    chk.assume('asdf / astropy behaviour and file contents are not modelled; light-cone header arithmetic not decided')
    # ---- R1
    adds = [n for n in walk_no_nested(fn) if isinstance(n, ast.Call) and isinstance(n.func, ast.Attribute) and n.func.attr == 'add_column'
            and unparse(n.func.value) == 'table']
    literal = 0
    for a in adds:
        nm = [k.value for k in a.keywords if k.arg == 'name']
        if not nm:
            chk.unknown('C16-R1', RA, Q, unparse(a)[:60], 'add_column without name=', node=a)
            continue
        if isinstance(nm[0], ast.Constant):
            literal += 1
            name = nm[0].value
            # guard: innermost enclosing if must be `'name' in load`
            p = getattr(a, '_parent', None)
            while p is not None and not isinstance(p, ast.If):
                p = getattr(p, '_parent', None)
            ok = isinstance(p, ast.If) and unparse(p.test) == f"'{name}' in load" and not p.orelse
            chk.check(ok, 'C16-R1', RA, Q, f"column '{name}' added iff '{name}' in load", '',
                      f"column '{name}' is added under \"{unparse(p.test) if isinstance(p, ast.If) else None}\": requested and returned column sets differ", node=a)
    # pid fields
    # The request flags handed to unpack_pids: explicit keywords and **mappings (a dict literal or a comprehension over a literal
    # tuple of names, possibly bound to a local first) are flattened into field -> flag expression; each accepted field must get
    # exactly the membership test of its own name.
    import copy as _copy
    from ..core.srcmodel import single_defs
    ldefs_ = single_defs(fn)
    call = [n for n in walk_no_nested(fn) if isinstance(n, ast.Call) and dotted(n.func) == 'unpack_pids']
    up = src.func(BP, 'unpack_pids')
    accepted = {a.arg for a in up.args.args} & {'pid', 'lagr_pos', 'tagged', 'density', 'lagr_idx'}
    flags, flat_ok = {}, len(call) == 1
    if flat_ok:
        for k_ in call[0].keywords:
            if k_.arg is not None:
                flags[k_.arg] = unparse(k_.value)
                continue
            v_ = k_.value
            if isinstance(v_, ast.Name) and v_.id in ldefs_:
                v_ = ldefs_[v_.id]
            if isinstance(v_, ast.Dict) and all(isinstance(x, ast.Constant) and isinstance(x.value, str) for x in v_.keys):
                for kk, vv in zip(v_.keys, v_.values):
                    flags[kk.value] = unparse(vv)
            elif isinstance(v_, ast.DictComp) and len(v_.generators) == 1 and not v_.generators[0].ifs and isinstance(v_.generators[0].target, ast.Name) \
                    and isinstance(val(v_.generators[0].iter, {}), (tuple, list)):
                kv = v_.generators[0].target.id
                for elt in val(v_.generators[0].iter, {}):
                    class _S(ast.NodeTransformer):
                        def visit_Name(s_, n_):
                            return ast.Constant(value=elt) if n_.id == kv and isinstance(n_.ctx, ast.Load) else n_
                    key_ = _S().visit(clone_pos(v_.key))
                    if not (isinstance(key_, ast.Constant) and key_.value == elt):
                        flat_ok = False
                        continue
                    flags[elt] = unparse(_S().visit(clone_pos(v_.value)))
            else:
                flat_ok = False
    fields = tuple(f for f in flags if f in {'pid', 'lagr_pos', 'tagged', 'density', 'lagr_idx'}) if flat_ok else None
    wrong = {f: flags.get(f) for f in sorted(accepted) if flags.get(f) not in (f"'{f}' in load", f"('{f}' in load)", f"bool('{f}' in load)")}
    okp = flat_ok and not wrong and set(fields or ()) == accepted
    chk.check(okp, 'C16-R1', RA, Q, 'PID fields requested from unpack_pids iff in load', f'{fields}',
              f'request flags of unpack_pids: {wrong if flat_ok else "not a literal mapping"}; unpack_pids accepts {sorted(accepted)}: a PID-derived column would be dropped or always produced',
              node=call[0] if call else fn)
    pl = [n for n in walk_no_nested(fn) if isinstance(n, ast.For) and 'cols.items()' in unparse(n.iter)]
    okl = len(pl) == 1 and any(isinstance(b, ast.Expr) and 'table.add_column(col, name=n' in unparse(b) for b in pl[0].body)
    okl = okl and len(call) == 1
    chk.check(okl, 'C16-R1', RA, Q, 'every array unpack_pids returns becomes a column of the same name', '', 'returned PID arrays are not all added under their own names', node=pl[0] if pl else fn)
    if literal < 3:
        raise AnalysisError('read_asdf: pos/vel/aux column additions not recognised')
    # ---- R2 defaults and deprecated flags: constant propagation of _resolve_columns over its finite input domain
    import itertools
    from ..core.pe import PE, Raised, Undecided, UNKNOWN
    modfuncs = {n.name: n for n in src.tree(RA).body if isinstance(n, ast.FunctionDef)}
    argn = [a.arg for a in rc.args.args]
    if len(argn) != 3:
        raise AnalysisError('_resolve_columns: signature changed')

    # what each raw column can supply, read off the decode branches: the decoders of rvint / pack9 fill the table's pos and
    # vel buffers; the pid branch produces the fields of pid_kwargs, and 'aux' is the raw pid word
    SUPPLY = {'rvint': {'pos', 'vel'}, 'pack9': {'pos', 'vel'}, 'packedpid': set(fields or ()) | {'aux'}, 'pid': set(fields or ()) | {'aux'}}

    def spec(cn, load, lp, lv):
        out = spec0(cn, load, lp, lv)
        # a name the raw column cannot supply must be rejected: otherwise its np.empty buffer is returned unwritten (pos/vel
        # from a pid file), or the column is silently dropped (pid fields from rvint / pack9), or it has no rows
        return out if set(out) <= SUPPLY[cn] else 'raises ValueError'

    def spec0(cn, load, lp, lv):
        if load is not None:
            return tuple(load)
        if lp is not None or lv is not None:
            out = []
            if lp or (lp is None and lv is False):
                out.append('pos')
            if lv or (lv is None and lp is False):
                out.append('vel')
            return tuple(out)
        out = []
        if cn in ('pack9', 'rvint'):
            out += ['pos', 'vel']
        if 'pid' in cn:
            out += ['pid']
        return tuple(out)
    # literal module constants of read_abacus.py and of the sibling modules it imports names from (from .bitpacked import PID_FIELDS)
    modconsts = {}

    def _literals(tree_, only=None):
        for st_ in tree_.body:
            if isinstance(st_, ast.Assign) and len(st_.targets) == 1 and isinstance(st_.targets[0], ast.Name) and (only is None or st_.targets[0].id in only):
                try:
                    modconsts[only.get(st_.targets[0].id, st_.targets[0].id) if only else st_.targets[0].id] = ast.literal_eval(st_.value)
                except (ValueError, SyntaxError):
                    pass
    for st_ in src.tree(RA).body:
        if isinstance(st_, ast.ImportFrom) and st_.level == 1 and st_.module:
            rel_ = os.path.join(os.path.dirname(RA), st_.module + '.py')
            if src.exists(rel_):
                _literals(src.tree(rel_), {a_.name: (a_.asname or a_.name) for a_ in st_.names})
    _literals(src.tree(RA))
    bad, ncase, undec = [], 0, []
    # every name the resolver could possibly let through is also asked for on its own and next to a valid one: string literals of the
    # resolver, of the constants it reads, and of the decoders' field lists
    universe = {c_.value for c_ in ast.walk(rc) if isinstance(c_, ast.Constant) and isinstance(c_.value, str) and c_.value.isidentifier()}
    for v_ in modconsts.values():
        if isinstance(v_, (list, tuple)) and all(isinstance(x_, str) for x_ in v_):
            universe |= set(v_)
    universe |= set().union(*SUPPLY.values())
    universe -= {'load_pos', 'load_vel', 'rvint', 'pack9', 'pid', 'pos', 'vel'} - set().union(*SUPPLY.values())
    singles = tuple((u_,) for u_ in sorted(universe)) + tuple(('pid', u_) for u_ in sorted(universe) if u_ != 'pid')
    for cn, load, lp, lv in itertools.product(('rvint', 'pack9', 'packedpid', 'pid'), (None, ('pos',), ('vel', 'pid'), (), ('pid', 'aux'), ('aux',), ('vel', 'pos'), ('lagr_pos', 'density')) + singles, (None, True, False), (None, True, False)):
        kwargs = {}
        if lp is not None:
            kwargs['load_pos'] = lp
        if lv is not None:
            kwargs['load_vel'] = lv
        pe = PE(modfuncs)
        try:
            got = pe.run(rc.body, dict(modconsts, **{argn[0]: cn, argn[1]: (list(load) if isinstance(load, tuple) and False else load), argn[2]: kwargs}))
        except Raised as r:
            got = f'raises {r.kind}'
        except Undecided as u:
            undec.append(str(u))
            continue
        ncase += 1
        if got is UNKNOWN:
            undec.append('result not constant')
        elif got != spec(cn, load, lp, lv):
            bad.append((cn, load, lp, lv, got, spec(cn, load, lp, lv)))
    if undec:
        chk.unknown('C16-R2', RA, '_resolve_columns', 'column resolution evaluates to a constant for every option combination', f'not decided: {undec[:2]}', node=rc)
    else:
        for cn in ('rvint', 'pack9', 'packedpid', 'pid'):
            b = [x for x in bad if x[0] == cn and x[1] is None and x[2] is None and x[3] is None]
            chk.check(not b, 'C16-R2', RA, '_resolve_columns', f'default columns for raw column {cn!r}', f'{spec(cn, None, None, None)}',
                      f'default load list for a {cn!r} file is {b[0][4] if b else None}; documented default is {spec(cn, None, None, None)}', node=rc, nf=list(spec(cn, None, None, None)))
        b = [x for x in bad if not (x[1] is None and x[2] is None and x[3] is None)]
        chk.check(not b, 'C16-R2', RA, '_resolve_columns', 'explicit load wins; deprecated load_pos / load_vel mapped as documented; a name the raw column cannot supply is rejected', f'{ncase} option combinations',
                  '; '.join(f'colname={x[0]!r}, load={x[1]}, load_pos={x[2]}, load_vel={x[3]} resolves to {x[4]}, documented {x[5]}' for x in b[:2]), node=rc)
    # ---- R3 detection: the `if colname is None:` block, constant-propagated for every subset of known raw columns in the file
    det = [n for n in walk_no_nested(fn) if isinstance(n, ast.If) and unparse(n.test) == 'colname is None' and n.lineno < min(a.lineno for a in adds)]
    if not det:
        raise AnalysisError('read_asdf: detection block not found')
    Dt = det[0]
    known = ('rvint', 'pack9', 'packedpid', 'pid')
    names = list(known)
    tree_exprs = sorted({unparse(n) for n in ast.walk(Dt) if isinstance(n, ast.Subscript) and 'af.tree' in unparse(n.value) and 'data_key' in unparse(n.slice)})
    wrong, undec = [], []
    for r in range(len(known) + 1):
        for present in itertools.combinations(known, r):
            filedata = {k: 0 for k in present}
            filedata['other_column'] = 0
            pe = PE(modfuncs, text_env={t: filedata for t in tree_exprs})
            env = {'colname': None, 'fn': 'file.asdf', 'data_key': 'data'}
            try:
                pe.block(Dt.body, env)
                out = env.get('colname')
            except Raised as rr:
                out = f'raises {rr.kind}'
            except Undecided as u:
                undec.append(str(u))
                continue
            exp = present[0] if len(present) == 1 else 'raises ValueError'
            if out != exp:
                wrong.append((present, out, exp))
    if undec:
        chk.unknown('C16-R3', RA, Q, 'detection decided for every set of raw columns', f'not decided: {undec[:2]}', node=Dt)
    else:
        many = [w for w in wrong if len(w[0]) > 1]
        one = [w for w in wrong if len(w[0]) == 1]
        none = [w for w in wrong if len(w[0]) == 0]
        chk.check(not many and not one, 'C16-R3', RA, Q, 'a second known raw column raises; otherwise colname is the one found', f'{names}',
                  '; '.join(f'file with {list(w[0])}: detection gives {w[1]}, expected {w[2]}' for w in (many + one)[:2]), node=Dt)
        chk.check(not none, 'C16-R3', RA, Q, 'no known raw column raises', '', f'a file without any known raw column gives {none[0][1] if none else None} instead of ValueError', node=Dt)
    # ---- R6 branch exhaustiveness: for each raw column name the conditions on `colname` are decided (constant propagation),
    # conditions on anything else are followed on both sides; exactly one decoder is reached and the row count is bound
    def reach(stmts, cn, calls, nread):
        for s_ in stmts:
            if isinstance(s_, ast.If):
                c = ev_cond(s_.test, {'colname': cn}) if 'colname' in names_in(s_.test) else None
                if c is True:
                    reach(s_.body, cn, calls, nread)
                elif c is False:
                    reach(s_.orelse, cn, calls, nread)
                else:
                    reach(s_.body, cn, calls, nread)
                    reach(s_.orelse, cn, calls, nread)
                continue
            if isinstance(s_, (ast.With, ast.For, ast.While, ast.Try)):
                reach(s_.body, cn, calls, nread)
                continue
            for x in ast.walk(s_):
                if isinstance(x, ast.Call) and dotted(x.func).startswith('unpack_'):
                    calls.append(dotted(x.func))
            if isinstance(s_, ast.Assign) and any(unparse(t) == 'nread' for t in s_.targets):
                nread.append(s_)
    for cn in (names or ()):
        calls, nread = [], []
        reach(fn.body, cn, calls, nread)
        wantdec = {'rvint': 'unpack_rvint', 'pack9': 'unpack_pack9', 'packedpid': 'unpack_pids', 'pid': 'unpack_pids'}.get(cn)
        chk.check(calls == [wantdec] and len(nread) == 1, 'C16-R6', RA, Q, f'raw column {cn!r} -> {wantdec}', '',
                  f'raw column {cn!r}: decoders reached {calls} (expected exactly [{wantdec}]), row count bound {len(nread)} time(s)', node=fn)
    # ---- R4
    for dec in ('unpack_rvint', 'unpack_pack9'):
        ok, why, node_ = decoder_call(src, dec)
        chk.check(ok, 'C16-R4', RA, Q, f'{dec} decodes into the table\'s own pos/vel buffers (float_dtype=dtype, scales from the header); rows = max of the returned counts', '',
                  f'{dec}: {why}', node=node_)
    pc = [n for n in walk_no_nested(fn) if isinstance(n, ast.Call) and dotted(n.func) == 'unpack_pids']
    kw = {k.arg: unparse(k.value) for k in pc[0].keywords} if pc else {}
    chk.check(bool(pc) and kw.get('float_dtype') == 'dtype' and kw.get('box') == "header['BoxSize']" and kw.get('ppd') == 'ppd' and unparse(pc[0].args[0]) == 'data',
              'C16-R4', RA, Q, 'unpack_pids receives data, box, ppd, float_dtype=dtype', '', f'unpack_pids call keywords {kw}', node=pc[0] if pc else fn)
    # the header's ppd (a float in the files, possibly 1e-13 off an integer) reaches the decoder rounded to nearest, or unchanged
    # (unpack_pids rounds it itself): never truncated
    hp = [n for n in walk_no_nested(fn) if isinstance(n, ast.Subscript) and unparse(n) in ("header['ppd']", 'header["ppd"]')]
    trunc = []
    for h in hp:
        q = getattr(h, '_parent', None)
        while q is not None and isinstance(q, ast.expr):
            if isinstance(q, ast.Call):
                cn = dotted(q.func) or (q.func.attr if isinstance(q.func, ast.Attribute) else '')
                if cn in ('round', 'np.round', 'np.rint', 'np.around'):
                    break
                if cn in ('int', 'np.int64', 'np.int32', 'np.intp', 'math.floor', 'math.trunc', 'np.floor', 'np.trunc', 'math.ceil', 'np.ceil') \
                        or (cn == 'astype' or cn.endswith('.astype')):
                    trunc.append(q)
                    break
            if isinstance(q, ast.BinOp) and isinstance(q.op, ast.FloorDiv):
                trunc.append(q)
                break
            q = getattr(q, '_parent', None)
    chk.check(bool(hp) and not trunc, 'C16-R4', RA, Q, "header['ppd'] is rounded to the nearest integer (or passed on unchanged), never truncated", f'{len(hp)} read(s)',
              (f'{unparse(trunc[0])[:80]}: the header value is truncated, so a stored ppd of 1727.9999999999998 decodes lagr_pos on a 1727^3 lattice' if trunc
               else "header['ppd'] is not read: the decoder does not get the file's own lattice size"), node=trunc[0] if trunc else fn)
    # header keys: what the decoders need (box, velocity scale, ppd) may be required; anything else is descriptive metadata that
    # not every Abacus header carries (SimSet is absent from the package's own example simulation): it is read with .get, or under a
    # test that has established which kind of header this is
    hreq, hbad = [], []
    # local names whose value reaches an argument of a decoder call (backwards closure over plain assignments)
    to_decoder = set()
    for n in walk_no_nested(fn):
        if isinstance(n, ast.Call) and (dotted(n.func) or '').startswith('unpack_'):
            for a_ in list(n.args) + [k_.value for k_ in n.keywords]:
                to_decoder |= {x.id for x in ast.walk(a_) if isinstance(x, ast.Name)}
    grew = True
    while grew:
        grew = False
        for n in walk_no_nested(fn):
            if isinstance(n, ast.Assign) and len(n.targets) == 1 and isinstance(n.targets[0], ast.Name) and n.targets[0].id in to_decoder:
                new_ = {x.id for x in ast.walk(n.value) if isinstance(x, ast.Name)} - to_decoder
                if new_:
                    to_decoder |= new_
                    grew = True
    to_decoder -= {'header', 'data', 'table', 'load', 'kwargs', 'dtype'}
    for n in walk_no_nested(fn):
        if isinstance(n, ast.Subscript) and isinstance(n.value, ast.Name) and n.value.id == 'header' and isinstance(n.ctx, ast.Load) \
                and isinstance(n.slice, ast.Constant) and isinstance(n.slice.value, str):
            q, decoder_arg, schema = getattr(n, '_parent', None), False, False
            child = n
            key_ = n.slice.value

            def _has_key_test(t_):
                return any(isinstance(c_, ast.Compare) and len(c_.ops) == 1 and isinstance(c_.ops[0], ast.In) and isinstance(c_.left, ast.Constant)
                           and c_.left.value == key_ and unparse(c_.comparators[0]) == 'header' for c_ in ast.walk(t_))
            def _has_key_test_for(t_, k_):
                return any(isinstance(c_, ast.Compare) and len(c_.ops) == 1 and isinstance(c_.ops[0], ast.In) and isinstance(c_.left, ast.Constant)
                           and c_.left.value == k_ and unparse(c_.comparators[0]) == 'header' for c_ in ast.walk(t_))
            while q is not None and q is not fn:
                # the read is protected by a membership test of the same key: an earlier conjunct of the same `and` (short circuit) or an enclosing `if`
                if isinstance(q, ast.BoolOp) and isinstance(q.op, ast.And) and child in q.values and any(_has_key_test(v_) for v_ in q.values[:q.values.index(child)]):
                    schema = True
                if isinstance(q, ast.If) and child in q.body and _has_key_test(q.test):
                    schema = True
                if isinstance(q, ast.IfExp) and child is q.body and _has_key_test(q.test):
                    schema = True
                if isinstance(q, ast.Call) and (dotted(q.func) or '').startswith('unpack_'):
                    decoder_arg = True
                if isinstance(q, ast.Assign) and len(q.targets) == 1 and isinstance(q.targets[0], ast.Name) and q.targets[0].id in to_decoder:
                    decoder_arg = True
                if isinstance(q, ast.If) and child in q.body:
                    # an enclosing test that compares a header field obtained with .get against a constant establishes the schema,
                    # except for the very key being read
                    for c in ast.walk(q.test):
                        if isinstance(c, ast.Call) and isinstance(c.func, ast.Attribute) and c.func.attr == 'get' and unparse(c.func.value) == 'header' \
                                and c.args and isinstance(c.args[0], ast.Constant) and c.args[0].value in ('SimSet',):
                            schema = True
                        # the same with a guarded subscript:  'SimSet' in header and header['SimSet'] == <constant>
                        if isinstance(c, ast.Compare) and len(c.ops) == 1 and isinstance(c.ops[0], ast.Eq) and unparse(c.left) in ("header['SimSet']",) \
                                and isinstance(c.comparators[0], ast.Constant) and key_ != 'SimSet' and _has_key_test_for(q.test, 'SimSet'):
                            schema = True
                child, q = q, getattr(q, '_parent', None)
            (hreq if decoder_arg or schema else hbad).append(n)
    chk.check(not hbad, 'C16-R4', RA, Q, 'header keys other than the decoder inputs are optional (read with .get or under an established schema)',
              f'{len(hreq)} required reads',
              f'{unparse(hbad[0]) if hbad else ""} at line {src.orig_line_of(RA, hbad[0]) if hbad else 0}: a header without this key (light-cone output of a non-AbacusSummit simulation, e.g. the package\'s '
              'own example simulation) makes read_asdf raise KeyError before anything is decoded', node=hbad[0] if hbad else fn, nontrivial=False)
    tr = [n for n in fn.body if isinstance(n, ast.Assign) and unparse(n.targets[0]) == 'table' and unparse(n.value) == 'table[:nread]']
    rets = [n for n in walk_no_nested(fn) if isinstance(n, ast.Return)]
    okt = len(tr) == 1 and len(rets) == 1 and unparse(rets[0].value) == 'table' and tr[0].lineno < rets[0].lineno
    chk.check(okt, 'C16-R4', RA, Q, 'table truncated to the decoded count on the single return path', '', 'the returned table is not truncated to the decoded particle count', node=rets[0] if rets else fn)
    mk = [n for n in walk_no_nested(fn) if isinstance(n, ast.Assign) and unparse(n.targets[0]) == 'table' and unparse(n.value) == 'Table(meta=header)']
    hd = [n for n in walk_no_nested(fn) if isinstance(n, ast.Assign) and unparse(n.targets[0]) == 'header']
    dd = [n for n in walk_no_nested(fn) if isinstance(n, ast.Assign) and unparse(n.targets[0]) == 'data']
    okm = len(mk) == 1 and len(hd) == 1 and unparse(hd[0].value) == 'af.tree[header_key]' and len(dd) == 1 and unparse(dd[0].value) == 'af.tree[data_key][colname]'
    chk.check(okm, 'C16-R4', RA, Q, 'meta = file header; data = the raw column', '', 'table metadata / raw data source changed', node=mk[0] if mk else fn)
    ld = [n for n in walk_no_nested(fn) if isinstance(n, ast.Assign) and unparse(n.targets[0]) == 'load']
    chk.check(len(ld) == 1 and unparse(ld[0].value) == '_resolve_columns(colname, load, kwargs)' and ld[0].lineno < min(a.lineno for a in adds),
              'C16-R4', RA, Q, 'load list resolved once, before any column is added', '', 'load list is not resolved before the columns are created', node=ld[0] if ld else fn, nontrivial=False)


def decoder_call(src, dec):
    """(ok, why, node) for the single call of decoder `dec` in read_asdf: arguments resolved through the function's locals;
    the row count taken right after the call must be the larger of the two returned counts."""
    fn = src.func(RA, Q)
    from ..core.srcmodel import sink_bindings
    sink_bindings(fn.body)
    ldefs = {}
    for n_ in walk_no_nested(fn):
        if isinstance(n_, ast.Assign) and len(n_.targets) == 1 and isinstance(n_.targets[0], ast.Name):
            ldefs.setdefault(n_.targets[0].id, []).append(n_)

    def resolved(e, at_line, depth=0):
        """Text of e with locals replaced by their (unique reaching, textually identical) definitions."""
        import copy as _c

        class _R(ast.NodeTransformer):
            def visit_Name(self_, n_):
                if isinstance(n_.ctx, ast.Load) and n_.id in ldefs and depth < 4 and n_.id not in ('table', 'data', 'header', 'load', 'dtype', 'colname'):
                    ds = [d for d in ldefs[n_.id] if d.lineno < at_line]
                    if ds and len({unparse(d.value) for d in ds}) == 1 and not isinstance(ds[-1].value, ast.Call):
                        return ast.parse(resolved(ds[-1].value, ds[-1].lineno, depth + 1), mode='eval').body
                return n_
        return unparse(_R().visit(clone(e)))
    cs = [n for n in walk_no_nested(fn) if isinstance(n, ast.Call) and dotted(n.func) == dec]
    ok = len(cs) == 1
    why = f'{len(cs)} calls'
    if ok:
        call = cs[0]
        kw = {k.arg: resolved(k.value, call.lineno) for k in call.keywords}
        pos = [resolved(a, call.lineno) for a in call.args]
        st = call
        while not isinstance(st, ast.stmt):
            st = st._parent
        blk = st._parent
        counts = [t.id for t in st.targets[0].elts] if isinstance(st, ast.Assign) and isinstance(st.targets[0], ast.Tuple) and all(isinstance(t, ast.Name) for t in st.targets[0].elts) else []
        # the row count is taken after the call: in the call's own block or, when the call sits in an inner choice of
        # decoder, in the enclosing block of the same branch
        nrd, cur_, blk_ = [], st, blk
        while blk_ is not None and blk_ is not fn and not nrd and not isinstance(blk_, ast.With):
            sibs = blk_.body if cur_ in getattr(blk_, 'body', []) else getattr(blk_, 'orelse', [])
            nrd = [x for x in sibs if isinstance(x, ast.Assign) and unparse(x.targets[0]) == 'nread' and x.lineno > st.lineno]
            cur_, blk_ = blk_, getattr(blk_, '_parent', None)
        oknr = len(counts) == 2 and len(nrd) == 1 and unparse(nrd[0].value).replace(' ', '') in (f'max({counts[0]},{counts[1]})', f'max({counts[1]},{counts[0]})')
        okargs = kw.get('float_dtype') == 'dtype' and kw.get('posout') == "table['pos'] if 'pos' in load else False" and \
            kw.get('velout') == "table['vel'] if 'vel' in load else False" and pos[:2] == ['data', "header['BoxSize']"]
        if dec == 'unpack_pack9':
            okargs = okargs and len(pos) > 2 and pos[2] == "header['VelZSpace_to_kms']"
        ok = okargs and oknr
        why = (f'arguments {pos} {kw}' if not okargs else '') + ('' if oknr else f'; row count after the call is {unparse(nrd[0].value) if nrd else None}: it must be the larger of the two '
                                                                  f'returned counts {counts} (a decoder returns 0 for an output that was not requested)')
    return ok, why, (cs[0] if cs else fn)
