"""C04 -- RVint and PID bit fields decode exactly per the documented layout."""
import ast
from fractions import Fraction

from ..core.bits import BV, ZERO
from ..core.poly import Poly
from ..core.bitpoly import BPEval, NotInDomain, to_poly, field_sym
from ..core.srcmodel import dotted, unparse, norm, walk_no_nested, AnalysisError, names_in
from ..spec import bit_layouts as L

BP = 'abacusnbody/data/bitpacked.py'
FILES = [BP]


def module_env(src, rel):
    env = {}
    ev = BPEval(env)
    for st in src.tree(rel).body:
        if isinstance(st, ast.Assign) and len(st.targets) == 1 and isinstance(st.targets[0], ast.Name):
            try:
                v = BPEval(env).ev(st.value)
            except NotInDomain:
                continue
            env[st.targets[0].id] = v
    return env


class Store:
    def __init__(self, out, comp, value, guards, node, err=None):
        self.out, self.comp, self.value, self.guards, self.node, self.err = out, comp, value, guards, node, err


def collect_stores(fn, env, input_fn, floatcasts, outputs):
    """Walk the kernel body; returns list of Store for subscripted stores into output parameters."""
    stores = []
    env = dict(env)

    def walk(stmts, guards):
        for s in stmts:
            if isinstance(s, ast.Assign) and len(s.targets) == 1 and isinstance(s.targets[0], ast.Name):
                try:
                    env[s.targets[0].id] = BPEval(env, input_fn, floatcasts).ev(s.value)
                except NotInDomain:
                    env[s.targets[0].id] = Poly.sym(s.targets[0].id)
            elif isinstance(s, (ast.Assign, ast.AugAssign)) and isinstance(
                    (s.targets[0] if isinstance(s, ast.Assign) else s.target), ast.Subscript):
                t = s.targets[0] if isinstance(s, ast.Assign) else s.target
                if isinstance(t.value, ast.Name) and t.value.id in outputs:
                    idx = t.slice.elts if isinstance(t.slice, ast.Tuple) else [t.slice]
                    comp = None
                    if len(idx) == 2:
                        comp = idx[1].value if isinstance(idx[1], ast.Constant) else unparse(idx[1])
                    if isinstance(s, ast.AugAssign):
                        stores.append(Store(t.value.id, comp, None, list(guards), s, 'augmented store into an output'))
                        continue
                    try:
                        v = BPEval(env, input_fn, floatcasts).ev(s.value)
                        stores.append(Store(t.value.id, comp, v, list(guards), s))
                    except NotInDomain as e:
                        stores.append(Store(t.value.id, comp, None, list(guards), s, str(e)))
            elif isinstance(s, ast.For):
                walk(s.body, guards)
            elif isinstance(s, ast.If):
                walk(s.body, guards + [(s.test, True)])
                walk(s.orelse, guards + [(s.test, False)])
            elif isinstance(s, ast.While):
                walk(s.body, guards)
    walk(fn.body, [])
    return stores, env


def guard_name(test, positive):
    """'<name> is not None' (taken positively) -> name."""
    if isinstance(test, ast.Compare) and len(test.ops) == 1 and isinstance(test.left, ast.Name) \
            and isinstance(test.comparators[0], ast.Constant) and test.comparators[0].value is None:
        if isinstance(test.ops[0], ast.IsNot) and positive:
            return test.left.id
        if isinstance(test.ops[0], ast.Is) and not positive:
            return test.left.id
    return None


def run(chk):
    src = chk.src
    chk.explanation = ('Every store of _unpack_rvint and _unpack_pids is evaluated in a bit-provenance domain (64 symbolic '
                       'input bits, so all 2^32 / 2^64 words at once) and, above the extracted bit fields, as an exact '
                       'polynomial in the scale parameters; the normal forms are compared with the documented layout. '
                       'Output selection, axis agreement and the wrappers\' allocation tables are checked structurally.')
    chk.rule('C04-R1', 'rvint: pos = signed bits 12-31 * boxsize/1e6, vel = (bits 0-11 - 2048) * 6000/2048, component c from word c', 6)
    chk.rule('C04-R2', 'aux: lagr_idx / lagr_pos / tagged / density / pid bit maps and affine parts equal the layout', 9)
    chk.rule('C04-R3', 'module mask constants equal the documented bit ranges', 5)
    chk.rule('C04-R6', 'each output is written only under its own "is not None" guard from the input word and constants', 15)
    chk.rule('C04-R8', 'wrapper scalars: ppd is rounded to the nearest integer (guarded by isclose), box/ppd defaults, kernel receives (packed, box, ppd, float_dtype, outputs)', 3)
    chk.rule('C04-R9', 'the catalog\'s subsample zipper hands the decoders output slices that cover the halo\'s rows once: every requested output is sliced to the halo\'s '
                       'write range and advanced past the original particles before the merged ones are decoded (obligations C01-R5)', 6)
    from . import c01
    chk.import_from(c01.run, 'C01', ('C01-R5',), 'C04-R9')
    chk.rule('C04-R7', 'wrappers: allocation tables agree, pos/vel handled symmetrically, dtype assertions present', 4)
    chk.assume('numba promotes int32 op uint32 to int64 (sign-extended), so >> is arithmetic and & acts on the sign-extended value')
    chk.assume('float rounding is not modelled: "within half a quantum" follows analytically from the exact integer decode and the scale')
    chk.exhaustive = True
    env0 = module_env(src, BP)

    # ---- R3 constants ---------------------------------------------------
    def mask(lo, hi):
        return sum(1 << k for k in range(lo, hi + 1))
    want_consts = {
        'AUXXPID': mask(*L.AUX_IDX[0]), 'AUXYPID': mask(*L.AUX_IDX[1]), 'AUXZPID': mask(*L.AUX_IDX[2]),
        'AUXPID': sum(mask(*f) for f in L.AUX_IDX), 'AUXDENS': mask(*L.AUX_DENSITY),
    }
    # constants are checked through their use (R2); here we report the ones that exist under the usual names
    nconst = 0
    for name, v in env0.items():
        if isinstance(v, BV) and v.is_const():
            nconst += 1
            if name in want_consts:
                chk.check(v.value() == want_consts[name], 'C04-R3', BP, '<module>', f'{name}',
                          f'{name} = {hex(v.value())}', f'{name} = {hex(v.value())}, layout requires {hex(want_consts[name])}',
                          nf=hex(v.value()))
            else:
                chk.proven('C04-R3', BP, '<module>', name, f'{name} = {v.value()} (used as shift/selector; checked through its uses)', nontrivial=False)
    if nconst == 0:
        raise AnalysisError('no module bit constants found in bitpacked.py')

    # ---- R1 rvint -------------------------------------------------------
    fn = src.func(BP, '_unpack_rvint')
    params = [a.arg for a in fn.args.args]
    if len(params) < 4:
        raise AnalysisError('_unpack_rvint signature changed')
    inp, boxp, posn, veln = params[0], params[1], params[2], params[3]

    def rv_input(node):
        if isinstance(node.value, ast.Name) and node.value.id == inp and isinstance(node.slice, ast.Tuple) \
                and len(node.slice.elts) == 2 and isinstance(node.slice.elts[1], ast.Constant):
            return BV.input(f'{inp}.{node.slice.elts[1].value}', 32, True)
        return None
    stores, _ = collect_stores(fn, env0, rv_input, (), {posn, veln})
    seen = set()
    for s in stores:
        key = f'{s.out}[:,{s.comp}]'
        seen.add((s.out, s.comp))
        check_guard(chk, s, '_unpack_rvint', {posn, veln}, inp)
        if s.err:
            chk.refuted('C04-R1', BP, '_unpack_rvint', key, f'expression leaves the decodable form: {s.err}', node=s.node)
            continue
        try:
            p = to_poly(s.value)
        except NotInDomain as e:
            chk.refuted('C04-R1', BP, '_unpack_rvint', key, f'not a single bit field: {e}', node=s.node)
            continue
        if s.out == posn:
            lo, hi, sg = L.RVINT_POS
            want = Poly.sym(field_sym(f'{inp}.{s.comp}', lo, hi, sg)) * Poly.sym(boxp) / Poly.const(L.POS_DIV)
        else:
            lo, hi, sg = L.RVINT_VEL
            want = (Poly.sym(field_sym(f'{inp}.{s.comp}', lo, hi, sg)) - L.VEL_BIAS) * Fraction(*L.VEL_SCALE)
        chk.check(p == want, 'C04-R1', BP, '_unpack_rvint', key, f'= {p}', f'decodes to {p}; layout requires {want}',
                  node=s.node, nf=str(p))
    for out in (posn, veln):
        for c in (0, 1, 2):
            if (out, c) not in seen:
                chk.refuted('C04-R1', BP, '_unpack_rvint', f'{out}[:,{c}]', 'component is never stored', node=fn)

    # ---- R2 aux ---------------------------------------------------------
    fn = src.func(BP, '_unpack_pids')
    params = [a.arg for a in fn.args.args]
    inp = params[0]
    outs = {'pid', 'lagr_pos', 'tagged', 'density', 'lagr_idx'}
    if not outs <= set(params):
        raise AnalysisError(f'_unpack_pids outputs changed: {params}')
    boxp, ppdp = params[1], params[2]

    def aux_input(node):
        if isinstance(node.value, ast.Name) and node.value.id == inp and not isinstance(node.slice, (ast.Tuple, ast.Slice)):
            return BV.input(inp, 64, False)
        return None
    stores, _ = collect_stores(fn, env0, aux_input, ('float_dtype',), outs)
    seen = set()
    for s in stores:
        key = f'{s.out}' + (f'[:,{s.comp}]' if s.comp is not None else '')
        seen.add((s.out, s.comp))
        check_guard(chk, s, '_unpack_pids', outs, inp)
        if s.err:
            chk.refuted('C04-R2', BP, '_unpack_pids', key, f'expression leaves the decodable form: {s.err}', node=s.node)
            continue
        ok, got, want = aux_expect(s, inp, boxp, ppdp)
        chk.check(ok, 'C04-R2', BP, '_unpack_pids', key, f'= {got}', f'decodes to {got}; layout requires {want}', node=s.node, nf=str(got))
    need = [('lagr_idx', 0), ('lagr_idx', 1), ('lagr_idx', 2), ('lagr_pos', 0), ('lagr_pos', 1), ('lagr_pos', 2),
            ('tagged', None), ('density', None), ('pid', None)]
    for n in need:
        if n not in seen:
            chk.refuted('C04-R2', BP, '_unpack_pids', f'{n[0]}' + (f'[:,{n[1]}]' if n[1] is not None else ''), 'field is never stored', node=fn)

    wrappers(chk)
    scalars(chk)


def scalars(chk):
    """R8: the particles-per-dimension used for lagr_pos is the integer nearest to the supplied value."""
    src = chk.src
    fn = src.func(BP, 'unpack_pids')
    blocks = [n for n in fn.body if isinstance(n, ast.If) and unparse(n.test) == 'ppd is not None']
    ok = False
    detail = ''
    if len(blocks) == 1:
        b = blocks[0]
        guard = [x for x in b.body if isinstance(x, ast.If) and 'np.isclose(ppd, int(round(ppd)))' in unparse(x.test) and unparse(x.test).startswith('not')
                 and any(isinstance(y, ast.Raise) for y in x.body)]
        asg = [unparse(x.value) for x in b.body if isinstance(x, ast.Assign) and unparse(x.targets[0]) == 'ppd']
        els = [unparse(x) for x in b.orelse]
        ok = len(guard) == 1 and asg == ['int(round(ppd))'] and els == ['ppd = 1']
        detail = f'ppd = {asg}; guard present={len(guard) == 1}; default {els}'
    chk.check(ok, 'C04-R8', BP, 'unpack_pids', 'ppd := int(round(ppd)) after the isclose guard', detail,
              f'{detail}: a near-integer float ppd (e.g. N**(1/3) = 11.999999999999998) must decode with the nearest integer, otherwise lagr_pos is off by up to one lattice spacing',
              node=blocks[0] if blocks else fn)
    req = [n for n in fn.body if isinstance(n, ast.If) and unparse(n.test) == 'lagr_pos is not False']
    okreq = len(req) == 1 and sum(1 for x in ast.walk(req[0]) if isinstance(x, ast.Raise)) == 2
    bx = [n for n in fn.body if isinstance(n, ast.If) and unparse(n.test) == 'box is None']
    okbox = len(bx) == 1 and [unparse(x) for x in bx[0].body] == ['box = float_dtype(1.0)']
    chk.check(okreq and okbox, 'C04-R8', BP, 'unpack_pids', 'lagr_pos requires box and ppd; box defaults to 1 only when unused', '',
              f'requirement check ok={okreq}; box default ok={okbox}', node=fn, nontrivial=False)
    calls = [n for n in walk_no_nested(fn) if isinstance(n, ast.Call) and dotted(n.func) == '_unpack_pids']
    okc = len(calls) == 1 and [unparse(a) for a in calls[0].args] == ['packed', 'box', 'ppd'] and \
        {k.arg: unparse(k.value) for k in calls[0].keywords} == {'float_dtype': 'float_dtype', None: 'arr'}
    rets = [n for n in walk_no_nested(fn) if isinstance(n, ast.Return)]
    okc = okc and len(rets) == 1 and unparse(rets[0].value) == 'arr'
    chk.check(okc, 'C04-R8', BP, 'unpack_pids', 'kernel call (packed, box, ppd, float_dtype=float_dtype, **arr); returns the filled dict', '',
              f'kernel called as {unparse(calls[0]) if calls else None}', node=calls[0] if calls else fn)


def aux_expect(s, inp, boxp, ppdp):
    v = s.value
    if s.out == 'lagr_idx':
        lo, hi = L.AUX_IDX[s.comp] if s.comp in (0, 1, 2) else (None, None)
        f = v.field() if isinstance(v, BV) else None
        return f == (inp, lo, hi, False), (v.describe() if isinstance(v, BV) else v), f'{inp} bits {lo}-{hi} at output bits 0-{hi - lo if lo is not None else "?"}'
    if s.out == 'lagr_pos':
        lo, hi = L.AUX_IDX[s.comp] if s.comp in (0, 1, 2) else (0, 0)
        want = Poly.sym(field_sym(inp, lo, hi, False)) * Poly.sym(boxp) / Poly.sym(ppdp) - Poly.sym(boxp) / 2
        try:
            p = to_poly(v)
        except NotInDomain as e:
            return False, str(e), want
        return p == want, p, want
    if s.out == 'tagged':
        f = v.field() if isinstance(v, BV) else None
        return f == (inp, L.AUX_TAGGED[0], L.AUX_TAGGED[1], False), (v.describe() if isinstance(v, BV) else v), f'{inp} bit {L.AUX_TAGGED[0]} at output bit 0'
    if s.out == 'density':
        want = Poly.sym(field_sym(inp, L.AUX_DENSITY[0], L.AUX_DENSITY[1], False)) ** 2
        try:
            p = to_poly(v)
        except NotInDomain as e:
            return False, str(e), want
        return p == want, p, want
    if s.out == 'pid':
        keep = set()
        for lo, hi in L.AUX_IDX:
            keep |= set(range(lo, hi + 1))
        want = BV([('b', inp, k) if k in keep else ZERO for k in range(64)])
        return isinstance(v, BV) and v.bits == want.bits, (v.describe() if isinstance(v, BV) else v), want.describe()
    return False, v, 'unknown output'


def check_guard(chk, s, fname, outs, inp):
    """R6: the store sits under exactly its own 'is not None' guard; the value mentions no other output."""
    gnames = [guard_name(t, pos) for t, pos in s.guards]
    key = f'guard of {s.out}' + (f'[:,{s.comp}]' if s.comp is not None else '')
    ok_guard = gnames.count(s.out) >= 1 and all(g is None or g == s.out for g in gnames) and None not in gnames
    used = names_in(s.node.value) & (outs - {s.out})
    used_self = s.out in names_in(s.node.value)
    chk.check(ok_guard and not used and not used_self, 'C04-R6', BP, fname, key,
              f'guards={gnames}; reads no output', f'guards={gnames} (need exactly "{s.out} is not None"); reads outputs {sorted(used) + ([s.out] if used_self else [])}',
              node=s.node, nontrivial=False)


def alloc_table(fn):
    """arr['name'] = np.empty(shape, dtype=...) statements -> name -> (shape text, dtype text)."""
    out = {}
    for n in walk_no_nested(fn):
        if isinstance(n, ast.Assign) and isinstance(n.targets[0], ast.Subscript) and isinstance(n.targets[0].slice, ast.Constant) \
                and isinstance(n.value, ast.Call) and dotted(n.value.func) in ('np.empty', 'np.zeros'):
            name = n.targets[0].slice.value
            shape = unparse(n.value.args[0]) if n.value.args else ''
            dt = [unparse(k.value) for k in n.value.keywords if k.arg == 'dtype']
            out[name] = (shape, dt[0] if dt else '')
    return out


def wrappers(chk):
    src = chk.src
    a = alloc_table(src.func(BP, 'unpack_pids'))
    b = alloc_table(src.func(BP, 'empty_bitpacked_arrays'))
    common = sorted(set(a) & set(b))
    # one wrapper may delegate its allocation to the other: then there is a single table and nothing to disagree
    up = src.func(BP, 'unpack_pids')
    delegates = [n for n in walk_no_nested(up) if isinstance(n, ast.Call) and dotted(n.func) == 'empty_bitpacked_arrays']
    if not a and len(b) >= 5 and delegates:
        kw = {k.arg: unparse(k.value) for k in delegates[0].keywords}
        okd = kw.get('float_dtype') == 'float_dtype' and len(delegates[0].args) >= 2 and unparse(delegates[0].args[0]) == 'N'
        chk.check(okd, 'C04-R7', BP, 'unpack_pids/empty_bitpacked_arrays', 'allocation tables agree', 'unpack_pids allocates through empty_bitpacked_arrays(N, <requested>, float_dtype=float_dtype)',
                  f'unpack_pids delegates allocation with arguments {[unparse(x) for x in delegates[0].args]} {kw}', node=delegates[0])
        a = dict(b)
        common = sorted(b)
    elif len(common) < 5:
        raise AnalysisError(f'allocation tables not recognised: {sorted(a)} / {sorted(b)}')
    diff = {k: (a[k], b[k]) for k in common if a[k] != b[k]}
    chk.check(not diff, 'C04-R7', BP, 'unpack_pids/empty_bitpacked_arrays', 'allocation tables agree',
              f'{len(common)} fields with identical shape and dtype', f'fields allocated differently: {diff}',
              node=src.func(BP, 'unpack_pids'), nf={k: list(v) for k, v in a.items()})
    # documented dtypes
    want = {'pid': 'np.int64', 'lagr_idx': 'np.int16', 'lagr_pos': 'float_dtype', 'density': 'float_dtype'}
    bad = {k: a[k][1] for k in want if k in a and a[k][1] != want[k]}
    chk.check(not bad, 'C04-R7', BP, 'unpack_pids', 'documented output dtypes', 'pid int64, lagr_idx int16, float fields float_dtype',
              f'dtype differs from the docstring: {bad}', node=src.func(BP, 'unpack_pids'))
    # symmetric pos/vel handling in unpack_rvint: rename pos->vel in the pos statements and compare
    fn = src.func(BP, 'unpack_rvint')
    ps = [s for s in fn.body if 'posout' in names_in(s) | {n for n in names_in(s)} and 'velout' not in names_in(s) and '_velout' not in names_in(s)]
    vs = [s for s in fn.body if ('velout' in names_in(s) or '_velout' in names_in(s)) and 'posout' not in names_in(s) and '_posout' not in names_in(s)]

    class Ren(ast.NodeTransformer):
        def visit_Name(self, n):
            return ast.copy_location(ast.Name(id=n.id.replace('pos', 'vel'), ctx=n.ctx), n)
    pn = [norm(Ren().visit(ast.parse(unparse(s)))) for s in ps]
    vn = [norm(ast.parse(unparse(s))) for s in vs]
    chk.check(bool(pn) and pn == vn, 'C04-R7', BP, 'unpack_rvint', 'posout/velout handled symmetrically',
              f'{len(pn)} statement groups alpha-equivalent under pos<->vel', 'the pos and vel paths differ beyond renaming',
              node=fn)
    # input typing: the wrappers pin the word type the kernels are analysed with
    t1 = any(isinstance(n, ast.Assert) and 'np.int32' in unparse(n.test) and 'dtype' in unparse(n.test) for n in walk_no_nested(fn))
    f2 = src.func(BP, 'unpack_pids')
    t2 = any(isinstance(n, ast.Call) and dotted(n.func) in ('np.asanyarray', 'np.asarray') and
             any(k.arg == 'dtype' and unparse(k.value) == 'np.uint64' for k in n.keywords) for n in walk_no_nested(f2))
    chk.check(t1 and t2, 'C04-R7', BP, 'unpack_rvint/unpack_pids', 'input word types pinned (int32 / uint64)',
              'assert intdata.dtype == np.int32; packed coerced to uint64', f'input typing missing: int32 assert={t1}, uint64 coercion={t2}', node=fn)
    # the row count that sizes the outputs (and is reported for supplied outputs) is the number of (x, y, z) word triples the kernel
    # decodes: the length of the (-1, 3) view of the input, whatever layout (flat or (N, 3)) the caller passed
    inp_name = fn.args.args[0].arg
    shaped = False
    okN, whyN = False, 'no row count N = len(<input viewed as (-1, 3)>) found'
    for st in fn.body:
        if isinstance(st, ast.Assign) and len(st.targets) == 1 and unparse(st.targets[0]) == inp_name:
            shaped = unparse(st.value).replace(' ', '') in (f'{inp_name}.reshape(-1,3)', f'{inp_name}.reshape((-1,3))', f'np.reshape({inp_name},(-1,3))')
            continue
        if isinstance(st, ast.Assign) and len(st.targets) == 1 and unparse(st.targets[0]) == 'N':
            v = unparse(st.value).replace(' ', '')
            if v in (f'len({inp_name})', f'{inp_name}.shape[0]'):
                okN = shaped
                whyN = f'N = {unparse(st.value)} is taken ' + ('from the (-1, 3) view' if shaped else
                                                               'BEFORE the input is viewed as (-1, 3): a flat array of 3N words gives 3N rows, the outputs are allocated three times too long '
                                                               '(2N rows of uninitialised memory) and 3N particles are reported')
            elif v in (f'len({inp_name}.reshape(-1,3))', f'{inp_name}.size//3'):
                okN, whyN = True, f'N = {unparse(st.value)}'
            else:
                okN, whyN = False, f'N = {unparse(st.value)}'
            break
    chk.check(okN, 'C04-R7', BP, 'unpack_rvint', 'row count = number of word triples of the (-1, 3) view the kernel receives', whyN, whyN, node=fn)
    # the compiled kernel is called with the prepared buffers in the documented positions
    call = [n for n in walk_no_nested(fn) if isinstance(n, ast.Call) and dotted(n.func) == '_unpack_rvint']
    okc = len(call) == 1 and [unparse(x) for x in call[0].args] == ['intdata', 'boxsize', '_posout', '_velout']
    chk.check(okc, 'C04-R7', BP, 'unpack_rvint', 'kernel call argument order', 'intdata, boxsize, _posout, _velout',
              f'kernel called as {[unparse(x) for x in call[0].args] if call else None}', node=fn)
    # a preallocated output reaches the kernel as a VIEW of the caller's memory: an operation that may copy (reshape without copy=False,
    # ascontiguousarray, astype, ...) makes the kernel decode into a temporary that is dropped while N is still returned
    from ..core.idioms import supplied_output_reaches
    if call:
        for P_, pos_ in (('posout', 2), ('velout', 3)):
            if pos_ < len(call[0].args):
                okv_, why_ = supplied_output_reaches(fn, P_, call[0].args[pos_])
                chk.check(okv_, 'C04-R7', BP, 'unpack_rvint', f'a supplied {P_} reaches the kernel as a view of the caller\'s array (never a possible copy)', why_,
                          f'{why_}: for a layout that cannot be viewed as (-1, 3) the kernel fills a temporary, the caller\'s array stays unwritten and the particle count is '
                          'still returned (the .view() + shape assignment raised instead)', node=fn)
