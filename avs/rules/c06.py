"""C06 -- mass assignment conserves weight and applies the TSC/CIC kernel."""
import ast
from fractions import Fraction

from ..core.poly import Poly
from ..core.massassign import Scatter, tsc_ref, cic_ref, nonneg_on_half
from ..core.srcmodel import dotted, unparse, walk_no_nested, AnalysisError, names_in, norm

TSC = 'abacusnbody/analysis/tsc.py'
CIC = 'abacusnbody/analysis/cic.py'
PS = 'abacusnbody/analysis/power_spectrum.py'
FILES = [TSC, CIC, PS]


def table(chk, rel, q, kind):
    """Weight-name -> (axis, offset) and index-name -> (axis, offset) tables, with the rules R1-R6."""
    src = chk.src
    fn = src.func(rel, q)
    cases = [Scatter(fn, True), Scatter(fn, False)] if kind == 'cic' else [Scatter(fn, True)]
    S = cases[0]
    for s in cases:
        for node, txt in s.problems:
            chk.refuted('C06-R5', rel, q, f'unrecognised construct: {txt}', 'the kernel contains a statement outside the deposit idiom', node=node)
    # R1 geometry
    for a in range(3):
        p = S.p.get(a)
        g, x = Poly.sym(f'g{a}'), Poly.sym(f'x{a}')
        want = (x + (Poly.sym('offset') if S.offparam else 0)) * g / Poly.sym(S.box)
        ok = p is not None and p == want and a in S.i and a in S.dvar.values()
        chk.check(ok, 'C06-R1', rel, q, f'axis {a} geometry', f'p{a} = {p}; i{a} = round(p{a}); d{a} = i{a} - p{a}',
                  f'axis {a}: p = {p} (need {want}), round var {S.i.get(a)}, offset var {[k for k, v in S.dvar.items() if v == a]}',
                  node=S.loop, nf=str(p))
    # the integer type of the grid extents and cell indices holds ordinary axis lengths: np.int16(40000) wraps to -25536, the cell
    # scale g/box changes sign and every deposit lands in a mirrored cell (total conserved, so a sum check does not notice)
    narrow = []
    for n in walk_no_nested(fn):
        if isinstance(n, ast.Assign) and len(n.targets) == 1 and isinstance(n.targets[0], ast.Name) and isinstance(n.value, ast.Attribute) \
                and dotted(n.value) in ('np.int16', 'np.int8', 'np.uint16', 'np.uint8'):
            narrow.append(n)
        if isinstance(n, ast.Call) and dotted(n.func) in ('np.int16', 'np.int8', 'np.uint16', 'np.uint8') and n.args and \
                ('shape' in unparse(n.args[0]) or 'round' in unparse(n.args[0])):
            narrow.append(n)
    chk.check(not narrow, 'C06-R1', rel, q, 'grid extents and cell indices are held in an integer type of at least 32 bits', '',
              f'{unparse(narrow[0])[:50] if narrow else ""}: a 16-bit (or narrower) type wraps for an axis of 32768 cells or more (anisotropic grids, the (nx, ny, 1) '
              '2-D form): extents become negative or zero and the kernel is no longer centred on the particle', node=narrow[0] if narrow else fn, nontrivial=False)
    # R2/R3/R4 weights
    wtab = {}
    for name in S.weights:
        if name.endswith('@2d'):
            continue
        axis = None
        off = None
        okall = True
        got = []
        for s in cases:
            a, p, in3d = s.weights.get(name, (None, None, None))
            if a is not None:
                axis = a
        for s in cases:
            a, p, in3d = s.weights.get(name, (None, None, None))
            if p is None:
                okall = False
                continue
            pd = p.subst(f'd{axis}', Poly.sym('d')) if axis is not None else p
            got.append(str(pd))
            cands = [o for o in (-1, 0, 1) if pd == (tsc_ref(o) if kind == 'tsc' else cic_ref(o, s.case))]
            if not cands:
                okall = False
            elif off is None or (len(cands) == 1 and off not in cands):
                if off is not None and off not in cands:
                    okall = False
                off = cands[0] if len(cands) == 1 else (off if off in cands else cands[0])
        # resolve ambiguity of the zero arm: must be consistent with the non-zero case
        if kind == 'cic' and okall:
            for s in cases:
                a, p, _ = s.weights[name]
                pd = p.subst(f'd{axis}', Poly.sym('d')) if axis is not None else p
                if pd != cic_ref(off, s.case):
                    alt = [o for o in (-1, 0, 1) if all(
                        (ss.weights[name][1].subst(f'd{axis}', Poly.sym('d')) if axis is not None else ss.weights[name][1]) == cic_ref(o, ss.case)
                        for ss in cases)]
                    if alt:
                        off = alt[0]
                    else:
                        okall = False
        node = _defnode(fn, name)
        chk.check(okall and axis is not None and off is not None, 'C06-R2', rel, q, f'weight {name}',
                  f'axis {axis}, cell offset {off}: {" / ".join(got)}',
                  f'{name} = {" / ".join(got)} is not the {kind.upper()} kernel at any cell offset', node=node, nf=got)
        if okall and axis is not None and off is not None:
            wtab[name] = (axis, off)
            ref = [tsc_ref(off)] if kind == 'tsc' else [cic_ref(off, True), cic_ref(off, False)]
            ivs = [(Fraction(-1, 2), Fraction(1, 2))] if kind == 'tsc' else [(Fraction(0), Fraction(1, 2)), (Fraction(-1, 2), Fraction(0))]
            chk.check(all(nonneg_on_half(r, *iv) for r, iv in zip(ref, ivs)), 'C06-R4', rel, q, f'{name} >= 0 on |d| <= 1/2', '',
                      f'{name} can be negative for |d| <= 1/2', node=node, nontrivial=False)
    for a in range(3):
        names = [n for n, (ax, o) in wtab.items() if ax == a]
        offs = sorted(wtab[n][1] for n in names)
        for s in cases:
            tot = Poly.const(0)
            for n in names:
                tot = tot + s.weights[n][1]
            chk.check(offs == [-1, 0, 1] and tot == Poly.const(1), 'C06-R3', rel, q,
                      f'axis {a} partition of unity' + (f' (d{"" if s.case else "<="}{">" if s.case else ""}0)' if kind == 'cic' else ''),
                      f'{" + ".join(names)} == 1', f'weights {names} (offsets {offs}) sum to {tot}, not 1: weight is not conserved',
                      node=S.loop, nf=str(tot))
    # 2-D: wz == 1, iz == 0
    w2 = S.weights.get('wz@2d') or next((v for k, v in S.weights.items() if k.endswith('@2d')), None)
    i2 = next((v for k, v in S.index.items() if k.endswith('@2d')), None)
    chk.check(w2 is not None and w2[1] == Poly.const(1) and i2 is not None and i2[1] == 0, 'C06-R5', rel, q, '2-D case: wz = 1, iz = 0',
              '', f'2-D branch sets weight {w2} / index {i2}', node=S.loop, nontrivial=False)
    # R6 index table
    itab = {}
    for name, (a, o, bax, raw) in S.index.items():
        if name.endswith('@2d'):
            continue
        ok = a is not None and bax == a
        chk.check(ok, 'C06-R6', rel, q, f'index {name}', f'rightwrap(i{a}{o:+d}, g{a})' if a is not None else raw,
                  f'{name} = wrap({raw}) against grid axis {bax}: wrong axis or not i+o', node=_defnode(fn, name), nf=raw)
        if ok:
            itab[name] = (a, o)
    # R5 deposits
    seen = {}
    for node, idx, factors, in3d, op in S.deposits:
        key = f'density[{", ".join(idx)}]'
        if op != 'Add':
            chk.refuted('C06-R5', rel, q, key, f'deposit uses {op} instead of +=: earlier deposits into the cell are lost (not additive)', node=node)
            continue
        cells = [itab.get(n) for n in idx]
        ws = [wtab.get(f) for f in factors if f in wtab]
        wfac = [f for f in factors if f not in wtab]
        ok = len(cells) == 3 and None not in cells and [c[0] for c in cells] == [0, 1, 2]
        okw = sorted(ws) == sorted(cells) if ok else False
        okW = wfac == [S.Wname]
        triple = tuple(c[1] for c in cells) if ok else None
        ok3d = (triple is not None) and ((triple[2] == 0) == (in3d is False))
        dup = triple in seen
        if triple is not None:
            seen[triple] = node
        chk.check(ok and okw and okW and ok3d and not dup, 'C06-R5', rel, q, key,
                  f'cell offset {triple}, factors {factors}',
                  f'cell {cells} receives weights {ws} x {wfac} (3-D guard {in3d}); duplicate={dup}: index/weight mismatch',
                  node=node, nf=[idx, factors])
    want = {(a, b, c) for a in (-1, 0, 1) for b in (-1, 0, 1) for c in (-1, 0, 1)}
    missing = sorted(want - set(seen))
    chk.check(not missing, 'C06-R5', rel, q, 'all 27 cell offsets deposited once', f'{len(seen)} distinct offsets',
              f'cells never deposited: {missing[:5]}', node=S.loop)
    return S, wtab, itab


def _defnode(fn, name):
    for n in walk_no_nested(fn):
        if isinstance(n, ast.Assign) and isinstance(n.targets[0], ast.Name) and n.targets[0].id == name:
            return n
    return fn


def run(chk):
    src = chk.src
    chk.explanation = ('The per-axis weights of _tsc_scatter and cic_serial are normalised to exact polynomials in the sub-cell offset '
                       'd = round(p) - p and compared with the standard TSC / CIC assignment functions at cell offsets -1, 0, +1 '
                       '(CIC by case split on the sign of d); their sum is shown to be identically 1 (conservation) and each is '
                       'non-negative on |d| <= 1/2. The 27 deposit statements are matched index-by-index and weight-by-weight '
                       'against the offset table; the periodic index construction, the in-place wrap and the accumulate-into-'
                       'supplied-grid plumbing are checked structurally. Holds for every position, weight, grid shape and offset.')
    chk.rule('C06-R1', 'per axis: p = (x [+ offset]) * g/box, i = round(p), d = i - p, same axis for position, grid dimension and index', 6)
    chk.rule('C06-R2', 'each weight equals the standard kernel W(|d+o|) at a cell offset o', 18)
    chk.rule('C06-R3', 'partition of unity: the three weights of an axis sum to 1 identically', 9)
    chk.rule('C06-R4', 'weights are non-negative for |d| <= 1/2', 18)
    chk.rule('C06-R5', 'deposit table: += into the grid argument, index offsets match weight offsets, 27 distinct cells, 9 outside / 18 inside the 3-D guard', 58)
    chk.rule('C06-R6', 'periodic index for offset o on axis a is rightwrap(i_a + o, g_a)', 18)
    chk.rule('C06-R7', '_wrap_inplace: one +-box correction per component, tests >= box and < 0', 1)
    chk.rule('C06-R8', 'a supplied grid is accumulated into (never zeroed or replaced) and returned', 3)
    chk.rule('C06-R9', 'parallel front end: partition_parallel hands the kernel each particle with its own weight (obligations of C17-R2/R4: one cursor per particle, weights moved and sorted with positions)', 4)
    chk.assume('|round(x) - x| <= 1/2 (L6); float rounding not modelled')
    from . import c17
    chk.import_from(c17.run, 'C17', ('C17-R2', 'C17-R4'), 'C06-R9')
    # "the grid total equals the total weight ... x thread/partition settings": a deposit lost to a race between two stripes of one
    # pass breaks the total, so the write-set argument of C07 (stripe width, parity, phases, the axis that sizes the stripes) is an
    # obligation of this property too
    chk.rule('C06-R10', 'parallel front end: no accepted (nthread, npartition, coord) lets two concurrently painted stripes share a grid row (obligations of C07-P1..P7)', 8)
    from . import c07
    chk.import_from(c07.run, 'C07', ('C07-P1', 'C07-P2', 'C07-P3', 'C07-P4', 'C07-P5', 'C07-P6', 'C07-P7'), 'C06-R10')
    table(chk, TSC, '_tsc_scatter', 'tsc')
    table(chk, CIC, 'cic_serial', 'cic')
    helpers(chk)
    wrap_inplace(chk)
    plumbing(chk)


def helpers(chk):
    """rightwrap helpers: x >= L -> x - L, else x."""
    src = chk.src
    for rel, name in ((TSC, '_rightwrap'), (CIC, 'rightwrap')):
        fn = src.func(rel, name)
        a = [p.arg for p in fn.args.args]
        body = [s for s in fn.body if not (isinstance(s, ast.Expr) and isinstance(s.value, ast.Constant))]
        ok = (len(a) == 2 and len(body) == 2 and isinstance(body[0], ast.If)
              and norm(body[0].test) == norm(ast.parse(f'{a[0]} >= {a[1]}', mode='eval').body)
              and len(body[0].body) == 1 and isinstance(body[0].body[0], ast.Return)
              and norm(body[0].body[0].value) == norm(ast.parse(f'{a[0]} - {a[1]}', mode='eval').body)
              and isinstance(body[1], ast.Return) and norm(body[1].value) == norm(ast.parse(a[0], mode='eval').body))
        chk.check(ok, 'C06-R6', rel, name, 'helper summary x>=L -> x-L else x', '', f'{name} no longer subtracts one period exactly when x >= L', node=fn)


def wrap_inplace(chk):
    src = chk.src
    fn = src.func(TSC, '_wrap_inplace')
    a = [p.arg for p in fn.args.args]
    pos, box = a[0], a[1]
    txt = [unparse(s) for s in fn.body if isinstance(s, ast.For)]
    ok = False
    detail = ''
    loops = [s for s in fn.body if isinstance(s, ast.For)]
    if len(loops) == 1 and len(loops[0].body) == 1 and isinstance(loops[0].body[0], ast.For):
        inner = loops[0].body[0]
        i, j = loops[0].target.id, inner.target.id
        rng_ok = unparse(inner.iter) == 'range(3)' and unparse(loops[0].iter).endswith(f'prange(len({pos}))')
        if len(inner.body) == 1 and isinstance(inner.body[0], ast.If):
            iff = inner.body[0]
            el = f'{pos}[{i}, {j}]'
            t1 = unparse(iff.test) == f'{el} >= {box}'
            b1 = [unparse(s) for s in iff.body] == [f'{el} -= {box}']
            e = iff.orelse
            t2 = len(e) == 1 and isinstance(e[0], ast.If) and unparse(e[0].test) == f'{el} < 0' and \
                [unparse(s) for s in e[0].body] == [f'{el} += {box}'] and not e[0].orelse
            ok = rng_ok and t1 and b1 and t2
            detail = f'range ok={rng_ok} upper={t1 and b1} lower={t2}'
    chk.check(ok, 'C06-R7', TSC, '_wrap_inplace', 'periodic wrap of the three components', detail,
              f'_wrap_inplace does not apply exactly one +-box correction to each of 3 components ({detail})', node=fn)


def plumbing(chk):
    src = chk.src
    fn = src.func(TSC, 'tsc_parallel')
    # the grid parameter
    stores = [n for n in walk_no_nested(fn) if isinstance(n, ast.Assign) and any(isinstance(t, ast.Name) and t.id == 'densgrid' for t in n.targets)]
    bad = []
    for s in stores:
        # allowed: densgrid = (densgrid,)*3 under isinstance(int); densgrid = _zeros_parallel(densgrid) under isinstance(tuple)
        par = getattr(s, '_parent', None)
        guard = unparse(par.test) if isinstance(par, ast.If) else ''
        if not (guard.startswith('isinstance(densgrid') and ('tuple' in guard or 'int' in guard)):
            bad.append(unparse(s))
    calls = [n for n in walk_no_nested(fn) if isinstance(n, ast.Call) and dotted(n.func) == '_tsc_parallel']
    okc = len(calls) == 1 and len(calls[0].args) >= 3 and unparse(calls[0].args[2]) == 'densgrid'
    rets = [n for n in walk_no_nested(fn) if isinstance(n, ast.Return)]
    okr = len(rets) == 1 and unparse(rets[0].value) == 'densgrid'
    zero = [n for n in walk_no_nested(fn) if isinstance(n, (ast.Assign, ast.AugAssign)) and isinstance(
        (n.targets[0] if isinstance(n, ast.Assign) else n.target), ast.Subscript) and 'densgrid' in unparse(n.targets[0] if isinstance(n, ast.Assign) else n.target)]
    fills = [n for n in walk_no_nested(fn) if isinstance(n, ast.Call) and isinstance(n.func, ast.Attribute) and n.func.attr in ('fill',) and 'densgrid' in unparse(n.func.value)]
    chk.check(not bad and okc and okr and not zero and not fills, 'C06-R8', TSC, 'tsc_parallel', 'supplied grid flows unchanged to the kernel and to the return value',
              '', f'grid rebinding {bad}; kernel receives grid={okc}; returned={okr}; zeroing stores={len(zero) + len(fills)}', node=fn)
    k = src.func(TSC, '_tsc_parallel')
    a = [p.arg for p in k.args.args]
    calls = [n for n in walk_no_nested(k) if isinstance(n, ast.Call) and dotted(n.func) == '_tsc_scatter']
    ok = bool(calls) and all(len(c.args) >= 3 and unparse(c.args[1]) == a[2] and unparse(c.args[2]) == a[3] for c in calls) and \
        all({kw.arg: unparse(kw.value) for kw in c.keywords}.get('offset') == 'offset' for c in calls)
    okw = all(any(kw.arg == 'weights' for kw in c.keywords) for c in calls)
    chk.check(ok and okw, 'C06-R8', TSC, '_tsc_parallel', 'every stripe is painted into the same grid with the same box, offset and its weights',
              f'{len(calls)} calls', 'a stripe is painted into another array, or box/offset/weights are not forwarded', node=k)
    g = src.func(PS, 'get_field')
    calls = [n for n in walk_no_nested(g) if isinstance(n, ast.Call) and dotted(n.func) in ('tsc_parallel', 'cic_serial')]
    ok = len(calls) >= 2 and all(len(c.args) >= 3 and unparse(c.args[1]) == 'field' and unparse(c.args[2]) == 'Lbox' for c in calls) and \
        all({kw.arg: unparse(kw.value) for kw in c.keywords}.get('weights') == 'w' for c in calls)
    chk.check(ok, 'C06-R8', PS, 'get_field', 'both painters receive the same field, box and weights', f'{len(calls)} painter calls',
              'a painter is not given the field / box / weights of get_field', node=g)
