"""C14 -- Blosc block decompression is independent of how the stream is chunked."""
import ast
import struct

from ..core.srcmodel import dotted, unparse, walk_no_nested, AnalysisError, names_in, stores_in, norm

AS = 'abacusnbody/data/asdf.py'
FILES = [AS]
D = 'BloscCompressor.decompress'
C = 'BloscCompressor.compress'


def _at_least_one(e, known):
    """Is the integer expression >= 1 for every value of its variables?  `known` lists expression texts known to be >= 1 on this path.
    Forms: a literal >= 1; max(..) with such a member; a conditional expression whose arms are each >= 1 given its test
    (X if X > 0 else 1,  1 if X < 1 else X, ...)."""
    if isinstance(e, ast.Constant):
        return type(e.value) is int and e.value >= 1
    if unparse(e) in known:
        return True
    if isinstance(e, ast.Call) and dotted(e.func) == 'max' and not e.keywords and len(e.args) >= 2:
        return any(_at_least_one(a, known) for a in e.args)
    if isinstance(e, ast.Call) and dotted(e.func) in ('int', 'np.int64') and len(e.args) == 1 and not e.keywords:
        return _at_least_one(e.args[0], known)
    if isinstance(e, ast.IfExp):
        t = e.test
        yes, no = [], []
        if isinstance(t, ast.Compare) and len(t.ops) == 1:
            op, a, b = t.ops[0], t.left, t.comparators[0]
            ca = a.value if isinstance(a, ast.Constant) and type(a.value) is int else None
            cb = b.value if isinstance(b, ast.Constant) and type(b.value) is int else None
            # A > c (c >= 0), A >= c (c >= 1): A >= 1 in the true arm;  A < c (c <= 1), A <= c (c <= 0): A >= 1 in the false arm
            if cb is not None:
                if (isinstance(op, ast.Gt) and cb >= 0) or (isinstance(op, ast.GtE) and cb >= 1):
                    yes.append(unparse(a))
                if (isinstance(op, ast.Lt) and cb <= 1) or (isinstance(op, ast.LtE) and cb <= 0):
                    no.append(unparse(a))
            if ca is not None:
                if (isinstance(op, ast.Lt) and ca >= 0) or (isinstance(op, ast.LtE) and ca >= 1):
                    yes.append(unparse(b))
                if (isinstance(op, ast.Gt) and ca <= 1) or (isinstance(op, ast.GtE) and ca <= 0):
                    no.append(unparse(b))
        return _at_least_one(e.body, known + yes) and _at_least_one(e.orelse, known + no)
    return False


def _only_sym(l):
    """The symbol s if the linear form is exactly 1*s, else None."""
    t = getattr(l, 't', None)
    if t is not None and getattr(l, 'c', 0) == 0 and len(t) == 1 and list(t.values())[0] == 1:
        return list(t.keys())[0]
    return None


def _path_facts(stmt, stop):
    """Conjuncts known to hold at `stmt` from the if-tests between it and the loop `stop` (then-branch: the conjuncts of the test;
    else-branch: the negated disjuncts), as canonical text."""
    facts = []
    cur = stmt
    while cur is not None and cur is not stop:
        par = getattr(cur, '_parent', None)
        if isinstance(par, ast.If):
            t = par.test
            if any(cur is x for x in par.body):
                vals = t.values if isinstance(t, ast.BoolOp) and isinstance(t.op, ast.And) else [t]
                facts += [unparse(v) for v in vals]
            elif any(cur is x for x in par.orelse):
                vals = t.values if isinstance(t, ast.BoolOp) and isinstance(t.op, ast.Or) else [t]
                for v in vals:
                    if isinstance(v, ast.UnaryOp) and isinstance(v.op, ast.Not):
                        facts.append(unparse(v.operand))
                    elif isinstance(v, ast.Compare) and len(v.ops) == 1 and isinstance(v.ops[0], (ast.IsNot, ast.Is, ast.Eq, ast.NotEq)):
                        neg = {ast.IsNot: 'is', ast.Is: 'is not', ast.Eq: '!=', ast.NotEq: '=='}[type(v.ops[0])]
                        facts.append(f'{unparse(v.left)} {neg} {unparse(v.comparators[0])}')
                    else:
                        facts.append(f'not {unparse(v)}')
        cur = par
    return facts


def _buffer_trace(copy, dcs):
    """Symbolic run of the statement list that holds the buffer copy, up to the `if` that decompresses the buffered frame.
    Returns dict(copy=(lo, hi, m, _pos, _size, len(block)) at the copy, test=(left-right of the == test, _pos, _size) at the test,
    mins={symbol: [argument forms]})."""
    from ..core.lin import Lin
    blk = getattr(copy._parent, 'body', None)
    if blk is None or copy not in blk:
        return None
    env, mins, cnt = {}, {}, [0]
    out = dict(copy=None, test=None, mins=mins)

    def fresh(tag):
        cnt[0] += 1
        return Lin.sym(f'{tag}#{cnt[0]}')

    def get(name):
        return env.get(name, Lin.sym(name))

    def ev(e):
        if isinstance(e, ast.Constant) and type(e.value) is int:
            return Lin.const(e.value)
        if isinstance(e, ast.Name):
            return get(e.id)
        if isinstance(e, ast.Call) and dotted(e.func) == 'len' and len(e.args) == 1 and isinstance(e.args[0], ast.Name) and not e.keywords:
            return get(f'len({e.args[0].id})')
        if isinstance(e, ast.Call) and dotted(e.func) == 'min' and len(e.args) == 2 and not e.keywords:
            a = [ev(x) for x in e.args]
            if None in a:
                return None
            if a[0] == a[1]:
                return a[0]
            r = fresh('min')
            mins[_only_sym(r)] = a
            return r
        if isinstance(e, ast.BinOp) and isinstance(e.op, (ast.Add, ast.Sub)):
            a, b = ev(e.left), ev(e.right)
            if a is None or b is None:
                return None
            return a + b if isinstance(e.op, ast.Add) else a - b
        if isinstance(e, ast.UnaryOp) and isinstance(e.op, ast.USub):
            a = ev(e.operand)
            return a.scale(-1) if a is not None else None
        return None

    def assign(name, val_node):
        if name == 'block' and isinstance(val_node, ast.Subscript) and unparse(val_node.value) == 'block' and isinstance(val_node.slice, ast.Slice) \
                and val_node.slice.upper is None and val_node.slice.lower is not None and val_node.slice.step is None:
            n_ = ev(val_node.slice.lower)
            env['len(block)'] = get('len(block)') - n_ if n_ is not None else fresh('len')
            return
        v = ev(val_node)
        env[name] = v if v is not None else fresh(name)
        if name == 'block':
            env['len(block)'] = fresh('len')

    def run(stmts):
        for st in stmts:
            if isinstance(st, ast.Assign) and len(st.targets) == 1 and isinstance(st.targets[0], ast.Name):
                assign(st.targets[0].id, st.value)
            elif isinstance(st, ast.AugAssign) and isinstance(st.target, ast.Name) and isinstance(st.op, (ast.Add, ast.Sub)):
                v = ev(st.value)
                cur = get(st.target.id)
                env[st.target.id] = (cur + v if isinstance(st.op, ast.Add) else cur - v) if v is not None else fresh(st.target.id)
            elif st is copy:
                sl = st.targets[0].slice
                lo = hi = mv = None
                if isinstance(sl, ast.Slice) and sl.step is None and sl.lower is not None and sl.upper is not None:
                    lo, hi = ev(sl.lower), ev(sl.upper)
                pre = [x for x in ast.walk(st.value) if isinstance(x, ast.Subscript) and unparse(x.value) == 'block' and isinstance(x.slice, ast.Slice)
                       and x.slice.lower is None and x.slice.upper is not None and x.slice.step is None]
                if len(pre) == 1:
                    mv = ev(pre[0].slice.upper)
                out['copy'] = (lo, hi, mv, get('_pos'), get('_size'), get('len(block)'))
            elif isinstance(st, ast.If):
                if any(d in list(ast.walk(st)) for d in dcs if getattr(d, '_buffered', '_buffer' in unparse(d.value.args[0]))):
                    t = st.test
                    diff = None
                    if isinstance(t, ast.Compare) and len(t.ops) == 1 and isinstance(t.ops[0], ast.Eq):
                        a, b = ev(t.left), ev(t.comparators[0])
                        diff = a - b if a is not None and b is not None else None
                    out['test'] = (diff, get('_pos'), get('_size'))
                    return True
                # a conditional before the copy (buffer creation): names bound in it have an unknown common value afterwards
                for nm in stores_in(st):
                    env[nm] = fresh(nm)
                    if nm == 'block':
                        env['len(block)'] = fresh('len')
            elif isinstance(st, (ast.Expr, ast.Pass)):
                pass
            else:
                for nm in stores_in(st):
                    env[nm] = fresh(nm)
        return False
    run(blk)
    return out


def _split_constant_tuples(stmts):
    """`a, b, c = None, 0, 0` (constants only on the right) -> three assignments, in every nested statement list."""
    out = []
    for st in stmts:
        for f_ in ('body', 'orelse', 'finalbody'):
            v = getattr(st, f_, None)
            if isinstance(v, list) and v and isinstance(v[0], ast.stmt):
                setattr(st, f_, _split_constant_tuples(v))
        if isinstance(st, ast.Assign) and len(st.targets) == 1 and isinstance(st.targets[0], ast.Tuple) and isinstance(st.value, ast.Tuple) \
                and len(st.targets[0].elts) == len(st.value.elts) and all(isinstance(t, ast.Name) for t in st.targets[0].elts) \
                and all(isinstance(v, ast.Constant) for v in st.value.elts):
            for t, v in zip(st.targets[0].elts, st.value.elts):
                out.append(ast.copy_location(ast.Assign(targets=[ast.Name(id=t.id, ctx=ast.Store())], value=v, lineno=st.lineno), st))
        else:
            out.append(st)
    return out


def _merge_alloc_then_use(stmts):
    """`if _buffer is None and C: ALLOC` immediately followed by `if _buffer is not None: Y else: Z`, where ALLOC binds _buffer to a fresh
    array, is `if C or _buffer is not None: (if _buffer is None: ALLOC); Y  else: Z` (case split on _buffer is None x C; C does not read what
    ALLOC writes)."""
    for st in stmts:
        for f_ in ('body', 'orelse'):
            v = getattr(st, f_, None)
            if isinstance(v, list) and v and isinstance(v[0], ast.stmt):
                _merge_alloc_then_use(v)
    for i in range(len(stmts) - 1):
        a, b = stmts[i], stmts[i + 1]
        if not (isinstance(a, ast.If) and not a.orelse and isinstance(b, ast.If) and b.orelse and unparse(b.test) == '_buffer is not None'):
            continue
        t = a.test
        if not (isinstance(t, ast.BoolOp) and isinstance(t.op, ast.And) and len(t.values) == 2):
            continue
        vals = list(t.values)
        nb = [v for v in vals if unparse(v) == '_buffer is None']
        other = [v for v in vals if unparse(v) != '_buffer is None']
        if len(nb) != 1 or len(other) != 1:
            continue
        binds = [x for x in a.body if isinstance(x, ast.Assign) and unparse(x.targets[0]) == '_buffer' and isinstance(x.value, ast.Call)]
        written = set()
        for x in a.body:
            written |= stores_in(x)
        if len(binds) != 1 or written & names_in(other[0]):
            continue
        inner = ast.copy_location(ast.If(test=nb[0], body=a.body, orelse=[]), a)
        merged = ast.copy_location(ast.If(test=ast.BoolOp(op=ast.Or(), values=[other[0], b.test]), body=[inner] + b.body, orelse=b.orelse), a)
        stmts[i:i + 2] = [merged]
        return True
    return False


def _break_when_short(W):
    """In the last statement of the chunk loop: `if _pos < _size: break` followed by the frame completion, at the end of the buffered branch,
    is `if _pos == _size: <completion>`.  Lemma (its premises are the obligations of S2/S4, which are checked on the rewritten form): with
    m = min(_size - _pos, len(block)), _pos += m and block = block[m:], `_pos < _size` afterwards means m < _size - _pos_old, so m = len(block)
    and the chunk is exhausted: leaving the loop and falling through to its test `len(block)` are the same; and _pos <= _size always."""
    if not W.body or not isinstance(W.body[-1], ast.If) or unparse(W.test) != 'len(block)':
        return False
    last = W.body[-1]
    for blk in (last.body, last.orelse):
        for i, st in enumerate(blk):
            if isinstance(st, ast.If) and not st.orelse and len(st.body) == 1 and isinstance(st.body[0], ast.Break) \
                    and unparse(st.test).replace(' ', '') in ('_pos<_size', '_size>_pos', '_pos!=_size') and i + 1 < len(blk) \
                    and any(isinstance(x, ast.AugAssign) and unparse(x.target) == '_pos' for x in blk[:i]):
                rest = blk[i + 1:]
                eq = ast.Compare(left=ast.Name(id='_pos', ctx=ast.Load()), ops=[ast.Eq()], comparators=[ast.Name(id='_size', ctx=ast.Load())])
                blk[i:] = [ast.copy_location(ast.If(test=eq, body=rest, orelse=[]), st)]
                return True
    return False


def run(chk):
    src = chk.src
    dfn, cfn = src.func(AS, D), src.func(AS, C)
    from ..core.srcmodel import sink_optional_tail
    from ..core.hodpass import _relink
    for _ in range(3):
        if not sink_optional_tail(dfn.body):       # `frame = None; if ...: frame = ...; if frame is not None: <decompress tail>` -> tail in each arm
            break
    dfn.body = _split_constant_tuples(dfn.body)
    _merge_alloc_then_use(dfn.body)
    for w_ in [n for n in walk_no_nested(dfn) if isinstance(n, ast.While)]:
        _break_when_short(w_)
    ast.fix_missing_locations(dfn)
    _relink(dfn)
    chk.explanation = ('Chunk independence is a history property; decided here are the pairing/agreement conditions of the frame '
                       'reassembly machine that are necessary for it, on every path of the structured control flow: writer and reader '
                       'use one length-prefix format and every literal header length equals its size (S1); every prefix that is read '
                       'from the chunk is consumed by exactly that amount before the loop test (S2); every decompressed frame advances '
                       'the output cursor and resets the frame state (S3); the reassembly buffer cursor is bounded by the frame size and '
                       'the chunk (S4); the parser state is local to the call (S5); the writer emits one header per frame and its frames '
                       'tile the data (S6). That S1-S6 imply chunk independence is the hand argument of DESIGN.md C14.')
    chk.rule('C14-S1', 'one struct format for the length prefix in writer and reader; literal header lengths == calcsize(format)', 4)
    chk.rule('C14-S2', 'consume-what-you-read: each block[:n] is followed by block = block[n:] with the same n on the same path', 4)
    chk.rule('C14-S3', 'each decompress_ptr writes at out+bytesout, its result is added to bytesout, frame state (_size, buffered: _buffer) is reset', 2)
    chk.rule('C14-S4', 'buffer cursor: copy [_pos:_pos+m], _pos += m, m = min(_size-_pos, len(block)), complete iff _pos == _size, _pos zeroed and buffer sized _size at creation', 4)
    chk.rule('C14-S5', 'parser state (_size, _pos, _buffer, _partial_len) is local and initialised at entry', 1)
    chk.rule('C14-S6', 'writer: one header per compressed frame, payload slices [i:i+nelem] tile [0,len)', 2)
    chk.assume('blosc.compress / decompress_ptr themselves are not modelled')
    # ---- S1
    fmts = []
    for fn in (dfn, cfn):
        for n in walk_no_nested(fn):
            if isinstance(n, ast.Call) and dotted(n.func) in ('struct.pack', 'struct.unpack') and n.args and isinstance(n.args[0], ast.Constant):
                fmts.append((dotted(n.func), n.args[0].value, n))
            # int.from_bytes(x, 'big') of the 4 prefix bytes is the unsigned big-endian decode '!I' (the 4 comes from the literal lengths below)
            if isinstance(n, ast.Call) and dotted(n.func) == 'int.from_bytes' and len(n.args) == 2 and isinstance(n.args[1], ast.Constant):
                signed_ = any(k_.arg == 'signed' and not (isinstance(k_.value, ast.Constant) and k_.value.value is False) for k_ in n.keywords)
                fmts.append(('struct.unpack', {('big', False): '!I', ('little', False): '<I', ('big', True): '!i', ('little', True): '<i'}.get((n.args[1].value, signed_), '?'), n))
    packs = [f for f in fmts if f[0] == 'struct.pack']
    unpacks = [f for f in fmts if f[0] == 'struct.unpack']
    if not packs or not unpacks:
        raise AnalysisError('asdf.py: struct.pack / struct.unpack of the length prefix not found')
    allf = {f[1] for f in fmts}
    chk.check(len(allf) == 1, 'C14-S1', AS, 'BloscCompressor', 'writer and reader share the prefix format', f'{sorted(allf)} ({len(packs)} pack, {len(unpacks)} unpack)',
              f'length prefix formats differ: {[(f[0], f[1]) for f in fmts]}: the reader would mis-parse frame lengths', node=fmts[0][2])
    F = unpacks[0][1]
    try:
        hlen = struct.calcsize(F)
    except struct.error:
        raise AnalysisError(f'bad struct format {F!r}')
    okpack = all(len(p[2].args) == 2 and unparse(p[2].args[1]).startswith('len(') for p in packs)
    chk.check(okpack, 'C14-S1', AS, C, 'header packs the length of the compressed frame', '', 'writer header is not the length of the frame that follows', node=packs[0][2])
    # literal header lengths in the reader
    wl = [n for n in walk_no_nested(dfn) if isinstance(n, ast.While)]
    if len(wl) != 1:
        raise AnalysisError('decompress: chunk loop not recognised')
    W = wl[0]
    lits = []
    for n in walk_no_nested(W):
        if isinstance(n, ast.If) and '_size' in unparse(n.test) and unparse(n.test) in ('not _size', '_size == 0'):
            hdr = n
            for m in ast.walk(n):
                if isinstance(m, ast.Constant) and isinstance(m.value, int) and not isinstance(m.value, bool) and m.value > 1:
                    lits.append(m.value)
    chk.check(bool(lits) and set(lits) == {hlen}, 'C14-S1', AS, D, f'literal header lengths == calcsize({F!r}) = {hlen}', f'{lits}',
              f'header-length literals {lits} in the length-prefix code differ from the {hlen} bytes of format {F!r}', node=W)
    from ..core import copymap
    from ..core.lin import Lin
    ldefs = {}
    for n_ in walk_no_nested(dfn):
        if isinstance(n_, ast.Assign) and len(n_.targets) == 1 and isinstance(n_.targets[0], ast.Name):
            ldefs.setdefault(n_.targets[0].id, []).append(n_.value)
    ldefs1 = {k: v[0] for k, v in ldefs.items() if len(v) == 1}

    def bytes_len(a):
        """Length (Lin over len(<name>) symbols) of a bytes expression built from names, prefixes block[:n] and +."""
        if isinstance(a, ast.Name):
            return Lin.sym(f'len({a.id})')
        if isinstance(a, ast.Subscript) and isinstance(a.slice, ast.Slice) and a.slice.lower is None and a.slice.upper is not None and a.slice.step is None:
            return copymap.lin_of(a.slice.upper, ldefs1)      # a prefix of a chunk that is known to be long enough on this path
        if isinstance(a, ast.BinOp) and isinstance(a.op, ast.Add):
            x, y = bytes_len(a.left), bytes_len(a.right)
            return None if x is None or y is None else x + y
        return None
    for u in unpacks:
        a = u[2].args[1] if dotted(u[2].func) == 'struct.unpack' else u[2].args[0]      # int.from_bytes(x, 'big'): the bytes come first
        bl = bytes_len(a)
        # `_partial_len` alone is complete (== hlen) on the path where it is unpacked: checked by the fill logic (S2)
        okk = unparse(a) == '_partial_len' or (bl is not None and bl == Lin.const(hlen))
        chk.check(okk, 'C14-S1', AS, D, f'unpack reads exactly the {hlen}-byte prefix: {unparse(a)}', '', f'unpack argument {unparse(a)} is not the {hlen}-byte prefix', node=u[2], nontrivial=False)
    # ---- S2
    n_sites = 0

    def scan(stmts):
        nonlocal n_sites
        for i, s in enumerate(stmts):
            # nested blocks first
            if isinstance(s, ast.If):
                scan(s.body)
                scan(s.orelse)
                tests = [s.test]
            elif isinstance(s, (ast.While, ast.For)):
                scan(s.body)
                continue
            elif isinstance(s, ast.Try):
                scan(s.body)
                continue
            # prefix reads in this simple statement
            if isinstance(s, (ast.If,)):
                continue
            for n in ast.walk(s):
                if isinstance(n, ast.Subscript) and unparse(n.value) == 'block' and isinstance(n.slice, ast.Slice) \
                        and n.slice.lower is None and n.slice.upper is not None and isinstance(n.ctx, ast.Load):
                    n_sites += 1
                    E = norm(n.slice.upper)
                    found = None
                    for t in stmts[i + 1:]:
                        if isinstance(t, ast.Assign) and unparse(t.targets[0]) == 'block' and isinstance(t.value, ast.Subscript) \
                                and unparse(t.value.value) == 'block' and isinstance(t.value.slice, ast.Slice) and t.value.slice.upper is None \
                                and t.value.slice.lower is not None and norm(t.value.slice.lower) == E:
                            found = t
                            break
                        if stores_in(t) & names_in(n.slice.upper) or isinstance(t, (ast.Break, ast.Continue, ast.Return)):
                            break
                    chk.check(found is not None, 'C14-S2', AS, D, f'read block[:{unparse(n.slice.upper)}] then consume the same amount', '',
                              f'block[:{unparse(n.slice.upper)}] is read but the chunk is not advanced by the same amount on that path: bytes are re-read or skipped',
                              node=n)
    scan(W.body)
    # every advance corresponds to a read
    adv = [n for n in walk_no_nested(W) if isinstance(n, ast.Assign) and unparse(n.targets[0]) == 'block' and isinstance(n.value, ast.Subscript)
           and unparse(n.value.value) == 'block' and isinstance(n.value.slice, ast.Slice) and n.value.slice.upper is None and n.value.slice.lower is not None]
    chk.check(len(adv) == n_sites and n_sites >= 2, 'C14-S2', AS, D, 'every advance of the chunk pairs with one prefix read', f'{n_sites} reads / {len(adv)} advances',
              f'{n_sites} prefix reads but {len(adv)} advances of the chunk', node=W, nontrivial=False)
    # whole-chunk stash followed by break
    stash = [n for n in walk_no_nested(W) if isinstance(n, ast.AugAssign) and unparse(n.target) == '_partial_len' and unparse(n.value) == 'block']
    okst = len(stash) == 1
    if okst:
        par = stash[0]._parent
        idx = par.body.index(stash[0])
        okst = isinstance(par, ast.If) and len(par.body) > idx + 1 and isinstance(par.body[idx + 1], ast.Break)
        if okst:
            # the test must say: fewer than hlen bytes are available in total  (len(_partial_len) + len(block) < hlen), in any linear form
            t_ = par.test
            okst = False
            if isinstance(t_, ast.Compare) and len(t_.ops) == 1 and isinstance(t_.ops[0], (ast.Lt, ast.Gt)):
                l_, r_ = copymap.lin_of(t_.left, ldefs1), copymap.lin_of(t_.comparators[0], ldefs1)
                if l_ is not None and r_ is not None:
                    d_ = (r_ - l_) if isinstance(t_.ops[0], ast.Lt) else (l_ - r_)
                    okst = d_ == Lin.const(hlen) - Lin.sym('len(_partial_len)') - Lin.sym('len(block)')
    chk.check(okst, 'C14-S2', AS, D, 'short chunk: stash all of it in _partial_len and leave the loop', '',
              'the short-chunk path does not stash the whole chunk and break (bytes lost or loop does not terminate)', node=W)
    # the stashed length prefix is a one-shot state: on the path that decodes it (struct.unpack of _partial_len) it is emptied
    # again before the path leaves that statement list; otherwise the next frame's prefix is "completed" with 0 more bytes and
    # the old length is decoded again without consuming the new prefix
    dec = [n for n in walk_no_nested(W) if isinstance(n, ast.Assign) and any(isinstance(c_, ast.Call) and dotted(c_.func) in ('struct.unpack', 'int.from_bytes') and len(c_.args) == 2
                                                                            and any(isinstance(x_, ast.Name) and x_.id == '_partial_len' for x_ in ast.walk(c_.args[1] if dotted(c_.func) == 'struct.unpack' else c_.args[0]))
                                                                            for c_ in ast.walk(n.value))]
    for d_ in dec:
        blk_ = getattr(d_._parent, 'body', []) if d_ in getattr(d_._parent, 'body', []) else getattr(d_._parent, 'orelse', [])
        after_ = blk_[blk_.index(d_) + 1:] if d_ in blk_ else []
        okclr = any(isinstance(x, ast.Assign) and unparse(x.targets[0]) == '_partial_len' and unparse(x.value) in ("b''", 'b""', 'bytes()') for x in after_)
        chk.check(okclr, 'C14-S2', AS, D, 'the stashed prefix is emptied on the path that decodes it', '',
                  'after `_size = struct.unpack(..., _partial_len)` the stash is not emptied in the same statement list: when the frame then takes the direct path '
                  '(complete in this chunk) the stale 4 bytes survive, the next prefix is "completed" with 0 bytes and the previous length is decoded again', node=d_)
    if not dec and any(isinstance(x_, ast.AugAssign) and unparse(x_.target) == '_partial_len' for x_ in walk_no_nested(W)):
        raise AnalysisError('decompress: bytes are stashed in _partial_len but the stash is never decoded')
    # ---- S3
    dcs = [n for n in walk_no_nested(W) if isinstance(n, ast.Assign) and isinstance(n.value, ast.Call) and dotted(n.value.func) == 'blosc.decompress_ptr']
    if len(dcs) < 1:
        raise AnalysisError('decompress: no decompress_ptr call')
    for d in dcs:
        res = unparse(d.targets[0])
        blk = d._parent.body if hasattr(d._parent, 'body') and d in getattr(d._parent, 'body', []) else d._parent.orelse
        i = blk.index(d)
        rest = blk[i + 1:]
        dest = unparse(d.value.args[1]) if len(d.value.args) > 1 else ''
        okd = dest == 'out + bytesout'
        okb = any(isinstance(s, ast.AugAssign) and unparse(s.target) == 'bytesout' and isinstance(s.op, ast.Add) and unparse(s.value) == res for s in rest)
        oks = any(isinstance(s, ast.Assign) and unparse(s.targets[0]) == '_size' and unparse(s.value) == '0' for s in rest)
        # the source may have been given a name earlier in the same block (frame = _buffer / frame = block[:_size])
        srcarg = d.value.args[0]
        inner = srcarg.args[0] if isinstance(srcarg, ast.Call) and dotted(srcarg.func) == 'memoryview' and len(srcarg.args) == 1 else srcarg
        captured_at = None
        if isinstance(inner, ast.Name):
            defs_ = [(k_, s_) for k_, s_ in enumerate(blk[:i]) if isinstance(s_, ast.Assign) and len(s_.targets) == 1 and unparse(s_.targets[0]) == inner.id]
            if len(defs_) == 1 and not any(inner.id in stores_in(s_) for s_ in blk[defs_[0][0] + 1:i]):
                captured_at, inner = defs_[0][0], defs_[0][1].value
        srctxt = f'memoryview({unparse(inner)})' if isinstance(srcarg, ast.Call) else unparse(inner)
        buffered = '_buffer' in srctxt
        d._buffered = buffered
        resets = [k_ for k_, s_ in enumerate(blk) if isinstance(s_, ast.Assign) and unparse(s_.targets[0]) == '_buffer' and unparse(s_.value) == 'None']
        # the buffer is released on this path: after the call, or before it once the call's source holds the buffer under another name
        okbuf = (not buffered) or any(k_ > i for k_ in resets) or (captured_at is not None and any(captured_at < k_ < i for k_ in resets))
        srcok = buffered or srctxt == 'memoryview(block[:_size])'
        if not buffered and captured_at is not None:
            # the chunk may be advanced between the capture and the call, but _size may not change
            srcok = srcok and not any('_size' in stores_in(s_) for s_ in blk[captured_at + 1:i])
        chk.check(okd and okb and oks and okbuf and srcok, 'C14-S3', AS, D, f'frame completion ({"buffered" if buffered else "direct"})', '',
                  f'after decompress_ptr: dest={dest!r} (ok={okd}), bytesout advanced={okb}, _size reset={oks}, buffer released={okbuf}, source={srctxt}',
                  node=d)
        if not buffered:
            # typestate of the reassembly buffer: a frame decompressed straight from the chunk finishes the frame (_size = 0) without touching
            # _buffer, so no buffer may be live on that path -- otherwise the NEXT frame that is cut by a chunk boundary finds `_buffer is not
            # None`, skips the allocation and is copied into an array sized for an earlier frame.  The guards of the path must give `_buffer is None`
            # (or the path releases the buffer itself).
            facts = _path_facts(blk[i], W)
            none_txt = ('_buffer is None', 'not _buffer is not None', '_buffer == None')
            okts = any(f in none_txt for f in facts) or bool(resets)
            chk.check(okts, 'C14-S3', AS, D, 'direct decompression only when no reassembly buffer is live (the buffer in use was sized for the current frame)',
                      f'path guards: {facts[:4]}',
                      f'the direct branch is reached under {facts[:4]}, which does not give `_buffer is None`, and it does not release the buffer: a buffer allocated for this '
                      'frame (e.g. an empty one, when a chunk ended right behind the length prefix) stays live after `_size = 0`; the next frame split across chunks is '
                      'copied into that stale buffer of another frame\'s size (broadcast error or a truncated frame): the result depends on how the stream is chunked', node=d)
    # ---- S4
    copy = [n for n in walk_no_nested(W) if isinstance(n, ast.Assign) and isinstance(n.targets[0], ast.Subscript) and unparse(n.targets[0].value) == '_buffer']
    # The buffered branch is executed symbolically as straight-line integer code (values are linear forms over the values at the
    # entry of the branch; min(a, b) is an uninterpreted symbol that remembers its arguments), so that the cursor rules are
    # decided on values, not on the spelling of the statements.
    tr = _buffer_trace(copy[0], dcs) if len(copy) == 1 else None
    ok4 = tr is not None and tr['copy'] is not None
    m = None
    if ok4:
        lo, hi, mv, pos_c, size_c, lenb_c = tr['copy']
        m = hi - lo if hi is not None and lo is not None else None
        ok4 = lo is not None and m is not None and mv is not None and lo == pos_c and m == mv
    chk.check(ok4, 'C14-S4', AS, D, 'buffer copy _buffer[_pos:_pos+m] = block[:m]', f'm = {m}', 'the buffered copy does not place block[:m] at [_pos:_pos+m]', node=copy[0] if copy else W)
    okm = False
    mtxt = None
    if ok4:
        args = tr['mins'].get(_only_sym(m))
        mtxt = [str(a) for a in args] if args else str(m)
        okm = args is not None and len(args) == 2 and ((args[0] == size_c - pos_c and args[1] == lenb_c) or (args[1] == size_c - pos_c and args[0] == lenb_c))
    chk.check(okm, 'C14-S4', AS, D, 'm = min(_size - _pos, len(block))', '', f'm is {mtxt}: the copy can run past the frame or past the chunk', node=copy[0] if copy else W)
    okadv = okcomp = False
    if ok4 and tr['test'] is not None:
        diff, pos_t, size_t = tr['test']
        okadv = pos_t == pos_c + m and size_t == size_c
        okcomp = diff is not None and (diff == pos_t - size_t or diff == size_t - pos_t)
    chk.check(okadv and okcomp, 'C14-S4', AS, D, '_pos += m; frame complete iff _pos == _size', '', f'cursor advance ok={okadv}, completion test ok={okcomp}', node=W)
    mk = [n for n in walk_no_nested(W) if isinstance(n, ast.Assign) and unparse(n.targets[0]) == '_buffer' and isinstance(n.value, ast.Call)]
    okmk = len(mk) == 1 and unparse(mk[0].value.args[0]) == '_size'
    if okmk:
        blk = mk[0]._parent.body
        okmk = any(isinstance(s, ast.Assign) and unparse(s.targets[0]) == '_pos' and unparse(s.value) == '0' for s in blk) and \
            isinstance(mk[0]._parent, ast.If) and unparse(mk[0]._parent.test) == '_buffer is None'
    if not okmk and len(mk) == 1 and unparse(mk[0].value.args[0]) == '_size' and isinstance(mk[0]._parent, ast.If) and unparse(mk[0]._parent.test) == '_buffer is None':
        # the cursor is not zeroed at creation: then `_buffer is None` must imply `_pos == 0`: zero at entry, zeroed in every statement list that
        # releases the buffer, and advanced only where a buffer exists (the copy's own statement list)
        rel = [n for n in walk_no_nested(dfn) if isinstance(n, ast.Assign) and unparse(n.targets[0]) == '_buffer' and unparse(n.value) == 'None']
        entry0 = any(isinstance(s_, ast.Assign) and unparse(s_.targets[0]) == '_pos' and unparse(s_.value) == '0' for s_ in dfn.body)
        rewound = all(any(isinstance(s_, ast.Assign) and unparse(s_.targets[0]) == '_pos' and unparse(s_.value) == '0' for s_ in getattr(n._parent, 'body', []) + getattr(n._parent, 'orelse', []))
                      for n in rel if n._parent is not dfn)
        pos_stores = [n for n in walk_no_nested(W) if isinstance(n, (ast.Assign, ast.AugAssign)) and '_pos' in stores_in(n)]
        copy_blk = copy[0]._parent.body if len(copy) == 1 else []
        only_buffered = all(unparse(getattr(n, 'value', None)) == '0' and isinstance(n, ast.Assign) or any(n is x for x in copy_blk) for n in pos_stores)
        okmk = entry0 and rewound and only_buffered and bool(rel)
    chk.check(okmk, 'C14-S4', AS, D, 'buffer created with _size bytes and _pos = 0, only when none is active', '', 'buffer creation does not size the buffer by the frame length / zero the cursor', node=mk[0] if mk else W)
    def _choice(t):
        vals = [unparse(v).replace(' ', '') for v in (t.values if isinstance(t, ast.BoolOp) and isinstance(t.op, ast.Or) else [t])]
        return len(vals) == 2 and '_bufferisnotNone' in vals and any(v in vals for v in ('len(block)<_size', '_size>len(block)', 'notlen(block)>=_size'))
    usebuf = [n for n in walk_no_nested(W) if isinstance(n, ast.If) and _choice(n.test)]
    chk.check(len(usebuf) == 1, 'C14-S4', AS, D, 'buffered path taken iff the frame is incomplete in this chunk or a buffer is active', '',
              'the choice between buffered and direct decompression changed: a partially buffered frame could be decompressed directly', node=W, nontrivial=False)
    # ---- S5
    state = {'_size': '0', '_pos': '0', '_buffer': 'None', '_partial_len': "b''"}
    init = {unparse(s.targets[0]): unparse(s.value) for s in dfn.body if isinstance(s, ast.Assign) and len(s.targets) == 1}
    selfst = [unparse(n) for n in walk_no_nested(dfn) if isinstance(n, ast.Attribute) and isinstance(n.value, ast.Name) and n.value.id == 'self'
              and n.attr in ('_size', '_pos', '_buffer', '_partial_len')]
    chk.check(all(init.get(k) == v for k, v in state.items()) and not selfst, 'C14-S5', AS, D, 'state is per call', f'{ {k: init.get(k) for k in state} }',
              f'parser state initialisation {dict((k, init.get(k)) for k in state)} / kept on self: {selfst}: a second stream would start mid-frame', node=dfn)
    # ---- S6
    loops = [n for n in walk_no_nested(cfn) if isinstance(n, ast.For)]
    from ..core.srcmodel import single_defs, expand_names
    cdefs = single_defs(cfn)
    ok6 = len(loops) == 1
    step = None
    if ok6:
        # the frames are cut either in the loop header (for i in range(0, len(data), step): ... data[i:i+step]) or by a generator /
        # list of slices that the loop walks (for piece in (data[i:i+step] for i in range(0, len(data), step)): ... piece)
        it = loops[0].iter
        if isinstance(it, ast.Name) and it.id in cdefs:
            it = cdefs[it.id]
        cc = [n for n in ast.walk(loops[0]) if isinstance(n, ast.Call) and dotted(n.func) == 'blosc.compress']
        rng, cut = None, None
        if isinstance(it, ast.Call) and dotted(it.func) == 'range' and isinstance(loops[0].target, ast.Name) and len(cc) == 1 and cc[0].args:
            rng, ivar, cut = it, loops[0].target.id, cc[0].args[0]
        elif isinstance(it, (ast.GeneratorExp, ast.ListComp)) and len(it.generators) == 1 and not it.generators[0].ifs and isinstance(it.generators[0].target, ast.Name) \
                and isinstance(it.generators[0].iter, ast.Call) and dotted(it.generators[0].iter.func) == 'range' and isinstance(loops[0].target, ast.Name) \
                and len(cc) == 1 and cc[0].args and unparse(cc[0].args[0]) == loops[0].target.id:
            rng, ivar, cut = it.generators[0].iter, it.generators[0].target.id, it.elt
        ok6 = rng is not None and len(rng.args) == 3 and not rng.keywords
        if ok6:
            a = rng.args
            step = unparse(a[2])
            ok6 = unparse(a[0]) == '0' and unparse(a[1]) == 'len(data)' and unparse(cut) == f'data[{ivar}:{ivar} + {step}]'
    chk.check(ok6, 'C14-S6', AS, C, 'frames data[i:i+nelem], i = 0, nelem, ... tile the data', f'step {step}', 'writer frames do not tile the input', node=loops[0] if loops else cfn)
    # the frame length is at least one item for every block size (a step of 0 makes range() raise before anything is written)
    if ok6:
        sd = [n for n in walk_no_nested(cfn) if isinstance(n, ast.Assign) and len(n.targets) == 1 and unparse(n.targets[0]) == step]
        v = sd[-1].value if sd else None
        why = f'{step} = {unparse(v) if v is not None else None}'
        pos = v is not None and _at_least_one(expand_names(v, {k: d for k, d in cdefs.items() if k != step}), [])
        if v is not None and not pos:
            # x // y + 1, (x + y - 1) // y with a guard ... : only the explicit forms are recognised; a bare floor division can be 0
            guards = [n for n in walk_no_nested(cfn) if isinstance(n, (ast.If, ast.Assert)) and step in unparse(n.test) and n.lineno > sd[-1].lineno
                      and n.lineno < loops[0].lineno]
            for g in guards:
                t = unparse(g.test).replace(' ', '')
                if isinstance(g, ast.Assert) and t in (f'{step}>=1', f'{step}>0'):
                    pos = True
                if isinstance(g, ast.If) and t in (f'{step}<1', f'{step}<=0', f'{step}==0', f'not{step}') and g.body and \
                        (isinstance(g.body[-1], ast.Raise) or (isinstance(g.body[-1], ast.Assign) and unparse(g.body[-1].targets[0]) == step
                                                               and isinstance(g.body[-1].value, ast.Constant) and g.body[-1].value.value >= 1)):
                    pos = True
        chk.check(pos, 'C14-S6', AS, C, 'frame length in items is at least 1 for every block size and item size', why,
                  f'{why}: for compression_block_size < itemsize the step of the frame loop is 0 and range() raises ValueError before any frame is written '
                  '(compress is not the identity for "any ... item size and compression block size")', node=sd[-1] if sd else loops[0], nontrivial=False)
    ys = [n for n in walk_no_nested(cfn) if isinstance(n, ast.Yield)]
    oky = len(ys) == 1 and unparse(ys[0].value) == 'header + compressed' and any(ys[0] in list(ast.walk(l)) for l in loops)
    chk.check(oky, 'C14-S6', AS, C, 'one header immediately before each compressed frame', '', f'writer yields {unparse(ys[0].value) if ys else None}', node=ys[0] if ys else cfn)
