"""C14 -- Blosc block decompression is independent of how the stream is chunked."""
import ast
import struct

from ..core.srcmodel import dotted, unparse, walk_no_nested, AnalysisError, names_in, stores_in, norm

AS = 'abacusnbody/data/asdf.py'
FILES = [AS]
D = 'BloscCompressor.decompress'
C = 'BloscCompressor.compress'


def run(chk):
    src = chk.src
    dfn, cfn = src.func(AS, D), src.func(AS, C)
    chk.explanation = ('Chunk independence is a history property; decided here are the pairing/agreement conditions of the frame '
                       'reassembly machine that are necessary for it, on every path of the structured control flow: writer and reader '
                       'use one length-prefix format and every literal header length equals its size (S1); every prefix that is read '
                       'from the chunk is consumed by exactly that amount before the loop test (S2); every decompressed frame advances '
                       'the output cursor and resets the frame state (S3); the reassembly buffer cursor is bounded by the frame size and '
                       'the chunk (S4); the parser state is local to the call (S5); the writer emits one header per frame and its frames '
                       'tile the data (S6). That S1-S6 imply chunk independence is the hand argument of DESIGN.md C14.')
    chk.rule('C14-S1', 'one struct format for the length prefix in writer and reader; literal header lengths == calcsize(format)', 4)
    chk.rule('C14-S2', 'consume-what-you-read: each block[:n] is followed by block = block[n:] with the same n on the same path', 4)
    chk.rule('C14-S3', 'each decompress_ptr writes at out+bytesout, its result is added to bytesout, frame state (_size, buffered: _buffer) is reset', 2)
    chk.rule('C14-S4', 'buffer cursor: copy [_pos:_pos+m], _pos += m, m = min(_size-_pos, len(block)), complete iff _pos == _size, _pos zeroed and buffer sized _size at creation', 4)
    chk.rule('C14-S5', 'parser state (_size, _pos, _buffer, _partial_len) is local and initialised at entry', 1)
    chk.rule('C14-S6', 'writer: one header per compressed frame, payload slices [i:i+nelem] tile [0,len)', 2)
    chk.assume('blosc.compress / decompress_ptr themselves are not modelled')
    # ---- S1
    fmts = []
    for fn in (dfn, cfn):
        for n in walk_no_nested(fn):
            if isinstance(n, ast.Call) and dotted(n.func) in ('struct.pack', 'struct.unpack') and n.args and isinstance(n.args[0], ast.Constant):
                fmts.append((dotted(n.func), n.args[0].value, n))
    packs = [f for f in fmts if f[0] == 'struct.pack']
    unpacks = [f for f in fmts if f[0] == 'struct.unpack']
    if not packs or not unpacks:
        raise AnalysisError('asdf.py: struct.pack / struct.unpack of the length prefix not found')
    allf = {f[1] for f in fmts}
    chk.check(len(allf) == 1, 'C14-S1', AS, 'BloscCompressor', 'writer and reader share the prefix format', f'{sorted(allf)} ({len(packs)} pack, {len(unpacks)} unpack)',
              f'length prefix formats differ: {[(f[0], f[1]) for f in fmts]}: the reader would mis-parse frame lengths', node=fmts[0][2])
    F = unpacks[0][1]
    try:
        hlen = struct.calcsize(F)
    except struct.error:
        raise AnalysisError(f'bad struct format {F!r}')
    okpack = all(len(p[2].args) == 2 and unparse(p[2].args[1]).startswith('len(') for p in packs)
    chk.check(okpack, 'C14-S1', AS, C, 'header packs the length of the compressed frame', '', 'writer header is not the length of the frame that follows', node=packs[0][2])
    # literal header lengths in the reader
    wl = [n for n in walk_no_nested(dfn) if isinstance(n, ast.While)]
    if len(wl) != 1:
        raise AnalysisError('decompress: chunk loop not recognised')
    W = wl[0]
    lits = []
    for n in walk_no_nested(W):
        if isinstance(n, ast.If) and '_size' in unparse(n.test) and unparse(n.test) in ('not _size', '_size == 0'):
            hdr = n
            for m in ast.walk(n):
                if isinstance(m, ast.Constant) and isinstance(m.value, int) and not isinstance(m.value, bool) and m.value > 1:
                    lits.append(m.value)
    chk.check(bool(lits) and set(lits) == {hlen}, 'C14-S1', AS, D, f'literal header lengths == calcsize({F!r}) = {hlen}', f'{lits}',
              f'header-length literals {lits} in the length-prefix code differ from the {hlen} bytes of format {F!r}', node=W)
    from ..core import copymap
    from ..core.lin import Lin
    ldefs = {}
    for n_ in walk_no_nested(dfn):
        if isinstance(n_, ast.Assign) and len(n_.targets) == 1 and isinstance(n_.targets[0], ast.Name):
            ldefs.setdefault(n_.targets[0].id, []).append(n_.value)
    ldefs1 = {k: v[0] for k, v in ldefs.items() if len(v) == 1}

    def bytes_len(a):
        """Length (Lin over len(<name>) symbols) of a bytes expression built from names, prefixes block[:n] and +."""
        if isinstance(a, ast.Name):
            return Lin.sym(f'len({a.id})')
        if isinstance(a, ast.Subscript) and isinstance(a.slice, ast.Slice) and a.slice.lower is None and a.slice.upper is not None and a.slice.step is None:
            return copymap.lin_of(a.slice.upper, ldefs1)      # a prefix of a chunk that is known to be long enough on this path
        if isinstance(a, ast.BinOp) and isinstance(a.op, ast.Add):
            x, y = bytes_len(a.left), bytes_len(a.right)
            return None if x is None or y is None else x + y
        return None
    for u in unpacks:
        a = u[2].args[1]
        bl = bytes_len(a)
        # `_partial_len` alone is complete (== hlen) on the path where it is unpacked: checked by the fill logic (S2)
        okk = unparse(a) == '_partial_len' or (bl is not None and bl == Lin.const(hlen))
        chk.check(okk, 'C14-S1', AS, D, f'unpack reads exactly the {hlen}-byte prefix: {unparse(a)}', '', f'unpack argument {unparse(a)} is not the {hlen}-byte prefix', node=u[2], nontrivial=False)
    # ---- S2
    n_sites = 0

    def scan(stmts):
        nonlocal n_sites
        for i, s in enumerate(stmts):
            # nested blocks first
            if isinstance(s, ast.If):
                scan(s.body)
                scan(s.orelse)
                tests = [s.test]
            elif isinstance(s, (ast.While, ast.For)):
                scan(s.body)
                continue
            elif isinstance(s, ast.Try):
                scan(s.body)
                continue
            # prefix reads in this simple statement
            if isinstance(s, (ast.If,)):
                continue
            for n in ast.walk(s):
                if isinstance(n, ast.Subscript) and unparse(n.value) == 'block' and isinstance(n.slice, ast.Slice) \
                        and n.slice.lower is None and n.slice.upper is not None and isinstance(n.ctx, ast.Load):
                    n_sites += 1
                    E = norm(n.slice.upper)
                    found = None
                    for t in stmts[i + 1:]:
                        if isinstance(t, ast.Assign) and unparse(t.targets[0]) == 'block' and isinstance(t.value, ast.Subscript) \
                                and unparse(t.value.value) == 'block' and isinstance(t.value.slice, ast.Slice) and t.value.slice.upper is None \
                                and t.value.slice.lower is not None and norm(t.value.slice.lower) == E:
                            found = t
                            break
                        if stores_in(t) & names_in(n.slice.upper) or isinstance(t, (ast.Break, ast.Continue, ast.Return)):
                            break
                    chk.check(found is not None, 'C14-S2', AS, D, f'read block[:{unparse(n.slice.upper)}] then consume the same amount', '',
                              f'block[:{unparse(n.slice.upper)}] is read but the chunk is not advanced by the same amount on that path: bytes are re-read or skipped',
                              node=n)
    scan(W.body)
    # every advance corresponds to a read
    adv = [n for n in walk_no_nested(W) if isinstance(n, ast.Assign) and unparse(n.targets[0]) == 'block' and isinstance(n.value, ast.Subscript)
           and unparse(n.value.value) == 'block' and isinstance(n.value.slice, ast.Slice) and n.value.slice.upper is None and n.value.slice.lower is not None]
    chk.check(len(adv) == n_sites and n_sites >= 2, 'C14-S2', AS, D, 'every advance of the chunk pairs with one prefix read', f'{n_sites} reads / {len(adv)} advances',
              f'{n_sites} prefix reads but {len(adv)} advances of the chunk', node=W, nontrivial=False)
    # whole-chunk stash followed by break
    stash = [n for n in walk_no_nested(W) if isinstance(n, ast.AugAssign) and unparse(n.target) == '_partial_len' and unparse(n.value) == 'block']
    okst = len(stash) == 1
    if okst:
        par = stash[0]._parent
        idx = par.body.index(stash[0])
        okst = isinstance(par, ast.If) and len(par.body) > idx + 1 and isinstance(par.body[idx + 1], ast.Break)
        if okst:
            # the test must say: fewer than hlen bytes are available in total  (len(_partial_len) + len(block) < hlen), in any linear form
            t_ = par.test
            okst = False
            if isinstance(t_, ast.Compare) and len(t_.ops) == 1 and isinstance(t_.ops[0], (ast.Lt, ast.Gt)):
                l_, r_ = copymap.lin_of(t_.left, ldefs1), copymap.lin_of(t_.comparators[0], ldefs1)
                if l_ is not None and r_ is not None:
                    d_ = (r_ - l_) if isinstance(t_.ops[0], ast.Lt) else (l_ - r_)
                    okst = d_ == Lin.const(hlen) - Lin.sym('len(_partial_len)') - Lin.sym('len(block)')
    chk.check(okst, 'C14-S2', AS, D, 'short chunk: stash all of it in _partial_len and leave the loop', '',
              'the short-chunk path does not stash the whole chunk and break (bytes lost or loop does not terminate)', node=W)
    # ---- S3
    dcs = [n for n in walk_no_nested(W) if isinstance(n, ast.Assign) and isinstance(n.value, ast.Call) and dotted(n.value.func) == 'blosc.decompress_ptr']
    if len(dcs) < 1:
        raise AnalysisError('decompress: no decompress_ptr call')
    for d in dcs:
        res = unparse(d.targets[0])
        blk = d._parent.body if hasattr(d._parent, 'body') and d in getattr(d._parent, 'body', []) else d._parent.orelse
        i = blk.index(d)
        rest = blk[i + 1:]
        dest = unparse(d.value.args[1]) if len(d.value.args) > 1 else ''
        okd = dest == 'out + bytesout'
        okb = any(isinstance(s, ast.AugAssign) and unparse(s.target) == 'bytesout' and isinstance(s.op, ast.Add) and unparse(s.value) == res for s in rest)
        oks = any(isinstance(s, ast.Assign) and unparse(s.targets[0]) == '_size' and unparse(s.value) == '0' for s in rest)
        buffered = '_buffer' in unparse(d.value.args[0])
        okbuf = (not buffered) or any(isinstance(s, ast.Assign) and unparse(s.targets[0]) == '_buffer' and unparse(s.value) == 'None' for s in rest)
        srcok = buffered or unparse(d.value.args[0]) == 'memoryview(block[:_size])'
        chk.check(okd and okb and oks and okbuf and srcok, 'C14-S3', AS, D, f'frame completion ({"buffered" if buffered else "direct"})', '',
                  f'after decompress_ptr: dest={dest!r} (ok={okd}), bytesout advanced={okb}, _size reset={oks}, buffer released={okbuf}, source={unparse(d.value.args[0])}',
                  node=d)
    # ---- S4
    copy = [n for n in walk_no_nested(W) if isinstance(n, ast.Assign) and isinstance(n.targets[0], ast.Subscript) and unparse(n.targets[0].value) == '_buffer']
    ok4 = len(copy) == 1
    m = None
    if ok4:
        sl = copy[0].targets[0].slice
        ok4 = isinstance(sl, ast.Slice) and unparse(sl.lower) == '_pos' and isinstance(sl.upper, ast.BinOp) and unparse(sl.upper.left) == '_pos'
        m = unparse(sl.upper.right) if ok4 else None
        ok4 = ok4 and f'block[:{m}]' in unparse(copy[0].value)
    chk.check(ok4, 'C14-S4', AS, D, 'buffer copy _buffer[_pos:_pos+m] = block[:m]', f'm = {m}', 'the buffered copy does not place block[:m] at [_pos:_pos+m]', node=copy[0] if copy else W)
    mdef = [n for n in walk_no_nested(W) if isinstance(n, ast.Assign) and unparse(n.targets[0]) == (m or '?')]
    okm = len(mdef) == 1 and isinstance(mdef[0].value, ast.Call) and dotted(mdef[0].value.func) == 'min' and \
        sorted(unparse(a) for a in mdef[0].value.args) == sorted(['_size - _pos', 'len(block)'])
    chk.check(okm, 'C14-S4', AS, D, 'm = min(_size - _pos, len(block))', '', f'm is {unparse(mdef[0].value) if mdef else None}: the copy can run past the frame or past the chunk', node=mdef[0] if mdef else W)
    adv = [n for n in walk_no_nested(W) if isinstance(n, ast.AugAssign) and unparse(n.target) == '_pos']
    okadv = len(adv) == 1 and unparse(adv[0].value) == (m or '?') and isinstance(adv[0].op, ast.Add)
    comp = [n for n in walk_no_nested(W) if isinstance(n, ast.If) and unparse(n.test) in ('_pos == _size', '_size == _pos')]
    okcomp = len(comp) == 1 and any(d in list(ast.walk(comp[0])) for d in dcs if '_buffer' in unparse(d.value.args[0]))
    chk.check(okadv and okcomp, 'C14-S4', AS, D, '_pos += m; frame complete iff _pos == _size', '', f'cursor advance ok={okadv}, completion test ok={okcomp}', node=W)
    mk = [n for n in walk_no_nested(W) if isinstance(n, ast.Assign) and unparse(n.targets[0]) == '_buffer' and isinstance(n.value, ast.Call)]
    okmk = len(mk) == 1 and unparse(mk[0].value.args[0]) == '_size'
    if okmk:
        blk = mk[0]._parent.body
        okmk = any(isinstance(s, ast.Assign) and unparse(s.targets[0]) == '_pos' and unparse(s.value) == '0' for s in blk) and \
            isinstance(mk[0]._parent, ast.If) and unparse(mk[0]._parent.test) == '_buffer is None'
    chk.check(okmk, 'C14-S4', AS, D, 'buffer created with _size bytes and _pos = 0, only when none is active', '', 'buffer creation does not size the buffer by the frame length / zero the cursor', node=mk[0] if mk else W)
    usebuf = [n for n in walk_no_nested(W) if isinstance(n, ast.If) and '_buffer is not None' in unparse(n.test) and 'len(block) < _size' in unparse(n.test)]
    chk.check(len(usebuf) == 1, 'C14-S4', AS, D, 'buffered path taken iff the frame is incomplete in this chunk or a buffer is active', '',
              'the choice between buffered and direct decompression changed: a partially buffered frame could be decompressed directly', node=W, nontrivial=False)
    # ---- S5
    state = {'_size': '0', '_pos': '0', '_buffer': 'None', '_partial_len': "b''"}
    init = {unparse(s.targets[0]): unparse(s.value) for s in dfn.body if isinstance(s, ast.Assign) and len(s.targets) == 1}
    selfst = [unparse(n) for n in walk_no_nested(dfn) if isinstance(n, ast.Attribute) and isinstance(n.value, ast.Name) and n.value.id == 'self'
              and n.attr in ('_size', '_pos', '_buffer', '_partial_len')]
    chk.check(all(init.get(k) == v for k, v in state.items()) and not selfst, 'C14-S5', AS, D, 'state is per call', f'{ {k: init.get(k) for k in state} }',
              f'parser state initialisation {dict((k, init.get(k)) for k in state)} / kept on self: {selfst}: a second stream would start mid-frame', node=dfn)
    # ---- S6
    loops = [n for n in walk_no_nested(cfn) if isinstance(n, ast.For)]
    ok6 = len(loops) == 1 and isinstance(loops[0].iter, ast.Call) and dotted(loops[0].iter.func) == 'range' and len(loops[0].iter.args) == 3
    step = None
    if ok6:
        a = loops[0].iter.args
        step = unparse(a[2])
        ok6 = unparse(a[0]) == '0' and unparse(a[1]) == 'len(data)'
        i = loops[0].target.id
        cc = [n for n in ast.walk(loops[0]) if isinstance(n, ast.Call) and dotted(n.func) == 'blosc.compress']
        ok6 = ok6 and len(cc) == 1 and unparse(cc[0].args[0]) == f'data[{i}:{i} + {step}]'
    chk.check(ok6, 'C14-S6', AS, C, 'frames data[i:i+nelem], i = 0, nelem, ... tile the data', f'step {step}', 'writer frames do not tile the input', node=loops[0] if loops else cfn)
    # the frame length is at least one item for every block size (a step of 0 makes range() raise before anything is written)
    if ok6:
        sd = [n for n in walk_no_nested(cfn) if isinstance(n, ast.Assign) and len(n.targets) == 1 and unparse(n.targets[0]) == step]
        v = sd[-1].value if sd else None
        pos = False
        why = f'{step} = {unparse(v) if v is not None else None}'
        if isinstance(v, ast.Call) and dotted(v.func) == 'max' and len(v.args) == 2:
            cs = [a for a in v.args if isinstance(a, ast.Constant) and isinstance(a.value, int) and a.value >= 1]
            pos = bool(cs)
        elif isinstance(v, ast.Constant) and isinstance(v.value, int) and v.value >= 1:
            pos = True
        elif v is not None:
            # x // y + 1, (x + y - 1) // y with a guard ... : only the explicit forms are recognised; a bare floor division can be 0
            txt = unparse(v).replace(' ', '')
            guards = [n for n in walk_no_nested(cfn) if isinstance(n, (ast.If, ast.Assert)) and step in unparse(n.test) and n.lineno > sd[-1].lineno
                      and n.lineno < loops[0].lineno]
            for g in guards:
                t = unparse(g.test).replace(' ', '')
                if isinstance(g, ast.Assert) and t in (f'{step}>=1', f'{step}>0'):
                    pos = True
                if isinstance(g, ast.If) and t in (f'{step}<1', f'{step}<=0', f'{step}==0', f'not{step}') and g.body and \
                        (isinstance(g.body[-1], ast.Raise) or (isinstance(g.body[-1], ast.Assign) and unparse(g.body[-1].targets[0]) == step
                                                               and isinstance(g.body[-1].value, ast.Constant) and g.body[-1].value.value >= 1)):
                    pos = True
        chk.check(pos, 'C14-S6', AS, C, 'frame length in items is at least 1 for every block size and item size', why,
                  f'{why}: for compression_block_size < itemsize the step of the frame loop is 0 and range() raises ValueError before any frame is written '
                  '(compress is not the identity for "any ... item size and compression block size")', node=sd[-1] if sd else loops[0], nontrivial=False)
    ys = [n for n in walk_no_nested(cfn) if isinstance(n, ast.Yield)]
    oky = len(ys) == 1 and unparse(ys[0].value) == 'header + compressed' and any(ys[0] in list(ast.walk(l)) for l in loops)
    chk.check(oky, 'C14-S6', AS, C, 'one header immediately before each compressed frame', '', f'writer yields {unparse(ys[0].value) if ys else None}', node=ys[0] if ys else cfn)
