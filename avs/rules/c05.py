"""C05 -- halo statistics are unpacked into consistent physical units."""
import ast
from fractions import Fraction

from ..core.poly import Poly
from ..core.loaders import LoaderTable, dtype_tables, Sqrt, Opq, CAT, SETUP
from ..core.srcmodel import unparse, AnalysisError, dotted, walk_no_nested
from ..spec import column_units as U

FILES = [CAT]


def degrees(p):
    """Set of (degree in B, degree in Z) over the monomials of p."""
    out = set()
    for m in p.t:
        d = dict(m)
        out.add((d.get('B', 0), d.get('Z', 0)))
    return out


def run(chk):
    src = chk.src
    chk.explanation = ('Every column name of the literal dtype tables (user_dt, clean_dt_progen, halo_lc_dt) is matched against the '
                       'literal loader regexes; the matching loader body is partially evaluated over the match groups and '
                       'normalised to an exact polynomial in the raw columns and the two conversion symbols B (= header BoxSize) '
                       'and Z (= header VelZSpace_to_kms), which are bound by following the convert_units switch. The polynomial '
                       'is compared with the scaling law of the column\'s class. Exhaustive over all columns, symbolic in all values.')
    chk.rule('C05-R1', 'length-like columns = raw*B; velocity-like = raw*Z; integer/dimensionless = raw (identity)', 40)
    chk.rule('C05-R2', 'ratio columns = raw_i16 * ref / 32000 * conv(ref), ref = r100<com> or sigmav3d<com> with the same suffix', 28)
    chk.rule('C05-R3', 'sigmavMid^2 = (sigmav3d*Z)^2 - sigmavMaj^2 - sigmavMin^2, homogeneous of degree Z^2', 2)
    chk.rule('C05-R4', 'convert_units switch binds (B,Z) to (BoxSize, VelZSpace_to_kms) or both to 1.0; loaders read no header', 2)
    chk.rule('C05-R5', 'INT16SCALE == 32000', 1)
    chk.rule('C05-R6', 'int16 raw columns are promoted to float before they meet a header scalar or an integer (no silent int16 wrap-around for integer BoxSize)', 30)
    chk.rule('C05-R8', 'the unit factors applied to a file\'s columns are those of that file\'s own header (a halo light cone may be given as files of several epochs, each with its own VelZSpace_to_kms)', 2)
    chk.rule('C05-R7', 'the loader table is built afresh by every instance from its own header: bound only to a new dict, no early exit on instance/class state, never stored in shared state', 4)
    chk.exhaustive = True
    fresh_table(chk)
    own_header(chk)
    tabs = dtype_tables(src)
    for t in ('user_dt', 'clean_dt_progen', 'halo_lc_dt'):
        if t not in tabs:
            raise AnalysisError(f'dtype table {t} not found')
    lt = LoaderTable(src)
    # R5
    c = src.module_assigns(CAT).get('INT16SCALE')
    scale = Fraction(repr(c.value)) if isinstance(c, ast.Constant) and isinstance(c.value, (int, float)) else None
    chk.check(scale == U.INT16SCALE, 'C05-R5', CAT, '<module>', 'INT16SCALE', f'= {scale}', f'INT16SCALE = {scale}, format says {U.INT16SCALE}',
              node=c if c is not None else None)
    if scale is None:
        raise AnalysisError('INT16SCALE is not a literal')
    # R4 switch
    sw = lt.unit_switch
    if sw is None:
        raise AnalysisError('convert_units switch not found')
    tkeys = {n: unparse(v) for n, v in sw['true'].items()}
    fvals = {n: unparse(v) for n, v in sw['false'].items()}
    okT = sorted(lt.units.values()) == ['B', 'Z'] and all(tkeys[n].startswith(('self.header[', 'header[', '(self.header if header is None else header)[', 'units_header[')) or 'header' in tkeys[n].split('[')[0] for n in lt.units)       # the instance header, or the header the setup was given (C05-R8)
    okF = set(fvals) == set(lt.units) and all(v in ('1.0', '1') for v in fvals.values())
    chk.check(okT and okF and sw['test'] == 'self.convert_units', 'C05-R4', CAT, SETUP, 'convert_units switch',
              f'on: {tkeys}; off: {fvals}', f'switch binds on={tkeys} off={fvals} test={sw["test"]} (need BoxSize & VelZSpace_to_kms / both 1.0)',
              node=sw['node'], nf={'on': tkeys, 'off': fvals})
    names = []
    for t in ('user_dt', 'clean_dt_progen', 'halo_lc_dt'):
        for n, _, _ in tabs[t]:
            if n not in names:
                names.append(n)
    hdr_reads = []
    counts = {}
    unclassified = {}
    for name in names:
        cls, ref = U.classify(name)
        if cls is None:
            raise AnalysisError(f'column {name} is not in the reviewed unit table (spec/column_units.py)')
        counts[cls] = counts.get(cls, 0) + 1
        idx = lt.matches(name)
        if len(idx) != 1:
            chk.refuted('C05-R1', CAT, SETUP, name, f'column matches {len(idx)} loader patterns', node=lt.fn)
            continue
        node = lt.entries[idx[0]][2]
        try:
            res = lt.evaluate(name)
        except AnalysisError as e:
            chk.refuted('C05-R1', CAT, SETUP, name, f'loader cannot be evaluated: {e}', node=node)
            continue
        for imp in res['impure']:
            hdr_reads.append(f'{name}: {imp}')
        if any(k_.endswith('_i16') for k_ in res['raw']):
            chk.check(not res['promo'], 'C05-R6', CAT, SETUP, f'{name}: int16 data promoted to float first', '',
                      '; '.join(res['promo'][:2]) + ': with an integer BoxSize / VelZSpace_to_kms in the header the product wraps around in int16, '
                      'so the column is no longer stored value / 32000 x conversion', node=node, nontrivial=False)
        v = res['value']
        if isinstance(v, dict):
            ent = v.get(name)
            v = ent[0] if ent else Opq('missing')
        if isinstance(v, Poly):
            v = v.subst('INT16SCALE', Poly.const(scale))
        raw = Poly.sym('raw:' + name)
        B, Z = Poly.sym('B'), Poly.sym('Z')
        m = lt.entries[idx[0]][0]
        com = name[name.rfind('_'):] if ('_com' in name or '_L2com' in name) else ''
        if cls == 'length':
            chk.check(v == raw * B, 'C05-R1', CAT, SETUP, name, f'= {v}', f'{name} = {v}; a length must be raw*BoxSize', node=node, nf=str(v))
        elif cls == 'velocity':
            chk.check(v == raw * Z, 'C05-R1', CAT, SETUP, name, f'= {v}', f'{name} = {v}; a velocity must be raw*VelZSpace_to_kms', node=node, nf=str(v))
        elif cls == 'integer':
            chk.check(v == raw, 'C05-R1', CAT, SETUP, name, f'= {v}', f'{name} = {v}; integer columns are returned unchanged', node=node, nf=str(v), nontrivial=False)
        elif cls == 'dimensionless':
            if 'eigenvecs' in name:
                okv = isinstance(v, Opq) and v.tag.startswith('euler16.') and (not isinstance(v, Poly))
                which = {'Min': 'minor', 'Mid': 'middle', 'Maj': 'major'}[name.split('eigenvecs')[1][:3]]
                stem = name.split('eigenvecs')[0] + 'eigenvecs' + name.split('eigenvecs')[1][3:]
                want = f'euler16.{which}(raw:{stem}_u16)'
                chk.check(okv and v.tag == want, 'C05-R1', CAT, SETUP, name, f'= {getattr(v, "tag", v)}',
                          f'{name} = {getattr(v, "tag", v)}; expected {want} (unit vectors, no unit factor)', node=node, nf=str(getattr(v, 'tag', v)))
            else:
                chk.check(v == raw, 'C05-R1', CAT, SETUP, name, f'= {v}', f'{name} = {v}; dimensionless columns are returned unchanged', node=node, nf=str(v))
        elif cls == 'ratio_r100':
            want = Poly.sym(f'raw:{name}_i16') * Poly.sym(f'raw:r100{com}') / U.INT16SCALE * B
            chk.check(v == want, 'C05-R2', CAT, SETUP, name, f'= {v}', f'{name} = {v}; must be {want}', node=node, nf=str(v))
        elif cls == 'ratio_sigmav3d':
            stem = name[:-len(com)].replace('Maj', 'Max')
            want = Poly.sym(f'raw:{stem}_to_sigmav3d{com}_i16') * Poly.sym(f'raw:sigmav3d{com}') / U.INT16SCALE * Z
            chk.check(v == want, 'C05-R2', CAT, SETUP, name, f'= {v}',
                      f'{name} = {v}; a dispersion relative to sigmav3d must be {want} (velocity: scaled by VelZSpace_to_kms)', node=node, nf=str(v))
        elif cls == 'derived_sigmavMid':
            s3 = Poly.sym(f'raw:sigmav3d{com}') * Z
            maj = Poly.sym(f'raw:sigmavMax_to_sigmav3d{com}_i16') * Poly.sym(f'raw:sigmav3d{com}') / U.INT16SCALE * Z
            mn = Poly.sym(f'raw:sigmavMin_to_sigmav3d{com}_i16') * Poly.sym(f'raw:sigmav3d{com}') / U.INT16SCALE * Z
            want = s3 * s3 - maj * maj - mn * mn
            if isinstance(v, Sqrt):
                p = v.square().subst('INT16SCALE', Poly.const(scale))
                chk.check(p == want and degrees(p) == {(0, 2)}, 'C05-R3', CAT, SETUP, name, f'= sqrt({p})',
                          f'{name}^2 = {p} with (B,Z)-degrees {sorted(degrees(p))}; must be sigmav3d^2 - Maj^2 - Min^2 in velocity units: {want}',
                          node=node, nf=str(p))
            else:
                chk.refuted('C05-R3', CAT, SETUP, name, f'{name} = {v}: not a square root of a homogeneous polynomial', node=node)
            # the radicand is a difference that vanishes when the stored Min and Max ratios use up all of sigmav3d: formed from rounded
            # float32 squares it comes out a few ulp below zero (NaN) on that boundary and loses digits near it; formed on the stored
            # integer ratios (32000^2 - rmax^2 - rmin^2 in 64-bit integers) it is exact
            ok_exact, why_exact = _exact_radicand(node, lt)
            chk.check(ok_exact, 'C05-R3', CAT, SETUP, f'{name}: the radicand is formed in exact integer arithmetic on the stored ratios', '',
                      f'{name}: {why_exact}: for ratio pairs with Min^2 + Max^2 = 32000^2 (e.g. (19200, 25600)) the result is NaN for a large part of the halos instead of 0, '
                      'and the converted and unconverted loads disagree on which', node=node, nontrivial=False)
        else:
            unclassified[name] = str(getattr(v, 'tag', v))
    chk.extra['class_counts'] = counts
    chk.extra['unclassified_columns'] = unclassified
    chk.check(not hdr_reads, 'C05-R4', CAT, SETUP, 'loaders read only m/raw/halos and the two unit constants',
              f'{len(lt.entries)} loaders', f'loader reads request- or header-dependent state: {hdr_reads[:4]}', node=lt.fn)


def _exact_radicand(node, lt=None):
    """node: the loader (lambda or def) of sigmavMid.  The argument of np.sqrt, with local names resolved, must be a sum/difference whose
    leaves are integer constants (or int(<constant>) ** 2) and squares of names bound to an int64 view of a raw `_i16` column."""
    body = node.body if isinstance(node, ast.FunctionDef) else [ast.Return(value=node.body)] if isinstance(node, ast.Lambda) else None
    if body is None and isinstance(node, ast.Assign):
        if isinstance(node.value, ast.Lambda):
            return _exact_radicand(node.value, lt)
        if isinstance(node.value, ast.Name) and lt is not None and node.value.id in lt.localdefs:
            return _exact_radicand(lt.localdefs[node.value.id], lt)
        return False, 'loader not a function'
    if body is None:
        return False, 'loader not a function'
    defs, helpers = {}, {}
    for st in body:
        for x in ast.walk(st):
            if isinstance(x, ast.Assign) and len(x.targets) == 1 and isinstance(x.targets[0], ast.Name):
                if isinstance(x.value, ast.Lambda):
                    helpers[x.targets[0].id] = ([a.arg for a in x.value.args.args], x.value.body)
                else:
                    defs[x.targets[0].id] = x.value
            if isinstance(x, ast.FunctionDef) and x is not node:
                rs = [r for r in ast.walk(x) if isinstance(r, ast.Return)]
                inner = [b for b in x.body if not (isinstance(b, ast.Expr) and isinstance(b.value, ast.Constant))]
                if len(rs) == 1 and len(inner) == 1 and inner[0] is rs[0]:
                    helpers[x.name] = ([a.arg for a in x.args.args], rs[0].value)
    sq = [c for st in body for c in ast.walk(st) if isinstance(c, ast.Call) and dotted(c.func) in ('np.sqrt', 'math.sqrt') and c.args]
    if len(sq) != 1:
        return False, f'{len(sq)} square roots in the loader'
    e = sq[0].args[0]
    INT64 = ('np.int64', 'int', "'i8'", "'int64'", 'np.int_', 'np.longlong')
    why = []

    def kind(x, env, depth=0):
        """'i64': an exact 64-bit (or Python) integer value; anything else is not exact.  A raw `_i16` column itself is 'narrow':
        its square wraps in int16."""
        if depth > 12:
            return 'unknown'
        if isinstance(x, ast.Constant):
            return 'i64' if isinstance(x.value, int) and not isinstance(x.value, bool) else 'float'
        if isinstance(x, ast.Call) and dotted(x.func) in ('int', 'np.int64') and len(x.args) == 1 and not x.keywords:
            return 'i64'
        if isinstance(x, ast.Call) and dotted(x.func) in ('np.asarray', 'np.array', 'np.asanyarray') and len(x.args) == 1 \
                and [unparse(k.value) for k in x.keywords if k.arg == 'dtype'] and unparse([k.value for k in x.keywords if k.arg == 'dtype'][0]) in INT64:
            return 'i64'
        if isinstance(x, ast.Call) and isinstance(x.func, ast.Attribute) and x.func.attr == 'astype' and len(x.args) == 1 and unparse(x.args[0]) in INT64:
            return 'i64'
        if isinstance(x, ast.Call) and dotted(x.func) in ('np.array', 'np.stack') and len(x.args) == 1 and isinstance(x.args[0], (ast.List, ast.Tuple)) \
                and [unparse(k.value) for k in x.keywords if k.arg == 'dtype'] and unparse([k.value for k in x.keywords if k.arg == 'dtype'][0]) in INT64:
            return 'i64'              # rows widened on construction
        if isinstance(x, ast.Call) and isinstance(x.func, ast.Attribute) and x.func.attr == 'sum' and not x.args and all(k.arg == 'axis' for k in x.keywords):
            return kind(x.func.value, env, depth + 1)      # a sum of exact integers
        if isinstance(x, ast.Call) and isinstance(x.func, ast.Name) and x.func.id in helpers and not x.keywords:
            ps, b = helpers[x.func.id]
            if len(ps) == len(x.args):
                return kind(b, dict(env, **{p_: ('val', a, env) for p_, a in zip(ps, x.args)}), depth + 1)
            return 'unknown'
        if isinstance(x, ast.UnaryOp) and isinstance(x.op, (ast.USub, ast.UAdd)):
            return kind(x.operand, env, depth + 1)
        if isinstance(x, ast.BinOp) and isinstance(x.op, (ast.Add, ast.Sub, ast.Mult, ast.Pow)):
            a, b = kind(x.left, env, depth + 1), kind(x.right, env, depth + 1)
            if a == b == 'i64':
                if isinstance(x.op, ast.Pow) and not (isinstance(x.right, ast.Constant) and isinstance(x.right.value, int) and x.right.value >= 0):
                    return 'unknown'
                return 'i64'
            why.append(unparse(x.left if a != 'i64' else x.right)[:50])
            return 'float' if 'float' in (a, b) else 'unknown'
        if isinstance(x, ast.Name):
            if x.id in env:
                _, a, env2 = env[x.id]
                return kind(a, env2, depth + 1)
            if x.id in defs:
                return kind(defs[x.id], {}, depth + 1)
            return 'unknown'
        if isinstance(x, ast.Subscript):
            return 'narrow'
        return 'unknown'
    k = kind(e, {})
    if k != 'i64':
        r = e
        while isinstance(r, ast.Name) and r.id in defs:
            r = defs[r.id]
        return False, f'the radicand {unparse(r)[:90]} is a difference of floating-point terms ({why[0] if why else unparse(r)[:50]})'
    return True, ''


# --------------------------------------------------------------------------- R7
def own_header(chk):
    """`self.header` is the header of the FIRST file.  For halo light cones the mixed-directory test of _setup_file_paths is waived, so a
    list may hold files of several redshift directories, whose headers differ in VelZSpace_to_kms (an epoch quantity).  Then the
    loaders have to be rebuilt from each file's own header before that file is unpacked: in the per-file loop of _read_halo_info a call
    `self._setup_halo_field_loaders(header=<file>['header'])` precedes the unpacking, and the setup reads BoxSize / VelZSpace_to_kms
    from that parameter (which may default to self.header)."""
    src = chk.src
    sfp = src.func(CAT, 'CompaSOHaloCatalog._setup_file_paths')
    waived = any(isinstance(n, ast.If) and 'halo_lc' in unparse(n.test) and any(isinstance(x, ast.Raise) for x in ast.walk(n)) for n in walk_no_nested(sfp))
    if not waived:
        chk.proven('C05-R8', CAT, 'CompaSOHaloCatalog._setup_file_paths', 'all files of a load share one directory (one header)', 'mixed directories are rejected for every layout', nontrivial=False)
        chk.proven('C05-R8', CAT, SETUP, 'unit factors of the shared header', '', nontrivial=False)
        return
    rhi = src.func(CAT, 'CompaSOHaloCatalog._read_halo_info')
    setup = src.func(CAT, SETUP)
    loops = [s_ for s_ in rhi.body if isinstance(s_, ast.For) and 'enumerate(afs)' in unparse(s_.iter)]
    okcall, why = False, 'no per-file loop'
    if len(loops) == 1:
        L = loops[0]
        fvar = L.target.elts[1].id if isinstance(L.target, ast.Tuple) and len(L.target.elts) == 2 and isinstance(L.target.elts[1], ast.Name) else None
        first_use = None
        for k_, st in enumerate(L.body):
            if any(isinstance(c_, ast.Call) and isinstance(c_.func, ast.Attribute) and c_.func.attr in ('_load_halo_field',) for c_ in ast.walk(st)) or \
                    any(isinstance(x_, ast.Attribute) and x_.attr == 'halo_field_loaders' for x_ in ast.walk(st)):
                first_use = k_
                break
        calls = []
        for k_, st in enumerate(L.body):
            for c_ in ast.walk(st):
                if isinstance(c_, ast.Call) and isinstance(c_.func, ast.Attribute) and c_.func.attr == '_setup_halo_field_loaders' and unparse(c_.func.value) == 'self':
                    calls.append((k_, st, c_))
        why = 'the loaders are not rebuilt inside the per-file loop: every file is converted with the factors of self.header, the header of the FIRST file'
        for k_, st, c_ in calls:
            hk = [kw.value for kw in c_.keywords if kw.arg == 'header']
            from_file = bool(hk) and fvar is not None and unparse(hk[0]) in (f"{fvar}['header']", f'{fvar}["header"]', f'{fvar}[self.header_key]', f"{fvar}.tree['header']")
            guard_ok = st is c_ or isinstance(st, ast.Expr) or (isinstance(st, ast.If) and unparse(st.test) in ('not passthrough', 'not self.passthrough') and not st.orelse)
            if from_file and guard_ok and (first_use is None or k_ < first_use):
                okcall, why = True, f'loaders rebuilt from {unparse(hk[0])} before the file is unpacked'
            elif from_file:
                why = 'the per-file rebuild does not precede the unpacking of the file (or runs under another condition than "not passthrough")'
    chk.check(okcall, 'C05-R8', CAT, 'CompaSOHaloCatalog._read_halo_info', 'loaders rebuilt from each file\'s own header before it is unpacked', why,
              why + ' -- with a light-cone list over several redshift directories (accepted: the mixed-directory test is waived for light cones) the velocity-like columns of the later '
              'files are off by the ratio of the two VelZSpace_to_kms (13% between z=2.25 and z=0.2)', node=loops[0] if loops else rhi)
    # the loader that is CALLED for a file comes out of the table rebuilt for that file: the callee of `<loader>(match, rawhalos, halos)` in
    # _load_halo_field depends on no instance state but self.halo_field_loaders (a memo of resolved loaders kept on the instance survives the
    # per-file rebuild and keeps the first file's closures, i.e. the first file's BoxSize / VelZSpace_to_kms)
    lhf = src.func(CAT, 'CompaSOHaloCatalog._load_halo_field')

    def _binds_of(f_):
        binds = {}

        def _bind(t, v):
            for x in ast.walk(t):
                if isinstance(x, ast.Name):
                    binds.setdefault(x.id, []).append(v)
                elif isinstance(x, (ast.Subscript, ast.Attribute)) and isinstance(x.ctx, ast.Store):
                    b_ = x
                    while isinstance(b_, (ast.Subscript, ast.Attribute)):
                        b_ = b_.value
                    if isinstance(b_, ast.Name) and b_.id != 'self':
                        binds.setdefault(b_.id, []).append(v)       # a store through a local container
        for n in ast.walk(f_):
            if isinstance(n, ast.Assign):
                for t in n.targets:
                    _bind(t, n.value)
            elif isinstance(n, (ast.AugAssign, ast.AnnAssign)) and n.value is not None:
                _bind(n.target, n.value)
            elif isinstance(n, (ast.For, ast.comprehension)):
                _bind(n.target, n.iter)
            elif isinstance(n, ast.NamedExpr):
                _bind(n.target, n.value)
        return binds
    methods = {}
    for c_ in src.tree(CAT).body:
        if isinstance(c_, ast.ClassDef) and c_.name == 'CompaSOHaloCatalog':
            methods = {m_.name: m_ for m_ in c_.body if isinstance(m_, ast.FunctionDef)}

    def _state(e, seen, binds, depth=0):
        out = set()
        for x in ast.walk(e):
            if isinstance(x, ast.Attribute) and isinstance(x.value, ast.Name) and x.value.id == 'self':
                m_ = methods.get(x.attr)
                if m_ is not None and depth < 3 and x.attr not in ('_load_halo_field',):
                    # a method of the class: what it hands back depends on the instance state its results are computed from
                    # (and on its arguments, which the walk of the call expression covers)
                    b2 = _binds_of(m_)
                    for r_ in ast.walk(m_):
                        if isinstance(r_, (ast.Return, ast.Yield, ast.YieldFrom)) and r_.value is not None:
                            out |= _state(r_.value, set(), b2, depth + 1)
                else:
                    out.add(x.attr)
            elif isinstance(x, ast.Call) and dotted(x.func) in ('getattr', 'vars', 'hasattr') and x.args and unparse(x.args[0]) == 'self':
                out.add(x.args[1].value if len(x.args) > 1 and isinstance(x.args[1], ast.Constant) else '__dict__')
            elif isinstance(x, ast.Name) and isinstance(x.ctx, ast.Load) and x.id in binds and x.id not in seen:
                seen.add(x.id)
                for v in binds[x.id]:
                    out |= _state(v, seen, binds, depth)
        return out
    lbinds = _binds_of(lhf)
    lcalls = [c_ for c_ in ast.walk(lhf) if isinstance(c_, ast.Call) and len(c_.args) == 3 and not c_.keywords and [unparse(a) for a in c_.args[1:]] == ['rawhalos', 'halos']]
    if not lcalls:
        raise AnalysisError('_load_halo_field: loader call not found')
    for c_ in lcalls:
        st_ = _state(c_.func, set(), lbinds) - {'halo_field_loaders'}
        # the loaded-field bookkeeping and the warning configuration do not select the loader
        chk.check(not st_, 'C05-R8', CAT, 'CompaSOHaloCatalog._load_halo_field', 'the loader called for a file is taken from the table rebuilt for that file (self.halo_field_loaders only)',
                  unparse(c_.func)[:60],
                  f'the callee {unparse(c_.func)[:50]} can come from instance state {sorted(st_)} that is not rebuilt per file: the loaders are closures over BoxSize / VelZSpace_to_kms, so a '
                  'loader remembered from an earlier file converts the later files of a multi-epoch light-cone list with the FIRST file\'s factors (the per-file rebuild is bypassed)', node=c_)
    # the setup takes the factors from its header parameter
    params = [a.arg for a in setup.args.args]
    reads = [n for n in walk_no_nested(setup) if isinstance(n, ast.Subscript) and isinstance(n.slice, ast.Constant) and n.slice.value in ('BoxSize', 'VelZSpace_to_kms')
             and isinstance(n.ctx, ast.Load)]
    dflt = any(isinstance(n, ast.If) and unparse(n.test) == 'header is None' and [unparse(b) for b in n.body] == ['header = self.header'] for n in setup.body)
    from ..core.srcmodel import single_defs, expand_names
    sd_ = single_defs(setup)
    HDR_FORMS = ('header', 'self.header if header is None else header', 'header if header is not None else self.header', 'header or self.header')

    # a local that stands for the header: `h = header; if h is None: h = self.header`  (a helper's parameter after inlining)
    aliases = {'header'}
    for k_, st_ in enumerate(setup.body[:-1]):
        if isinstance(st_, ast.Assign) and len(st_.targets) == 1 and isinstance(st_.targets[0], ast.Name) and unparse(st_.value) == 'header':
            h_ = st_.targets[0].id
            nx = setup.body[k_ + 1]
            stores_ = [n_ for n_ in ast.walk(setup) if isinstance(n_, ast.Name) and n_.id == h_ and isinstance(n_.ctx, ast.Store)]
            if isinstance(nx, ast.If) and unparse(nx.test) == f'{h_} is None' and [unparse(b_) for b_ in nx.body] == [f'{h_} = self.header'] and not nx.orelse and len(stores_) == 2:
                aliases.add(h_)

    def _hdr_base(r):
        t_ = unparse(expand_names(r.value, {k_: v_ for k_, v_ in sd_.items() if k_ != 'header'})).replace('(', '').replace(')', '')
        return 'header' if t_ in aliases else t_
    inline_default = bool(reads) and all(_hdr_base(r) in HDR_FORMS[1:] for r in reads)
    okp = 'header' in params and bool(reads) and all(_hdr_base(r) in HDR_FORMS for r in reads) and \
        (dflt or inline_default or len(aliases) > 1 or not any(isinstance(d, ast.Constant) and d.value is None for d in setup.args.defaults))
    chk.check(okp, 'C05-R8', CAT, SETUP, 'BoxSize and VelZSpace_to_kms are read from the header the setup was given', f'{[unparse(r) for r in reads]}',
              f'the unit factors are read as {[unparse(r) for r in reads]}: not from a header parameter, so a per-file rebuild cannot take effect', node=setup)


def fresh_table(chk):
    """The loaders are closures over the unit factors read from THIS instance's header, so the table has to be rebuilt
    by every instance: a table taken from class- or module-level state applies another catalog's BoxSize."""
    src = chk.src
    mod = src.tree(CAT)
    fn = src.func(CAT, SETUP)
    ATTR = 'halo_field_loaders'
    regs = [n for n in ast.walk(fn) if isinstance(n, ast.Assign) and any(isinstance(t, ast.Subscript) and isinstance(t.value, ast.Attribute)
                                                                          and t.value.attr == ATTR for t in n.targets)]
    if not regs:
        raise AnalysisError('no loader registrations found')
    binds, escapes = [], []
    for n in ast.walk(mod):
        if isinstance(n, (ast.Assign, ast.AnnAssign, ast.AugAssign)):
            tg = n.targets if isinstance(n, ast.Assign) else [n.target]
            if any(isinstance(t, ast.Attribute) and t.attr == ATTR for t in tg):
                binds.append(n)
            elif n.value is not None and any(isinstance(x, ast.Attribute) and x.attr == ATTR and isinstance(x.ctx, ast.Load) for x in [n.value])\
                    and any(not isinstance(t, ast.Name) for t in tg):
                escapes.append(n)
        elif isinstance(n, ast.Call) and dotted(n.func) == 'setattr' and len(n.args) >= 2 and isinstance(n.args[1], ast.Constant) and n.args[1].value == ATTR:
            binds.append(n)
        elif isinstance(n, ast.Call) and isinstance(n.func, ast.Attribute) and n.func.attr in ('setdefault', 'update', 'append', '__setitem__') \
                and any(isinstance(a, ast.Attribute) and a.attr == ATTR for a in n.args):
            escapes.append(n)
    okb = len(binds) == 1 and isinstance(binds[0], ast.Assign) and [unparse(t) for t in binds[0].targets if not isinstance(t, ast.Name)] == ['self.' + ATTR] \
        and unparse(binds[0].value) in ('{}', 'dict()', 'OrderedDict()', 'collections.OrderedDict()') \
        and any(binds[0] is b for b in fn.body) and all(binds[0].lineno < r.lineno for r in regs)
    chk.check(okb, 'C05-R7', CAT, SETUP, f'self.{ATTR} is bound exactly once, to a new empty dict, unconditionally at the top of the setup',
              unparse(binds[0]) if binds else '', f'bindings of self.{ATTR}: {[unparse(b)[:90] for b in binds]}: the table can be an object that another '
              'instance filled with closures over ITS BoxSize / VelZSpace_to_kms', node=binds[0] if binds else fn)
    chk.check(not escapes, 'C05-R7', CAT, SETUP, f'self.{ATTR} is never stored in class-, module- or container-level state', '',
              f'the table escapes the instance: {[unparse(e)[:90] for e in escapes]}', node=escapes[0] if escapes else fn)
    # early exits: only on the parameters of the setup (the passthrough table does not depend on units)
    params = {a.arg for a in fn.args.args + fn.args.kwonlyargs} - {'self'}
    parents = {}
    for n in ast.walk(fn):
        for c in ast.iter_child_nodes(n):
            parents[c] = n
    last = max(r.lineno for r in regs)
    bad = []
    for r in ast.walk(fn):
        if isinstance(r, (ast.Return, ast.Raise)) and r.lineno < last:
            q, nested = r, False
            tests = []
            while q in parents and parents[q] is not fn:
                q = parents[q]
                if isinstance(q, (ast.FunctionDef, ast.Lambda)):
                    nested = True
                    break
                if isinstance(q, ast.If):
                    tests.append(q.test)
                elif not isinstance(q, (ast.stmt,)) or isinstance(q, (ast.For, ast.While, ast.Try, ast.With)):
                    tests.append(None)
            if nested:
                continue
            for t in tests:
                if t is None or not ({x.id for x in ast.walk(t) if isinstance(x, ast.Name)} <= params) or any(isinstance(x, (ast.Call, ast.Attribute)) for x in ast.walk(t)):
                    bad.append(r)
                    break
            if not tests:
                bad.append(r)
    chk.check(not bad, 'C05-R7', CAT, SETUP, 'the registrations are skipped only on the value of the setup\'s own parameters (passthrough)', f'{len(regs)} registrations',
              f'line {bad[0].lineno if bad else 0}: the setup can return before building the loaders depending on instance or shared state: '
              'the instance then uses loaders built for another header', node=bad[0] if bad else fn)
    # the constructor runs the setup unconditionally
    init = src.func(CAT, SETUP.rsplit('.', 1)[0] + '.__init__')
    calls = [s_ for s_ in init.body if isinstance(s_, ast.Expr) and isinstance(s_.value, ast.Call) and unparse(s_.value.func) == 'self.' + SETUP.rsplit('.', 1)[1]]
    chk.check(len(calls) == 1, 'C05-R7', CAT, SETUP.rsplit('.', 1)[0] + '.__init__', 'the constructor runs the loader setup unconditionally, once', '',
              f'{len(calls)} unconditional calls of the loader setup in __init__', node=init)
