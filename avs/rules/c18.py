"""C18 -- every eigenvector code decodes to a distinct orthonormal triad (algebraic structure)."""
import ast
import re

from ..core.lin import Lin, Facts
from ..core.srcmodel import dotted, unparse, walk_no_nested, AnalysisError, names_in

CAT = 'abacusnbody/data/compaso_halo_catalog.py'
FILES = [CAT]
Q = '_unpack_euler16'


def const_of(src, name):
    v = src.module_assigns(CAT).get(name)
    return v.value if isinstance(v, ast.Constant) and isinstance(v.value, int) else None


def run(chk):
    src = chk.src
    fn = src.func(CAT, Q)
    chk.explanation = ('The algebraic structure of _unpack_euler16 is decided from the source: the code is decomposed as cap / in-cap '
                       'cell / azimuth by floor-division normal forms (so the valid codes are exactly 12*121*45); the 36 masked stores of '
                       'the major axis form, per cap, a signed permutation of the unit vector (zz, yy, xx) with zz on axis cap//4, and the '
                       '12 signed permutations are pairwise distinct; the minor axis is (cos az, sin az) on the two other axes with the '
                       'third component solved from minor.major = 0 by division through the dominant component; the middle axis is the '
                       'Levi-Civita cross product minor x major; all three are normalised. Distinctness within a cap and the angular '
                       'coverage are numerical and not decided.')
    chk.rule('C18-R1', 'code = ((cap*T^2 + cell)*A + iaz) with A=45, T=11; it = floor(sqrt(cell)), ir = cell - it^2', 5)
    chk.rule('C18-R2', 'per cap the major axis is a signed permutation of the unit vector (zz,yy,xx), zz on axis cap//4; 12 distinct permutations', 14)
    chk.rule('C18-R3', 'minor = (cos az, sin az) on the two non-dominant axes; third component = -(m_a M_a + m_b M_b)/M_k; normalised', 4)
    chk.rule('C18-R4', 'middle = minor x major (cyclic Levi-Civita pattern), normalised; returns (minor, middle, major)', 4)
    chk.assume('within-cap injectivity of the real-valued cell map and the 4-degree coverage are numerical properties, not decided')
    A, T = const_of(src, 'EULER_ABIN'), const_of(src, 'EULER_TBIN')
    chk.check(A == 45 and T == 11, 'C18-R1', CAT, '<module>', 'EULER_ABIN = 45, EULER_TBIN = 11', f'{A}, {T}: {12 * (T or 0) ** 2 * (A or 0)} valid codes',
              f'format constants are {A}, {T}; the 16-bit format has 45 azimuth bins and 11x11 in-cap cells (65340 codes)')
    if A is None or T is None:
        raise AnalysisError('EULER_ABIN / EULER_TBIN not integer literals')
    # ---- R1: symbolic evaluation of the decomposition
    F = Facts()
    b = Lin.sym('code')
    env = {fn.args.args[0].arg: b}
    consts = {'EULER_ABIN': Lin.const(A), 'EULER_TBIN': Lin.const(T)}

    def ev(n):
        if isinstance(n, ast.Name):
            return env.get(n.id, consts.get(n.id))
        if isinstance(n, ast.Constant) and isinstance(n.value, int):
            return Lin.const(n.value)
        if isinstance(n, ast.BinOp):
            l, r = ev(n.left), ev(n.right)
            if l is None or r is None:
                return None
            try:
                if isinstance(n.op, ast.Add):
                    return l + r
                if isinstance(n.op, ast.Sub):
                    return l - r
                if isinstance(n.op, ast.Mult):
                    return l * r
                if isinstance(n.op, ast.FloorDiv) and r.is_const() and r.c > 0:
                    return F.fdiv(l, int(r.c))
                if isinstance(n.op, ast.Mod) and r.is_const() and r.c > 0:
                    return F.mod(l, int(r.c))
            except ValueError:
                return None
        return None
    seen = {}
    for s in fn.body:
        if isinstance(s, ast.Assign) and isinstance(s.targets[0], ast.Name):
            v = ev(s.value)
            if v is not None:
                env[s.targets[0].id] = v
                seen.setdefault(s.targets[0].id, []).append((v, s))
        if isinstance(s, ast.Assign) and unparse(s.targets[0]) == 'it':
            break
    q1 = F.fdiv(b, A)
    want = {'iaz': b - q1.scale(A), 'cap': F.fdiv(q1, T * T), 'cell': q1 - F.fdiv(q1, T * T).scale(T * T)}
    got_iaz = seen.get('iaz', [(None, fn)])[-1]
    chk.check(got_iaz[0] == want['iaz'], 'C18-R1', CAT, Q, 'iaz = code mod 45', f'{got_iaz[0]}', f'azimuth index is {got_iaz[0]}, expected code - 45*(code//45)', node=got_iaz[1])
    got_cap = seen.get('cap', [(None, fn)])[-1]
    chk.check(got_cap[0] == want['cap'], 'C18-R1', CAT, Q, 'cap = code // (45*121)', f'{got_cap[0]}', f'cap index is {got_cap[0]}, expected (code//45)//121', node=got_cap[1])
    # the in-cap cell is the last value bound to the parameter name before `it`
    pname = fn.args.args[0].arg
    got_cell = seen.get(pname, [(None, fn)])[-1]
    chk.check(got_cell[0] == want['cell'], 'C18-R1', CAT, Q, 'cell = (code // 45) mod 121', f'{got_cell[0]}', f'in-cap cell is {got_cell[0]}, expected (code//45) - 121*cap', node=got_cell[1])
    txt = {unparse(s.targets[0]): unparse(s.value) for s in fn.body if isinstance(s, ast.Assign)}
    okit = txt.get('it') == f'np.floor(np.sqrt({pname})).astype(int)' and txt.get('ir') == f'{pname} - it * it'
    chk.check(okit, 'C18-R1', CAT, Q, 'it = floor(sqrt(cell)), ir = cell - it^2', '', f'it = {txt.get("it")}, ir = {txt.get("ir")}', node=fn)
    # unit vector construction
    seq = [unparse(s) for s in fn.body]
    oku = 'norm = 1.0 / np.sqrt(1.0 + xx * xx + yy * yy)' in seq and 'zz = norm' in seq and 'yy *= norm' in seq and 'xx *= norm' in seq and \
        seq.index('zz = norm') > seq.index('norm = 1.0 / np.sqrt(1.0 + xx * xx + yy * yy)')
    chk.check(oku, 'C18-R2', CAT, Q, '(zz, yy, xx) = (1, yy, xx)/sqrt(1+xx^2+yy^2) is a unit vector', '', 'the source vector of the cap table is no longer normalised', node=fn)
    # ---- R2 cap table
    pat = re.compile(r'^major\[cap == (\d+), (\d)\] = (-?)(xx|yy|zz)\[cap == (\d+)\]$')
    table = {}
    nstores = 0
    for s in fn.body:
        if isinstance(s, ast.Assign) and unparse(s.targets[0]).startswith('major[cap =='):
            m = pat.match(unparse(s))
            nstores += 1
            if not m or m.group(1) != m.group(5):
                chk.refuted('C18-R2', CAT, Q, unparse(s.targets[0]), f'store {unparse(s)} does not copy a component under its own cap mask', node=s)
                continue
            c, a = int(m.group(1)), int(m.group(2))
            table.setdefault(c, {})[a] = (m.group(3) + m.group(4), s)
    if nstores < 12:
        raise AnalysisError(f'_unpack_euler16: cap table not recognised ({nstores} stores)')
    perms = {}
    for c in range(12):
        row = table.get(c, {})
        srcs = sorted(v[0].lstrip('-') for v in row.values())
        zz_axis = [a for a, v in row.items() if v[0] == 'zz']
        ok = sorted(row) == [0, 1, 2] and srcs == ['xx', 'yy', 'zz'] and zz_axis == [c // 4]
        chk.check(ok, 'C18-R2', CAT, Q, f'cap {c}', f'{ {a: v[0] for a, v in sorted(row.items())} }',
                  f'cap {c} assigns { {a: v[0] for a, v in sorted(row.items())} }: need zz on axis {c // 4} and (+-)yy, xx on the other two (a signed permutation keeps unit length)',
                  node=next(iter(row.values()))[1] if row else fn, nf={a: v[0] for a, v in row.items()})
        perms[c] = tuple(row.get(a, ('?',))[0] for a in range(3))
    dup = [(i, j) for i in range(12) for j in range(i + 1, 12) if perms[i] == perms[j]]
    chk.check(not dup, 'C18-R2', CAT, Q, '12 caps are 12 distinct signed permutations', '', f'caps {dup} decode identically: distinct codes give the same major axis', node=fn)
    # ---- R3 minor axis
    masks = {}
    for s in fn.body:
        if isinstance(s, ast.Assign) and isinstance(s.targets[0], ast.Name) and re.match(r'^\(?cap // 4\)? == (\d)$', unparse(s.value)):
            masks[s.targets[0].id] = int(re.match(r'^\(?cap // 4\)? == (\d)$', unparse(s.value)).group(1))
    okaz = txt.get('az') == '(iaz + 0.5) * (1.0 / EULER_ABIN) * np.pi'
    # after the cap table xx, yy are re-bound to cos/sin
    cs = [unparse(s) for s in fn.body if isinstance(s, ast.Assign) and unparse(s.targets[0]) in ('xx', 'yy') and 'az' in unparse(s.value)]
    okaz = okaz and cs == ['xx = np.cos(az)', 'yy = np.sin(az)']
    chk.check(okaz and len(masks) == 3 and sorted(masks.values()) == [0, 1, 2], 'C18-R3', CAT, Q, 'azimuth angle and the three dominant-axis groups', f'{masks}',
              f'az = {txt.get("az")}; cos/sin = {cs}; group masks {masks}', node=fn)
    for mname, g in sorted(masks.items(), key=lambda kv: kv[1]):
        comp = {}
        for s in fn.body:
            if isinstance(s, ast.Assign):
                m = re.match(rf'^minor\[{mname}, (\d)\]$', unparse(s.targets[0]))
                if m:
                    comp[int(m.group(1))] = (unparse(s.value), s)
        free = sorted(a for a in comp if a != g)
        ok = sorted(comp) == [0, 1, 2] and len(free) == 2
        if ok:
            va, vb = comp[free[0]][0], comp[free[1]][0]
            ok = {va, vb} == {f'xx[{mname}]', f'yy[{mname}]'}
            a, b_ = free
            num1 = f'minor[{mname}, {a}] * major[{mname}, {a}] + minor[{mname}, {b_}] * major[{mname}, {b_}]'
            num2 = f'minor[{mname}, {b_}] * major[{mname}, {b_}] + minor[{mname}, {a}] * major[{mname}, {a}]'
            third = comp[g][0]
            ok = ok and third in (f'({num1}) / -major[{mname}, {g}]', f'({num2}) / -major[{mname}, {g}]')
        chk.check(ok, 'C18-R3', CAT, Q, f'group {g}: minor perpendicular to major by construction',
                  f'{ {k: v[0] for k, v in comp.items()} }',
                  f'group {g} (dominant axis {g}): minor components { {k: v[0] for k, v in comp.items()} }: the third component must be -(m_a M_a + m_b M_b)/M_{g} so that minor.major = 0',
                  node=comp[g][1] if g in comp else fn)
    norms = [unparse(s) for s in fn.body if isinstance(s, ast.AugAssign) and 'np.linalg.norm' in unparse(s.value)]
    chk.check('minor *= 1.0 / np.linalg.norm(minor, axis=1).reshape(N, 1)' in norms and 'middle *= 1.0 / np.linalg.norm(middle, axis=1).reshape(N, 1)' in norms,
              'C18-R4', CAT, Q, 'minor and middle are normalised', '', f'normalisations present: {norms}', node=fn)
    # ---- R4 cross product
    for i in range(3):
        j, k = (i + 1) % 3, (i + 2) % 3
        want_ = f'minor[:, {j}] * major[:, {k}] - minor[:, {k}] * major[:, {j}]'
        got = [unparse(s.value) for s in fn.body if isinstance(s, ast.Assign) and unparse(s.targets[0]) == f'middle[:, {i}]']
        chk.check(got == [want_], 'C18-R4', CAT, Q, f'middle[{i}] = minor[{j}]*major[{k}] - minor[{k}]*major[{j}]', '',
                  f'middle[{i}] = {got}; handedness requires {want_}', node=fn)
    rets = [n for n in walk_no_nested(fn) if isinstance(n, ast.Return)]
    order = [unparse(s) for s in fn.body]
    chk.check(len(rets) == 1 and unparse(rets[0].value) == '(minor, middle, major)', 'C18-R4', CAT, Q, 'returns (minor, middle, major)', '',
              f'returns {unparse(rets[0].value) if rets else None}', node=fn, nontrivial=False)
