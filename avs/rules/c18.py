"""C18 -- every eigenvector code decodes to a distinct orthonormal triad (algebraic structure)."""
import ast
from fractions import Fraction

from ..core.lin import Lin, Facts
from ..core.poly import Poly
from ..core.capeval import Algebra, CapEval, V3
from ..core.srcmodel import dotted, unparse, walk_no_nested, AnalysisError, names_in

CAT = 'abacusnbody/data/compaso_halo_catalog.py'
FILES = [CAT]
Q = '_unpack_euler16'


def const_of(src, name):
    v = src.module_assigns(CAT).get(name)
    return v.value if isinstance(v, ast.Constant) and isinstance(v.value, int) else None


def roles_ready(env, F, b, A, T):
    q1 = F.fdiv(b, A)
    want = [b - q1.scale(A), F.fdiv(q1, T * T), q1 - F.fdiv(q1, T * T).scale(T * T)]
    return all(any(v == w for v in env.values()) for w in want)


def axis_columns(chk):
    """The loader that serves the sigma*_eigenvecs{Min,Mid,Maj}* columns: the decoder's result tuple is unpacked in the decoder's order
    (minor, middle, major -- C18-R4 decides what the decoder returns) and every store `columns[<name built with 'Min'|'Mid'|'Maj'>] = <axis>` pairs
    Min with the first, Mid with the second, Maj with the third component."""
    src = chk.src
    setup = src.func(CAT, 'CompaSOHaloCatalog._setup_halo_field_loaders')
    lds = [n for n in ast.walk(setup) if isinstance(n, ast.FunctionDef) and n is not setup and any(isinstance(c, ast.Call) and dotted(c.func) == '_unpack_euler16' for c in ast.walk(n))]
    if len(lds) != 1:
        raise AnalysisError(f'eigenvector loader not found ({len(lds)} candidates)')
    ld = lds[0]
    un = [n for n in ast.walk(ld) if isinstance(n, ast.Assign) and isinstance(n.value, ast.Call) and dotted(n.value.func) == '_unpack_euler16']
    comp = {}
    if len(un) == 1 and isinstance(un[0].targets[0], ast.Tuple) and len(un[0].targets[0].elts) == 3 and all(isinstance(e, ast.Name) for e in un[0].targets[0].elts):
        comp = {e.id: k for k, e in enumerate(un[0].targets[0].elts)}
    elif len(un) == 1 and isinstance(un[0].targets[0], ast.Name):
        comp = {f'{un[0].targets[0].id}[{k}]': k for k in range(3)}
    sdefs = {}
    for n in ast.walk(ld):
        if isinstance(n, ast.Assign) and len(n.targets) == 1 and isinstance(n.targets[0], ast.Name):
            sdefs.setdefault(n.targets[0].id, []).append(n.value)
    found = {}
    problems = []
    for n in ast.walk(ld):
        if isinstance(n, ast.Assign) and len(n.targets) == 1 and isinstance(n.targets[0], ast.Subscript) and isinstance(n.targets[0].value, ast.Name):
            key = n.targets[0].slice
            if isinstance(key, ast.Name) and len(sdefs.get(key.id, [])) == 1:
                key = sdefs[key.id][0]
            tags = [t for t in ('Min', 'Mid', 'Maj') if any(isinstance(c, ast.Constant) and c.value == t for c in ast.walk(key))]
            if len(tags) != 1:
                continue
            v = unparse(n.value)
            if v not in comp:
                problems.append(f'line {n.lineno}: {unparse(n)[:70]} stores something that is not one component of the decoded triple')
                continue
            found[tags[0]] = comp[v]
            if comp[v] != ('Min', 'Mid', 'Maj').index(tags[0]):
                problems.append(f'line {n.lineno}: the {tags[0]} column receives component #{comp[v]} ({v}) of (minor, middle, major)')
    # the table-driven spelling: for which, axis in zip(('Min', 'Mid', 'Maj'), <the decoded triple>): columns[<name with which>] = axis
    for lp in [n for n in ast.walk(ld) if isinstance(n, ast.For)]:
        it = lp.iter
        if isinstance(it, ast.Call) and dotted(it.func) == 'zip' and len(it.args) == 2 and isinstance(it.args[0], ast.Tuple) and isinstance(lp.target, ast.Tuple) \
                and len(lp.target.elts) == 2 and all(isinstance(e, ast.Name) for e in lp.target.elts) and all(isinstance(e, ast.Constant) for e in it.args[0].elts):
            tags_ = [e.value for e in it.args[0].elts]
            whole = isinstance(it.args[1], ast.Name) and len(un) == 1 and isinstance(un[0].targets[0], ast.Name) and un[0].targets[0].id == it.args[1].id
            trip = isinstance(it.args[1], ast.Tuple) and [unparse(e) for e in it.args[1].elts]
            stores_ = [n for n in ast.walk(lp) if isinstance(n, ast.Assign) and isinstance(n.targets[0], ast.Subscript) and unparse(n.value) == lp.target.elts[1].id]
            if stores_ and (whole or trip):
                for i_, tg_ in enumerate(tags_):
                    comp_i = i_ if whole else comp.get(trip[i_]) if i_ < len(trip) else None
                    if tg_ in ('Min', 'Mid', 'Maj'):
                        found[tg_] = comp_i
                        if comp_i != ('Min', 'Mid', 'Maj').index(tg_):
                            problems.append(f'line {lp.lineno}: in the zipped table the {tg_} column receives component #{comp_i} of (minor, middle, major)')
    if problems:
        chk.refuted('C18-R6', CAT, 'CompaSOHaloCatalog._setup_halo_field_loaders.eigvecs_loader', 'Min <- minor, Mid <- middle, Maj <- major', '; '.join(problems[:3]) +
                    ': the column delivers another axis of the code than its name says (still a unit vector of an orthonormal triad, so nothing looks wrong)', node=ld)
    elif sorted(found) == ['Maj', 'Mid', 'Min']:
        chk.proven('C18-R6', CAT, 'CompaSOHaloCatalog._setup_halo_field_loaders.eigvecs_loader', 'Min <- minor, Mid <- middle, Maj <- major', f'{found}')
    # another spelling (a zip of names and axes ...): the pairing is then decided by the imported C02-R6 obligation of this loader alone


def run(chk):
    src = chk.src
    fn = src.func(CAT, Q)
    chk.explanation = ('The algebraic structure of _unpack_euler16 is decided from the source: the code is decomposed as cap / in-cap '
                       'cell / azimuth by floor-division normal forms (so the valid codes are exactly 12*121*45); the 36 masked stores of '
                       'the major axis form, per cap, a signed permutation of the unit vector (zz, yy, xx) with zz on axis cap//4, and the '
                       '12 signed permutations are pairwise distinct; the minor axis is (cos az, sin az) on the two other axes with the '
                       'third component solved from minor.major = 0 by division through the dominant component; the middle axis is the '
                       'Levi-Civita cross product minor x major; all three are normalised. Distinctness within a cap and the angular '
                       'coverage are numerical and not decided.')
    chk.rule('C18-R1', 'code = ((cap*T^2 + cell)*A + iaz) with A=45, T=11; it = floor(sqrt(cell)), ir = cell - it^2', 5)
    chk.rule('C18-R5', 'integer arithmetic on the code cannot wrap: a subtraction whose operands may both be unsigned (the column is uint16) is provably non-negative', 0)
    chk.rule('C18-R2', 'per cap the major axis is a signed permutation of the unit vector (zz,yy,xx), 12 distinct permutations', 13)
    chk.rule('C18-R3', 'minor = (cos az, sin az) on the two non-dominant axes; third component = -(m_a M_a + m_b M_b)/M_k; normalised', 36)
    chk.rule('C18-R6', 'the loader hands each decoded axis to the column of its own name (Min <- minor, Mid <- middle, Maj <- major) whichever subset of the three '
                       'columns is requested (obligations C02-R6 for the eigenvector loader)', 1)
    from . import c02
    chk.import_from(c02.run, 'C02', ('C02-R6',), 'C18-R6')
    axis_columns(chk)
    chk.rule('C18-R4', 'middle = minor x major (cyclic Levi-Civita pattern), normalised; returns (minor, middle, major)', 13)
    chk.assume('within-cap injectivity of the real-valued cell map and the 4-degree coverage are numerical properties, not decided')
    A, T = const_of(src, 'EULER_ABIN'), const_of(src, 'EULER_TBIN')
    chk.check(A == 45 and T == 11, 'C18-R1', CAT, '<module>', 'EULER_ABIN = 45, EULER_TBIN = 11', f'{A}, {T}: {12 * (T or 0) ** 2 * (A or 0)} valid codes',
              f'format constants are {A}, {T}; the 16-bit format has 45 azimuth bins and 11x11 in-cap cells (65340 codes)')
    if A is None or T is None:
        raise AnalysisError('EULER_ABIN / EULER_TBIN not integer literals')
    # ---- R1: symbolic evaluation of the decomposition
    F = Facts()
    b = Lin.sym('code')
    F.add_ge(b)
    env = {fn.args.args[0].arg: b}
    consts = {'EULER_ABIN': Lin.const(A), 'EULER_TBIN': Lin.const(T)}

    def ev(n):
        if isinstance(n, ast.Name):
            return env.get(n.id, consts.get(n.id))
        if isinstance(n, ast.Constant) and isinstance(n.value, int):
            return Lin.const(n.value)
        if isinstance(n, ast.BinOp):
            l, r = ev(n.left), ev(n.right)
            if l is None or r is None:
                return None
            try:
                if isinstance(n.op, ast.Add):
                    return l + r
                if isinstance(n.op, ast.Sub):
                    return l - r
                if isinstance(n.op, ast.Mult):
                    return l * r
                if isinstance(n.op, ast.FloorDiv) and r.is_const() and r.c > 0:
                    return F.fdiv(l, int(r.c))
                if isinstance(n.op, ast.Mod) and r.is_const() and r.c > 0:
                    return F.mod(l, int(r.c))
            except ValueError:
                return None
        return None
    # prefix of integer statements: evaluated as floor-division normal forms (Lin)
    k0 = None
    for idx, s in enumerate(fn.body):
        if isinstance(s, ast.Expr):
            continue
        if isinstance(s, ast.Assign) and len(s.targets) == 1 and isinstance(s.targets[0], ast.Tuple) and len(s.targets[0].elts) == 2 \
                and all(isinstance(e, ast.Name) for e in s.targets[0].elts) and isinstance(s.value, ast.Call) \
                and dotted(s.value.func) in ('np.divmod', 'divmod') and len(s.value.args) == 2:
            # q, r = divmod(x, c)
            x_, c_ = ev(s.value.args[0]), ev(s.value.args[1])
            if x_ is not None and c_ is not None and c_.is_const() and c_.c > 0:
                qv = F.fdiv(x_, int(c_.c))
                env[s.targets[0].elts[0].id] = qv
                env[s.targets[0].elts[1].id] = x_ - qv.scale(int(c_.c))
                continue
        if isinstance(s, ast.Assign) and len(s.targets) == 1 and isinstance(s.targets[0], ast.Name):
            v = ev(s.value)
            if v is not None:
                env[s.targets[0].id] = v
                continue
            if isinstance(s.value, ast.Call) and dotted(s.value.func) in ('np.zeros', 'np.empty') or unparse(s.value).endswith('.shape[0]'):
                continue
        k0 = idx
        break
    if k0 is None:
        raise AnalysisError('_unpack_euler16: no non-integer statement found')
    # an integer of the decomposition that is overwritten by something that is not integer arithmetic (np.where, a mask,
    # a clip) changes which code is decoded for some inputs
    for s_ in fn.body[k0:]:
        if isinstance(s_, ast.Assign) and len(s_.targets) == 1 and isinstance(s_.targets[0], ast.Name) and s_.targets[0].id in env \
                and any(isinstance(x, ast.Name) and x.id in env for x in ast.walk(s_.value)) and not roles_ready(env, F, b, A, T):
            chk.refuted('C18-R1', CAT, Q, 'the packed code is decoded as it is',
                        f'{unparse(s_)[:80]}: {s_.targets[0].id} (= {env[s_.targets[0].id]}) is replaced by a value that is not integer arithmetic on the code '
                        'before the decomposition is complete: the codes for which this changes the value decode to another code\'s triad (or to none)', node=s_)
            return
        if not (isinstance(s_, ast.Assign) and len(s_.targets) == 1 and isinstance(s_.targets[0], ast.Name) and s_.targets[0].id not in env
                and isinstance(s_.value, (ast.Compare, ast.BoolOp))):
            break
    q1 = F.fdiv(b, A)
    want = {'iaz': b - q1.scale(A), 'cap': F.fdiv(q1, T * T), 'cell': q1 - F.fdiv(q1, T * T).scale(T * T)}
    roles = {}
    for role, w in want.items():
        roles[role] = sorted(nm for nm, v in env.items() if v == w)
    first = fn.body[k0]
    for role, desc, exp in (('iaz', 'azimuth index = code mod 45', 'code - 45*(code//45)'), ('cap', 'cap = code // (45*121)', '(code//45)//121'),
                            ('cell', 'in-cap cell = (code // 45) mod 121', '(code//45) - 121*cap')):
        chk.check(bool(roles[role]), 'C18-R1', CAT, Q, desc, f'held by {roles[role]}',
                  f'no variable holds {exp} when the real-valued part starts (line {first.lineno}); integer variables are ' +
                  ', '.join(f'{k} = {v}' for k, v in sorted(env.items()) if k != 'code')[:300], node=first)
    if not all(roles.values()):
        return
    _wrap_check(chk, fn, env, ev, F)
    NORM = src.module_assigns(CAT).get('EULER_NORM')
    okn = isinstance(NORM, ast.Constant) and isinstance(NORM.value, float) and abs(NORM.value - 1.0 / (1.0 - 0.5 ** 0.5) ** 0.5) < 1e-12
    chk.check(okn, 'C18-R1', CAT, '<module>', 'EULER_NORM = 1/sqrt(1 - 1/sqrt(2))', '', f'EULER_NORM = {unparse(NORM) if NORM is not None else None}', node=NORM or fn)
    # ---- per-cap symbolic evaluation
    alg = Algebra()
    cconsts = {'EULER_ABIN': Poly.const(A), 'EULER_TBIN': Poly.const(T), 'EULER_NORM': Poly.sym('NORM')}
    cell, iaz = Poly.sym('cell'), Poly.sym('iaz')
    # the format's inverse cell map (reference), built through the same algebra so that symbols are shared
    it_ref = CapEval._floor(alg.sym_sqrt(cell, False))
    ir_ref = cell - it_ref * it_ref
    half = Poly.const(Fraction(1, 2))
    tau = (it_ref + half) / Poly.const(T) / Poly.sym('NORM')
    Y_ref = alg.div(tau * alg.sym_sqrt(Poly.const(2) - tau * tau, False), Poly.const(1) - tau * tau)
    r_ref = alg.div(ir_ref + half, it_ref + half) - 1
    X_ref = r_ref * Y_ref
    az_ref = (iaz + half) * Poly.sym('PI') / Poly.const(A)
    results = {}
    reported = set()
    for c in range(12):
        ce = CapEval(alg, cconsts, roles['cap'], c)
        for s in fn.body[:k0]:
            if isinstance(s, ast.Assign) and isinstance(s.targets[0], ast.Name) and s.targets[0].id in env and ev(s.value) is not None:
                continue
            if isinstance(s, ast.Assign) and isinstance(s.targets[0], ast.Tuple) and isinstance(s.value, ast.Call) and dotted(s.value.func) in ('np.divmod', 'divmod'):
                continue
            ce.stmt(s)
        for nm, v in env.items():
            if nm in roles['cap']:
                ce.env[nm] = Poly.const(c)
            elif nm in roles['cell']:
                ce.env[nm] = cell
            elif nm in roles['iaz']:
                ce.env[nm] = iaz
        try:
            ce.run(fn.body[k0:])
        except AnalysisError as e:
            # e.g. a division by an identically-zero quantity: an axis that was never assigned for this cap
            ce.problem(ce.cur or fn, f'evaluation stopped: {e}')
        for node, text in ce.problems:
            key = (node.lineno, text.split(':')[0][:40])
            if key not in reported:
                reported.add(key)
                chk.refuted('C18-R2', CAT, Q, f'line {node.lineno}: {unparse(node)[:50]}', f'cap {c}: {text}', node=node)
        results[c] = ce
    if reported:
        return
    perms = {}
    for c in range(12):
        ce = results[c]
        ret = ce.ret[1] if ce.ret else None
        if not (isinstance(ret, tuple) and len(ret) == 3 and all(isinstance(x, V3) for x in ret)):
            chk.refuted('C18-R4', CAT, Q, 'returns (minor, middle, major)', f'cap {c}: the function does not return three (N,3) arrays', node=ce.ret[0] if ce.ret else fn)
            return
        minor, middle, major = ret
        # --- R2: major is a signed permutation of the reference unit vector
        Zs = [i for i in range(3) if alg.positive(major.c[i]) == 1]
        unit = alg.ident_zero(major.c[0] * major.c[0] + major.c[1] * major.c[1] + major.c[2] * major.c[2] - 1)
        perm = None
        if len(Zs) == 1 and unit:
            Z = major.c[Zs[0]]
            perm = {}
            for i in range(3):
                for nm_, R in (('Z', Z), ('Y', Y_ref * Z), ('X', X_ref * Z)):
                    for sg in (1, -1):
                        if nm_ not in [p[1:] for p in perm.values()] and i not in perm and alg.ident_zero(major.c[i] - R * sg):
                            perm[i] = ('+' if sg == 1 else '-') + nm_
            if sorted(v[1:] for v in perm.values()) != ['X', 'Y', 'Z']:
                perm = None
        chk.check(perm is not None, 'C18-R2', CAT, Q, f'cap {c}: major axis is a signed permutation of the unit vector (1, Y, X)/sqrt(1+X^2+Y^2) of the cell',
                  f'{perm}', f'cap {c}: major = ({major.c[0]!r}, {major.c[1]!r}, {major.c[2]!r})'[:400] +
                  (': not of unit length' if not unit else ': not the format\'s cell map (Y = t sqrt(2-t^2)/(1-t^2), t = (it+1/2)/(11 NORM); X = ((ir+1/2)/(it+1/2) - 1) Y) placed on three axes'),
                  node=fn, nf=perm)
        perms[c] = tuple((perm or {}).get(i, '?') for i in range(3))
        # --- R3: minor
        dot = minor.c[0] * major.c[0] + minor.c[1] * major.c[1] + minor.c[2] * major.c[2]
        okdot = alg.ident_zero(dot)
        chk.check(okdot, 'C18-R3', CAT, Q, f'cap {c}: minor . major = 0 identically', '',
                  f'cap {c}: minor . major does not vanish identically: minor = ({minor.c[0]!r}, {minor.c[1]!r}, {minor.c[2]!r})'[:500], node=fn)
        bad_div = []
        for st, d, txt in ce.v3_divisions:
            if not _nonzero(alg, d):
                bad_div.append((st, txt, d))
        chk.check(not bad_div, 'C18-R3', CAT, Q, f'cap {c}: every division in the axis construction is by a strictly positive quantity',
                  f'{len(ce.v3_divisions)} division(s)',
                  '; '.join(f'cap {c}, line {st.lineno}: divides by {txt} = {d!r}, which can vanish (e.g. the centre column ir == it gives X = 0): NaN axes' for st, txt, d in bad_div[:2])[:600],
                  node=bad_div[0][0] if bad_div else fn)
        trig = {k: v for k, v in alg.trig.items() if v[1] == az_ref}
        cs = {v[0]: Poly.sym(k) for k, v in trig.items()}
        okfree = False
        if minor.normalised and minor.raw and 'cos' in cs and 'sin' in cs:
            raw = minor.raw
            hits = {}
            for i in range(3):
                for nm_ in ('cos', 'sin'):
                    if raw[i] == cs[nm_] or raw[i] == -cs[nm_]:
                        hits[nm_] = i
            okfree = len(hits) == 2 and hits['cos'] != hits['sin']
        chk.check(okfree, 'C18-R3', CAT, Q, f'cap {c}: minor has (cos az, sin az), az = (iaz + 1/2) pi / 45, on two axes and is normalised',
                  '', f'cap {c}: minor before normalisation = {[repr(x) for x in (minor.raw or minor.c)]}, normalised = {minor.normalised}; azimuth angles seen: {[repr(v[1]) for v in alg.trig.values()][:3]}'[:500], node=fn)
        # --- R4: middle = minor x major, normalised
        okmid = middle.normalised and middle.raw is not None
        if okmid:
            for i in range(3):
                j, k = (i + 1) % 3, (i + 2) % 3
                cross = minor.c[j] * major.c[k] - minor.c[k] * major.c[j]
                if not alg.ident_zero(middle.raw[i] - cross):
                    okmid = False
        chk.check(okmid, 'C18-R4', CAT, Q, f'cap {c}: middle = minor x major, normalised', '',
                  f'cap {c}: middle is not the normalised cross product minor x major (handedness / orthogonality lost); normalised = {middle.normalised}', node=fn)
    dup = [(i, j) for i in range(12) for j in range(i + 1, 12) if perms[i] == perms[j]]
    chk.check(not dup, 'C18-R2', CAT, Q, '12 caps are 12 distinct signed permutations', f'{perms}', f'caps {dup} decode identically: distinct codes give the same major axis', node=fn)
    rets = [n for n in walk_no_nested(fn) if isinstance(n, ast.Return)]
    chk.check(len(rets) == 1, 'C18-R4', CAT, Q, 'single return of (minor, middle, major)', '', f'{len(rets)} return statements', node=fn, nontrivial=False)


def _nonzero(alg, d):
    """d is a non-zero constant times (inverse) powers of strictly positive symbols."""
    if len(d.t) != 1:
        return False
    (m, c), = d.t.items()
    for s, _ in m:
        if alg.sqrt_pos.get(s, False):
            continue
        if s in alg.norm:
            comps = alg.norm[s]
            has = {alg.trig[k][0] for x in comps for k in alg.trig if x == Poly.sym(k) or x == -Poly.sym(k)}
            if {'cos', 'sin'} <= has:
                continue          # norm >= sqrt(cos^2 + sin^2) = 1
            if alg.ident_zero(alg.sqrt[s] - 1):
                continue
            return False
        return False
    return c != 0


def _wrap_check(chk, fn, lin_env, lin_ev, F):
    """Numeric kinds: 'u' possibly unsigned integer (derived from the uint16 column by integer operations), 's' signed
    integer, 'f' float, 'lit' integer literal (takes the kind of the other operand under NumPy promotion).  A subtraction
    (or unary minus) on kind 'u' wraps around when the true result is negative, so it must be provably >= 0 (decided with the
    floor-division facts of rule R1) or one operand must have been converted to a signed / float type first."""
    kind = {fn.args.args[0].arg: 'u'}
    consts = {'EULER_ABIN', 'EULER_TBIN'}
    # re-run the Lin environment statement by statement so that each name has the Lin value it has AT the subtraction
    lenv = {fn.args.args[0].arg: Lin.sym('code')}

    def lin(e):
        saved = dict(lin_env)
        lin_env.clear()
        lin_env.update(lenv)
        try:
            return lin_ev(e)
        finally:
            lin_env.clear()
            lin_env.update(saved)

    def k(e):
        if isinstance(e, ast.Constant):
            return 'lit' if type(e.value) is int else ('f' if isinstance(e.value, float) else 'x')
        if isinstance(e, ast.Name):
            if e.id in consts:
                return 'lit'
            return kind.get(e.id, 'x')
        if isinstance(e, ast.UnaryOp):
            return k(e.operand)
        if isinstance(e, ast.Subscript):
            return k(e.value)
        if isinstance(e, ast.Call):
            d = dotted(e.func)
            if isinstance(e.func, ast.Attribute) and e.func.attr == 'astype' and e.args:
                a = unparse(e.args[0])
                if a.replace('np.', '') in ('int', 'int64', 'int32', 'intp', 'int16'):
                    return 's'
                if 'float' in a:
                    return 'f'
                if a.endswith('.dtype'):
                    return k(e.args[0].value)
                if 'uint' in a:
                    return 'u'
                return 'x'
            if d in ('np.int64', 'np.int32', 'int', 'np.intp'):
                return 's'
            if d in ('np.uint16', 'np.uint32', 'np.uint64', 'np.uint8'):
                return 'u'
            if d.startswith('np.') or d.startswith('math.'):
                return 'f'
            if isinstance(e.func, ast.Attribute) and e.func.attr in ('reshape', 'copy', 'view'):
                return k(e.func.value)
            return 'x'
        if isinstance(e, ast.BinOp):
            a, b_ = k(e.left), k(e.right)
            if isinstance(e.op, ast.Div) or 'f' in (a, b_):
                return 'f'
            if 's' in (a, b_):
                return 's'
            if 'u' in (a, b_):
                return 'u'
            if a == b_ == 'lit':
                return 'lit'
            return 'x'
        return 'x'
    n = 0
    for s_ in fn.body:
        for e in ast.walk(s_):
            if isinstance(e, ast.BinOp) and isinstance(e.op, ast.Sub) and k(e.left) in ('u', 'lit') and k(e.right) in ('u', 'lit') and 'u' in (k(e.left), k(e.right)):
                l, r = lin(e.left), lin(e.right)
                ok = l is not None and r is not None and F.entails_ge(l - r)
                n += 1
                chk.check(ok, 'C18-R5', CAT, Q, f'{unparse(e)} >= 0 (unsigned operands)', f'{(l - r) if ok else ""}',
                          f'{unparse(e)}: both operands can be unsigned integers (the eigenvector column is uint16) and the difference is not provably >= 0: '
                          'it wraps around to a huge positive number instead of going negative', node=s_)
        if isinstance(s_, ast.Assign) and len(s_.targets) == 1 and isinstance(s_.targets[0], ast.Name):
            kind[s_.targets[0].id] = k(s_.value)
            v = lin(s_.value)
            if v is not None:
                lenv[s_.targets[0].id] = v
            else:
                lenv.pop(s_.targets[0].id, None)
        elif isinstance(s_, ast.AugAssign) and isinstance(s_.target, ast.Name):
            kind[s_.target.id] = k(ast.BinOp(left=s_.target, op=s_.op, right=s_.value))
            lenv.pop(s_.target.id, None)
