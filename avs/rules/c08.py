"""C08 -- every Fourier mode is binned exactly once into the right (k, mu) bin."""
import ast
from fractions import Fraction

from ..core.lin import Lin
from ..core.absval import Int, State
from ..core import prove, own
from ..core.bounds_stmt import KernelS
from ..core.poly import Poly
from ..core.bitpoly import BPEval, NotInDomain, to_poly
from ..core.srcmodel import dotted, unparse, walk_no_nested, AnalysisError, names_in, stores_in, norm

PS = 'abacusnbody/analysis/power_spectrum.py'
FILES = [PS]
KERNELS = ['bin_kmu', 'bin_kppi']
# thorough tier: the same fold rule over the other mode loops of the module
WIDE = ['expand_poles_to_3d', 'get_smoothing', 'get_delta_mu2']


def run(chk):
    chk.explanation = ('The counting skeleton of bin_kmu / bin_kppi is decided for all mesh sizes, edge arrays and thread counts: '
                       '(R1) each folded square realises min(X, n-X)^2 for both parities of n (linear-integer entailment on the switch '
                       'condition); (R2) every early `break` and every search cursor carried across iterations tests a quantity that '
                       'is monotone in that loop variable (monotonicity lattice with the t/(s+t) lemma); (R3) every bin-search loop is '
                       'dominated by its range test or covered by a documented precondition; (R4) the mode weight is 1 on the '
                       'self-conjugate planes kz=0 and 2kz=n and 2 elsewhere, identically for the count and every weighted '
                       'accumulator (case evaluation by entailment); (R5) accumulators are per-thread rows reduced after the loop, '
                       'counts are int64, means divide only non-empty bins; (R6) the loops cover [0,n)x[0,n)x[0,n//2+1).')
    chk.rule('C08-R1', 'folded square == min(X, n-X)^2 for every X in [0,n) and every n (odd and even)', 4)
    chk.rule('C08-R8', 'every exit on the last edge of an axis has the strictness of that axis: |k|, k_perp, k_par open at the top (>=), mu closed (>)', 3)
    chk.rule('C08-R2', 'break / carried search cursor only on a quantity that is non-decreasing in the loop variable', 4)
    chk.rule('C08-R3', 'each search loop "while X > E[b+1]" is dominated by "X >= E[-1]" exit (or a documented bound on X)', 4)
    chk.rule('C08-R4', 'mode weight is 1 for k=0 and 2k=n, 2 otherwise, for counts and all weighted sums alike', 6)
    chk.rule('C08-R5', 'per-thread accumulators: sized by the thread count, row = get_thread_id(), int64 counts, summed over axis 0, guarded division', 8)
    chk.rule('C08-R6', 'loops i,j in [0,n), k in [0,n//2+1); mesh value read at [i,j,k]', 2)
    chk.rule('C08-R7', 'P_n(mu^2, l) is the Legendre polynomial P_l(mu) for l = 0..6, 8, 10 (even and odd orders; exact identity in powers of mu); pole weight = (2l+1) P_l', 10)
    chk.assume('which side of an INTERIOR edge a mode lying exactly on it falls is not fixed by the statement (float32 rounding decides); the two ends of each axis are fixed by the reviewed table TOP_EDGE (R8) and the lower range tests (R3)')
    chk.assume('mu^2 = k^2/|k|^2 <= 1 <= muedges[-1] ("mu ranges from 0 to 1"): the mu search needs no explicit guard')
    src = chk.src
    for q in KERNELS:
        fn = src.func(PS, q)
        fold(chk, fn, q, 'C08-R1')
        mono_rules(chk, fn, q)
        top_edge_rule(chk, fn, q)
        guards(chk, fn, q)
        hermitian(chk, fn, q)
        accumulators(chk, fn, q)
        ranges(chk, fn, q)
    legendre(chk)
    if chk.tier == 'thorough':
        for q in WIDE:
            if src.has_func(PS, q):
                sub = _Sink(chk)
                fold(sub, src.func(PS, q), q, 'C08-R1')
                for o in sub.bad:
                    chk.note(f'NOTE (outside the anchors of C08) {q}: {o}')


class _Sink:
    """Collects widened findings as notes instead of obligations."""
    def __init__(self, chk):
        self.src, self.bad = chk.src, []

    def check(self, cond, rule, file, func, key, ok='', bad='', **kw):
        if not cond:
            self.bad.append(f'{key}: {bad}')

    def refuted(self, rule, file, func, key, detail='', **kw):
        self.bad.append(f'{key}: {detail}')

    def proven(self, *a, **k):
        pass

    def unknown(self, rule, file, func, key, detail='', **kw):
        self.bad.append(f'{key}: undecided {detail}')


# ------------------------------------------------------------------------ R1
def find_folds(fn):
    out = []
    for n in walk_no_nested(fn):
        if isinstance(n, ast.Assign) and isinstance(n.value, ast.IfExp) and isinstance(n.targets[0], ast.Name):
            out.append(n)
    return out


def fold(chk, fn, q, rule):
    k = KernelS(chk.src, PS, q, {}, {}, {})
    for asg in find_folds(fn):
        e = asg.value
        xs = names_in(e.test) & names_in(e.body)
        # loop variable X and mesh size n: X is the for-target among the names of the test
        loopvars = {l.target.id for l in walk_no_nested(fn) if isinstance(l, ast.For) and isinstance(l.target, ast.Name)}
        X = [x for x in xs if x in loopvars]
        if len(X) != 1:
            continue
        X = X[0]
        others = sorted(names_in(e.test) - {X})
        if len(others) != 1:
            continue
        n = others[0]
        # arms
        try:
            ev = BPEval({}, None, ('dtype',))
            b, o = to_poly(ev.ev(e.body)), to_poly(ev.ev(e.orelse))
        except NotInDomain:
            continue
        px, pn = Poly.sym(X), Poly.sym(n)
        sq = (b == px * px and o == (px - pn) * (px - pn))
        key = f'{unparse(asg.targets[0])} = fold({X}, {n})'
        if not sq:
            if b.syms() <= {X} and o.syms() <= {X, n}:
                # linear fold (kx = i*dk if .. else (i-n)*dk) or something else: only squares are anchored here
                lin_ok = (b == px and o == px - pn)
                if not lin_ok:
                    chk.refuted(rule, PS, q, key, f'arms {b} / {o} are not X^2 and (X-n)^2', node=asg)
                    continue
            else:
                continue
        st = State()
        st.env[X] = Int(Lin.sym(X))
        st.env[n] = Int(Lin.sym(n))
        st.facts.add_ge(Lin.sym(X))
        st.facts.add_lt(Lin.sym(X), Lin.sym(n))
        c = k.cond(e.test, st, quiet=True)
        if c.tf is None or c.ff is None:
            chk.unknown(rule, PS, q, key, f'switch condition {unparse(e.test)} is not a linear comparison', node=asg)
            continue
        lx, ln = Lin.sym(X), Lin.sym(n)
        sa, sb = st.copy(), st.copy()
        for l in c.tf:
            sa.facts.add_ge(l)
        for l in c.ff:
            sb.facts.add_ge(l)
        okA = prove.entails_ge(sa, ln - lx.scale(2))        # X kept  => 2X <= n
        okB = prove.entails_ge(sb, lx.scale(2) - ln)        # X folded => 2X >= n
        wit = None
        if not okA:
            wit = prove.witness(sa, ln - lx.scale(2))
        elif not okB:
            wit = prove.witness(sb, lx.scale(2) - ln)
        chk.check(okA and okB, rule, PS, q, key, f'switch "{unparse(e.test)}": kept => 2{X}<={n}, folded => 2{X}>={n}',
                  f'switch "{unparse(e.test)}" does not realise min({X}, {n}-{X}): ' +
                  ('an index with 2X > n is kept positive' if not okA else 'an index with 2X < n is folded to a negative frequency that does not exist') +
                  ' (odd mesh)' * bool(wit and wit.get(n, 0) % 2), node=asg, witness=wit, nf=unparse(e.test))


# ------------------------------------------------------------------------ R2
UP, DOWN, CONST, NON, UNK = 'up', 'down', 'const', 'nonmono', 'unknown'


class Mono:
    """Monotonicity of scalars with respect to one loop variable (lemma L13)."""

    def __init__(self, fn, loop):
        self.fn, self.loop = fn, loop
        self.v = loop.target.id
        self.defs = {}
        # names (re)assigned inside this loop body (not descending into nested defs)
        for n in walk_no_nested(ast.Module(body=loop.body, type_ignores=[])):
            if isinstance(n, ast.Assign):
                for t in n.targets:
                    if isinstance(t, ast.Name):
                        self.defs.setdefault(t.id, []).append(n)
                    elif isinstance(t, ast.Tuple) and isinstance(n.value, ast.Tuple):
                        for e, val in zip(t.elts, n.value.elts):
                            if isinstance(e, ast.Name):
                                self.defs.setdefault(e.id, []).append(ast.Assign(targets=[e], value=val))
            elif isinstance(n, ast.AugAssign) and isinstance(n.target, ast.Name):
                self.defs.setdefault(n.target.id, []).append(n)
            elif isinstance(n, ast.For) and isinstance(n.target, ast.Name):
                self.defs.setdefault(n.target.id, []).append(n)
        self.nonneg_names = self._nonneg_outer()

    def _nonneg_outer(self):
        """Names defined outside the loop that are squares / folded squares / loop variables of range() (>= 0)."""
        out = set()
        for n in walk_no_nested(self.fn):
            if isinstance(n, ast.For) and isinstance(n.target, ast.Name) and isinstance(n.iter, ast.Call) \
                    and dotted(n.iter.func) in ('range', 'numba.prange', 'nb.prange', 'prange'):
                out.add(n.target.id)
            if isinstance(n, ast.Assign) and isinstance(n.targets[0], ast.Name):
                v = n.value
                if isinstance(v, ast.IfExp) and all(_is_square(a) for a in (v.body, v.orelse)):
                    out.add(n.targets[0].id)
                elif _is_square(v):
                    out.add(n.targets[0].id)
        return out

    def nonneg(self, e):
        if isinstance(e, ast.Constant) and isinstance(e.value, (int, float)):
            return e.value >= 0
        if isinstance(e, ast.Name):
            if e.id in self.nonneg_names:
                return True
            ds = self.defs.get(e.id, [])
            return bool(ds) and all(isinstance(d, ast.Assign) and self.nonneg(d.value) for d in ds)
        if _is_square(e):
            return True
        if isinstance(e, ast.BinOp) and isinstance(e.op, (ast.Add, ast.Mult, ast.Div)):
            return self.nonneg(e.left) and self.nonneg(e.right)
        if isinstance(e, ast.BinOp) and isinstance(e.op, ast.Pow):
            return self.nonneg(e.left)
        if isinstance(e, ast.Call) and len(e.args) == 1 and not e.keywords:
            return self.nonneg(e.args[0])      # casts dtype(x), np.sqrt(x)
        return False

    def of(self, e, depth=0):
        if depth > 12:
            return UNK
        if isinstance(e, ast.Constant):
            return CONST
        if isinstance(e, ast.Name):
            if e.id == self.v:
                return UP
            ds = self.defs.get(e.id)
            if not ds:
                return CONST                   # defined outside this loop
            kinds = []
            for d in ds:
                if isinstance(d, ast.Assign):
                    kinds.append(self._assigned(d, depth))
                else:
                    kinds.append(UNK)          # inner loop variable / augmented scalar
            return _join(kinds)
        if isinstance(e, ast.IfExp):
            if self.v in self._deps(e.test):
                return NON
            return _join([self.of(e.body, depth + 1), self.of(e.orelse, depth + 1)])
        if isinstance(e, ast.BinOp):
            a, b = self.of(e.left, depth + 1), self.of(e.right, depth + 1)
            if isinstance(e.op, ast.Add):
                return _add(a, b)
            if isinstance(e.op, ast.Sub):
                return _add(a, _neg(b))
            if isinstance(e.op, ast.Pow) and isinstance(e.right, ast.Constant):
                p = e.right.value
                if p == 2 or (isinstance(p, int) and p > 0):
                    if a == CONST:
                        return CONST
                    if a == UP and self.nonneg(e.left):
                        return UP
                    return NON if a in (UP, DOWN) else a
                if p == -1:
                    if a == CONST:
                        return CONST
                    if a == UP and self.nonneg(e.left):
                        return DOWN
                    return UNK
            if isinstance(e.op, ast.Mult):
                if a == CONST and b == CONST:
                    return CONST
                # lemma: T * (S + T)^-1 with T up >= 0, S const >= 0 is up
                lem = self._ratio_lemma(e, depth)
                if lem:
                    return lem
                if a == CONST and self.nonneg(e.left):
                    return b
                if b == CONST and self.nonneg(e.right):
                    return a
                if a == UP and b == UP and self.nonneg(e.left) and self.nonneg(e.right):
                    return UP
                return UNK
            if isinstance(e.op, ast.Div):
                if a == CONST and b == CONST:
                    return CONST
                if b == CONST and self.nonneg(e.right):
                    return a
                # lemma: T / (S + T) with T up >= 0, S const >= 0 is up (the quotient form of the ratio lemma)
                t = _strip_cast(self._resolve(e.left))
                terms = _sum_terms(_strip_cast(self._resolve(e.right)))
                tn = norm(t)
                rest = [x for x in terms if norm(_strip_cast(x)) != tn]
                if len(rest) == len(terms) - 1 and self.of(t, depth + 1) == UP and self.nonneg(t) and \
                        all(self.of(x, depth + 1) == CONST and self.nonneg(x) for x in rest):
                    return UP
                return UNK
            return UNK
        if isinstance(e, ast.UnaryOp) and isinstance(e.op, ast.USub):
            return _neg(self.of(e.operand, depth + 1))
        if isinstance(e, ast.Call) and len(e.args) == 1 and not e.keywords:
            cn = dotted(e.func)
            if cn in ('np.sqrt', 'float', 'int', 'np.float32', 'np.float64', 'np.int64', 'np.int32') or (isinstance(e.func, ast.Name) and e.func.id in ('dtype', 'ftype')):
                return self.of(e.args[0], depth + 1)
            return UNK
        if isinstance(e, ast.Subscript):
            return CONST if self.v not in self._deps(e) else UNK
        return UNK

    def _assigned(self, d, depth):
        """Monotonicity of a name assigned by statement d, taking the guarding ifs into account:
        `if c: x = up>=0 else: x = 0` is up when c is 'quantity > 0' (the constant arm is the infimum)."""
        par = getattr(d, '_parent', None)
        k = self.of(d.value, depth + 1)
        if isinstance(par, ast.If) and self.v in self._deps(par.test):
            # both arms assign the same name?
            name = d.targets[0].id
            arms = []
            for blk in (par.body, par.orelse):
                a = [s for s in blk if isinstance(s, ast.Assign) and isinstance(s.targets[0], ast.Name) and s.targets[0].id == name]
                arms.append(a[0] if len(a) == 1 else None)
            if all(arms):
                ka, kb = self.of(arms[0].value, depth + 1), self.of(arms[1].value, depth + 1)
                zero = [a for a in arms if isinstance(a.value, ast.Call) and len(a.value.args) == 1 and isinstance(a.value.args[0], ast.Constant) and a.value.args[0].value == 0
                        or isinstance(a.value, ast.Constant) and a.value.value == 0]
                other = [a for a in arms if a not in zero]
                if len(zero) == 1 and len(other) == 1 and self.of(other[0].value, depth + 1) == UP and self.nonneg(other[0].value) \
                        and self.of(par.test.left if isinstance(par.test, ast.Compare) else par.test, depth + 1) == UP:
                    return UP
            return NON
        return k

    def _ratio_lemma(self, e, depth):
        for num, den in ((e.left, e.right), (e.right, e.left)):
            d = self._resolve(den)
            if isinstance(d, ast.BinOp) and isinstance(d.op, ast.Pow) and isinstance(d.right, ast.Constant) and d.right.value == -1 \
                    or isinstance(d, ast.BinOp) and isinstance(d.op, ast.Pow) and isinstance(d.right, ast.UnaryOp) and unparse(d.right) == '-1':
                base = self._resolve(d.left)
                t = _strip_cast(self._resolve(num))
                terms = _sum_terms(_strip_cast(base))
                tn = norm(t)
                rest = [x for x in terms if norm(_strip_cast(x)) != tn]
                if len(rest) == len(terms) - 1 and self.of(t, depth + 1) == UP and self.nonneg(t) and \
                        all(self.of(x, depth + 1) == CONST and self.nonneg(x) for x in rest):
                    return UP
        return None

    def _resolve(self, e):
        """Follow a name to its single defining expression inside the loop."""
        seen = 0
        while isinstance(e, ast.Name) and seen < 6:
            ds = self.defs.get(e.id, [])
            if len(ds) == 1 and isinstance(ds[0], ast.Assign):
                e = ds[0].value
            elif len(ds) == 2 and all(isinstance(d, ast.Assign) for d in ds):
                # if/else pair: take the non-constant arm
                nz = [d for d in ds if not (isinstance(_strip_cast(d.value), ast.Constant))]
                if len(nz) == 1:
                    e = nz[0].value
                else:
                    break
            else:
                break
            seen += 1
        return e

    def _deps(self, e):
        """Names e transitively depends on (through definitions inside the loop)."""
        out, todo = set(), [x.id for x in ast.walk(e) if isinstance(x, ast.Name)]
        while todo:
            n = todo.pop()
            if n in out:
                continue
            out.add(n)
            for d in self.defs.get(n, []):
                if isinstance(d, ast.Assign):
                    todo += [x.id for x in ast.walk(d.value) if isinstance(x, ast.Name)]
        return out


def _is_square(e):
    e = _strip_cast(e)
    return isinstance(e, ast.BinOp) and isinstance(e.op, ast.Pow) and isinstance(e.right, ast.Constant) and e.right.value == 2


def _strip_cast(e):
    while isinstance(e, ast.Call) and len(e.args) == 1 and not e.keywords and (
            (isinstance(e.func, ast.Name) and e.func.id in ('dtype', 'ftype', 'float', 'int')) or dotted(e.func).startswith('np.float')):
        e = e.args[0]
    return e


def _sum_terms(e):
    if isinstance(e, ast.BinOp) and isinstance(e.op, ast.Add):
        return _sum_terms(e.left) + _sum_terms(e.right)
    return [e]


def _join(ks):
    ks = set(ks)
    if len(ks) == 1:
        return ks.pop()
    if UNK in ks:
        return UNK
    return NON


def _neg(a):
    return {UP: DOWN, DOWN: UP}.get(a, a)


def _add(a, b):
    if a == CONST:
        return b
    if b == CONST:
        return a
    if a == b and a in (UP, DOWN):
        return a
    if UNK in (a, b):
        return UNK
    return NON


# Which end of the binned range belongs to it, per axis (reviewed data, from the docstrings and the comments of the repairs F34/F44):
# |k|, k_perp and k_par are binned on [first edge, last edge) -- a mode exactly at the last edge is outside; mu is a bounded quantity,
# 0 <= mu <= 1, binned on [first edge, last edge]: with the standard edges linspace(0, 1, n+1) the line-of-sight modes (mu = 1) are
# modes of the mesh inside the range and belong to the last wedge ("closed range test").
TOP_EDGE = {'kedges2': 'open', 'piedges2': 'open', 'muedges2': 'closed'}


def top_edge_rule(chk, fn, q):
    """Every exit (break / continue) on `X <op> E[-1]` uses the strictness that matches the axis: open top -> `>=`, closed top -> `>`."""
    n = 0
    for iff in [x for x in walk_no_nested(fn) if isinstance(x, ast.If) and any(isinstance(b, (ast.Break, ast.Continue)) for b in x.body)]:
        tests = list(iff.test.values) if isinstance(iff.test, ast.BoolOp) and isinstance(iff.test.op, ast.Or) else [iff.test]
        for t in tests:
            neg = False
            if isinstance(t, ast.UnaryOp) and isinstance(t.op, ast.Not):
                t, neg = t.operand, True
            if not (isinstance(t, ast.Compare) and len(t.ops) == 1):
                continue
            l, r, op = t.left, t.comparators[0], type(t.ops[0])
            # normalise to  X <op> E[-1]
            if isinstance(l, ast.Subscript) and unparse(l.slice) == '-1':
                l, r = r, l
                op = {ast.Lt: ast.Gt, ast.LtE: ast.GtE, ast.Gt: ast.Lt, ast.GtE: ast.LtE}.get(op, op)
            if not (isinstance(r, ast.Subscript) and unparse(r.slice) == '-1' and isinstance(r.value, ast.Name) and r.value.id in TOP_EDGE):
                continue
            if neg:
                op = {ast.Lt: ast.GtE, ast.LtE: ast.Gt, ast.Gt: ast.LtE, ast.GtE: ast.Lt}.get(op, op)
            if op not in (ast.Gt, ast.GtE):
                continue
            kind = TOP_EDGE[r.value.id]
            ok = (op is ast.GtE) if kind == 'open' else (op is ast.Gt)
            n += 1
            chk.check(ok, 'C08-R8', PS, q, f'exit on {unparse(l)} against the last edge of {r.value.id}: the range is {kind} at the top', unparse(t),
                      f'{unparse(iff.test)}: the {r.value.id} axis is binned on a range that is {kind} at its last edge, so the exit has to be '
                      + ('`>=`' if kind == 'open' else '`>` (a mode exactly at the last edge -- mu = 1, the line-of-sight modes with the standard edges -- is inside the range and '
                         'belongs to the last bin; with `>=` it leaves the loop uncounted: counts, means and multipoles of its k bin are taken over the wrong mode set)'), node=iff)
    if n == 0:
        raise AnalysisError(f'{q}: no upper range exit found')


def mono_rules(chk, fn, q):
    """Every break guarded by `X >= E[-1]`, and every search cursor carried across iterations of a loop."""
    for lp in [n for n in walk_no_nested(fn) if isinstance(n, ast.For) and isinstance(n.target, ast.Name)]:
        m = Mono(fn, lp)
        # breaks that leave this loop (directly in its body, under ifs; not inside inner loops)
        for iff in _direct_ifs(lp.body):
            if any(isinstance(s, ast.Break) for s in iff.body):
              # every disjunct of an `or` leaves the loop on its own and has to justify that on its own
              for t in (list(iff.test.values) if isinstance(iff.test, ast.BoolOp) and isinstance(iff.test.op, ast.Or) else [iff.test]):
                key = f'break of loop {lp.target.id} on {unparse(t)}'
                if isinstance(t, ast.Compare) and isinstance(t.ops[0], (ast.GtE, ast.Gt)):
                    k = m.of(t.left)
                    rhs_const = m.v not in m._deps(t.comparators[0])
                    chk.check(k in (UP, CONST) and rhs_const, 'C08-R2', PS, q, key, f'{unparse(t.left)} is {k} in {m.v}',
                              f'{unparse(t.left)} is {k} in {m.v}: later iterations can be back inside the range, the break drops their modes',
                              node=iff, nf=k)
                elif isinstance(t, ast.Compare) and isinstance(t.ops[0], (ast.Lt, ast.LtE)):
                    k = m.of(t.left)
                    chk.check(k in (DOWN, CONST), 'C08-R2', PS, q, key, f'{unparse(t.left)} is {k} in {m.v}',
                              f'{unparse(t.left)} is {k} in {m.v}: breaking on the lower range test drops every later (larger) mode', node=iff, nf=k)
                else:
                    chk.unknown('C08-R2', PS, q, key, 'break condition not a comparison', node=iff)
        # search cursors advanced inside this loop (at any depth) and not re-initialised in its body:
        # their value is carried across iterations of this loop
        for w in [n for n in walk_no_nested(ast.Module(body=lp.body, type_ignores=[])) if isinstance(n, ast.While)]:
            ms = _match_search(w)
            if not ms:
                continue
            b, E, X = ms
            # is b (re)initialised somewhere between this loop's body and the search? then an inner loop owns the reset
            chain = []
            p = getattr(w, '_parent', None)
            while p is not None and p is not lp:
                if isinstance(p, ast.For):
                    chain.append(p)
                p = getattr(p, '_parent', None)
            reset_here = any(isinstance(s, ast.Assign) and b in stores_in(s) for s in lp.body)
            reset_inner = any(any(isinstance(s, ast.Assign) and b in stores_in(s) for s in c.body) for c in chain)
            key = f'cursor {b} of {E} across iterations of {lp.target.id}'
            if reset_inner:
                continue       # carried only across the inner loop, which is checked on its own
            if reset_here and chain:
                continue       # reset at this level, carried across the inner loops only
            if reset_here:
                chk.proven('C08-R2', PS, q, key, f'{b} is re-initialised in every iteration of {lp.target.id}', nontrivial=False)
                continue
            k = m.of(X)
            chk.check(k in (UP, CONST), 'C08-R2', PS, q, key, f'{unparse(X)} is {k} in {m.v}',
                      f'{unparse(X)} is {k} in {m.v} but the cursor {b} only moves forward and is not reset: later modes land in too high a bin',
                      node=w, nf=k)


def _direct_ifs(body):
    out = []
    for s in body:
        if isinstance(s, ast.If):
            out.append(s)
            out += _direct_ifs(s.body) + _direct_ifs(s.orelse)
    return out


def _enclosing_loop(node, fn):
    p = getattr(node, '_parent', None)
    while p is not None and p is not fn:
        if isinstance(p, (ast.For,)):
            return p
        p = getattr(p, '_parent', None)
    return None


def _match_search(w):
    t = w.test
    if not (isinstance(t, ast.Compare) and len(t.ops) == 1 and isinstance(t.ops[0], (ast.Gt, ast.GtE))):
        return None
    r = t.comparators[0]
    if not (isinstance(r, ast.Subscript) and isinstance(r.value, ast.Name) and isinstance(r.slice, ast.BinOp)
            and isinstance(r.slice.left, ast.Name) and isinstance(r.slice.right, ast.Constant) and r.slice.right.value == 1):
        return None
    return r.slice.left.id, r.value.id, t.left


# ------------------------------------------------------------------------ R3
def guards(chk, fn, q):
    from ..spec.contracts import CONTRACTS
    k = KernelS(chk.src, PS, q, CONTRACTS.get(f'{PS}:{q}', {}), {}, {})
    k._scan_cursors()
    n = 0
    for b, cur in k.cursors.items():
        for (w, E, X), g in zip(cur['loops'], cur['guards']):
            n += 1
            key = f'search of {E} by {b}'
            xtxt = unparse(w.test.left)
            if g:
                chk.proven('C08-R3', PS, q, key, f'dominated by "if {xtxt} >= {E}[-1]: <exit>" in the same iteration')
            else:
                chk.refuted('C08-R3', PS, q, key,
                            f'the search "while {xtxt} > {E}[{b} + 1]" is not preceded, in the same iteration, by the exit test '
                            f'"{xtxt} >= {E}[-1]": beyond the last edge the cursor runs off the edge array and the mode is mis-binned', node=w)
        # lower end of the binned range: a mode below the first edge is skipped, not put into the first bin
        for (w, E, X) in cur['loops']:
            xt = unparse(w.test.left)
            lows = [n_ for n_ in walk_no_nested(fn) if isinstance(n_, ast.If) and isinstance(n_.test, ast.Compare) and len(n_.test.ops) == 1
                    and isinstance(n_.test.ops[0], ast.Lt) and unparse(n_.test.left) == xt and unparse(n_.test.comparators[0]) == f'{E}[0]'
                    and n_.body and isinstance(n_.body[-1], (ast.Continue, ast.Break)) and n_.lineno < w.lineno]
            # E[0] == 0 by construction (squares of linspace(0, ...)) and the searched value is a square: nothing lies below the first edge
            edef = [n_ for n_ in walk_no_nested(fn) if isinstance(n_, ast.Assign) and len(n_.targets) == 1 and unparse(n_.targets[0]) == E]
            xdef = [n_ for n_ in walk_no_nested(fn) if isinstance(n_, ast.Assign) and len(n_.targets) == 1 and unparse(n_.targets[0]) == xt]
            zero_first = len(edef) == 1 and 'np.linspace(0.0,' in unparse(edef[0].value).replace('np.linspace(0,', 'np.linspace(0.0,') and '** 2' in unparse(edef[0].value)
            square = bool(xdef) and all('** 2' in unparse(d.value) for d in xdef)
            if zero_first and square and not lows:
                chk.proven('C08-R3', PS, q, f'search of {E} by {b}: values below {E}[0] are skipped', f'{E}[0] = 0 (squared linspace from 0) and {xt} is a square', nontrivial=False)
                continue
            chk.check(bool(lows), 'C08-R3', PS, q, f'search of {E} by {b}: values below {E}[0] are skipped', '',
                      f'no test "{xt} < {E}[0]: continue" before the search of {E}: a mode below the first edge of the binned range is counted in the first bin', node=w, nontrivial=False)
        # the edge array a mode is compared against is the exact edge in mode units, rounded ONCE to the working precision:
        # an edge at m*dk must become exactly m^2 so that on-edge modes fall deterministically into [lo, hi)
        for E in sorted({E for (w, E, X) in cur['loops']}):
            defs = [n_ for n_ in walk_no_nested(fn) if isinstance(n_, ast.Assign) and len(n_.targets) == 1 and unparse(n_.targets[0]) == E]
            if len(defs) != 1:
                continue
            v = defs[0].value
            casts = [x for x in ast.walk(v) if isinstance(x, ast.Call) and (
                (isinstance(x.func, ast.Attribute) and x.func.attr == 'astype' and [unparse(a_) for a_ in x.args] not in (['np.float64'], ['float'], ["'f8'"], ['np.double']))
                or dotted(x.func) in ('dtype', 'np.float32', 'np.float16', 'np.single'))]
            outer = isinstance(v, ast.Call) and ((isinstance(v.func, ast.Attribute) and v.func.attr == 'astype') or dotted(v.func) in ('dtype', 'np.asarray', 'np.array'))
            inner = [c for c in casts if c is not v]
            # |k|^2, k_perp^2, k_par^2 in mode units are exact integers.  mu^2 is a quotient of two exact integers: it was first exempted here
            # ("a rounded quotient anyway"), but in float32 the quotient and the squared edge are each rounded at ~6e-8 and modes within that
            # distance of an edge are filed on the wrong side of it (F43: nmesh=256, 67 mu bins, 16 modes); both stay in float64
            exact_side = True
            chk.check(not inner and not (exact_side and casts), 'C08-R3', PS, q, f'{E} is computed in double precision' + (' and kept in it' if exact_side else ' and rounded once'), unparse(v)[:70],
                      (f'{E} = {unparse(v)[:80]}: the operands are rounded to the working precision ({unparse(inner[0])[:40]}) before the arithmetic, '
                       'so an edge that coincides with a mode (m*dk) misses m^2 by an ulp and every mode on that edge moves to the neighbouring bin' if inner else
                       f'{E} = {unparse(v)[:80]}: the squared edge is rounded to the working precision (float32) while the squared mode number it is compared with is an exact integer: '
                       'an edge whose square lies just below an integer N is rounded up to N and the whole shell |k|^2 = N goes one bin too low '
                       '(calc_power defaults, nmesh=256, kbins=65: 1344 modes)'), node=defs[0], nontrivial=False)
        # the value searched in the mu edges is a quotient of two exact integers: it is formed in double precision as well (no operand
        # or intermediate narrowed to the working dtype), for the same reason as the squared edges
        for (w, E, X) in cur['loops']:
            if not E.startswith('muedges'):
                continue
            xname = unparse(w.test.left)
            xdefs = [n_ for n_ in walk_no_nested(fn) if isinstance(n_, ast.Assign) and len(n_.targets) == 1 and unparse(n_.targets[0]) == xname]
            ldefs_ = {}
            for n_ in walk_no_nested(fn):
                if isinstance(n_, ast.Assign) and len(n_.targets) == 1 and isinstance(n_.targets[0], ast.Name):
                    ldefs_.setdefault(n_.targets[0].id, []).append(n_.value)
            narrow_ = []
            for d_ in xdefs:
                todo, seen_ = [d_.value], set()
                while todo:
                    e_ = todo.pop()
                    for x_ in ast.walk(e_):
                        if isinstance(x_, ast.Call) and (dotted(x_.func) in ('dtype', 'np.float32', 'np.float16', 'np.single') or
                                                         (isinstance(x_.func, ast.Attribute) and x_.func.attr == 'astype' and [unparse(a_) for a_ in x_.args] == ['dtype'])):
                            if not (len(x_.args) == 1 and isinstance(x_.args[0], ast.Constant)):
                                narrow_.append(unparse(x_)[:40])
                        if isinstance(x_, ast.Name) and x_.id not in seen_ and x_.id != xname and len(ldefs_.get(x_.id, [])) == 1:
                            seen_.add(x_.id)
                            todo.append(ldefs_[x_.id][0])
            chk.check(bool(xdefs) and not narrow_, 'C08-R3', PS, q, f'{xname} (searched in {E}) is formed in double precision', f'{len(xdefs)} definition(s)',
                      f'{xname} is computed through {narrow_[:2]}: the quotient is rounded to the working precision (float32, ~6e-8) before it is compared with the edges, '
                      'so a mode within that distance of a mu edge is filed in the neighbouring wedge (nmesh=256, 67 mu bins: 16 modes of the shell (56,44,53))',
                      node=xdefs[0] if xdefs else w, nontrivial=False)
        if not cur['ok']:
            chk.refuted('C08-R3', PS, q, f'cursor {b}', f'{b} is modified outside its search loops / initialisation to 0', node=fn)
    if n == 0:
        raise AnalysisError(f'{q}: no bin-search loops found')


def _is_mu2(fn, x):
    """x resolves to k**2 * (i2 + j2 + k**2)**-1 (or 0)."""
    if not isinstance(x, ast.Name):
        return False
    defs = [n for n in walk_no_nested(fn) if isinstance(n, ast.Assign) and isinstance(n.targets[0], ast.Name) and n.targets[0].id == x.id]
    env = {}
    for n in walk_no_nested(fn):
        if isinstance(n, ast.Assign) and isinstance(n.targets[0], ast.Name) and n.targets[0].id not in (x.id,):
            try:
                if not isinstance(n.value, ast.IfExp):
                    env[n.targets[0].id] = BPEval(env, None, ('dtype',)).ev(n.value)
            except (NotInDomain, ValueError):
                pass
    ok = 0
    for d in defs:
        try:
            p = to_poly(BPEval(env, None, ('dtype',)).ev(d.value))
        except (NotInDomain, ValueError):
            return False
        if p == Poly.const(0):
            ok += 1
            continue
        # k^2 * inv(S + k^2)
        invs = [s for s in p.syms() if s.startswith('inv(')]
        if len(invs) != 1:
            return False
        num = p / Poly.sym(invs[0])
        inner = invs[0][4:-1]
        if repr(num) in inner.split(' + ') and all(('^2' in t or t.endswith('2')) for t in inner.split(' + ')):
            ok += 1
        else:
            return False
    return ok == len(defs) and ok >= 1


# ------------------------------------------------------------------------ R4
def hermitian(chk, fn, q):
    """Evaluate every accumulation `A[tid, ...] += expr` in the cases k=0, 0<k & 2k!=n, 2k=n."""
    kl = [n for n in walk_no_nested(fn) if isinstance(n, ast.For) and isinstance(n.target, ast.Name) and 'kzlen' in unparse(n.iter)]
    if len(kl) != 1:
        raise AnalysisError(f'{q}: kz loop not found')
    kv = kl[0].target.id
    nname = 'n1d'
    eng = KernelS(chk.src, PS, q, {}, {}, {})
    defs = {}
    for n in walk_no_nested(ast.Module(body=kl[0].body, type_ignores=[])):
        if isinstance(n, ast.Assign) and isinstance(n.targets[0], ast.Name):
            defs[n.targets[0].id] = n.value
    accs = [n for n in walk_no_nested(ast.Module(body=kl[0].body, type_ignores=[])) if isinstance(n, ast.AugAssign)
            and isinstance(n.target, ast.Subscript) and isinstance(n.op, ast.Add)]
    if not accs:
        raise AnalysisError(f'{q}: no accumulations in the kz loop')
    cases = {'k=0': [lambda K, N: [-K, K], 1], '0<k,2k<n': [lambda K, N: [K - 1, N - K.scale(2) - 1], 2],
             '2k=n': [lambda K, N: [K.scale(2) - N, N - K.scale(2), K - 1], 1]}
    # the accumulations of one cell may be spread over the arms of an `if` on the kz plane (one arm per case): per case, the
    # contributions of all accumulations of that cell whose kz-dependent guards hold are added up
    groups = {}
    for a in accs:
        groups.setdefault(unparse(a.target), []).append(a)

    def kz_guards(a):
        out = []
        ch, p_ = a, getattr(a, '_parent', None)
        while p_ is not None and p_ is not kl[0]:
            if isinstance(p_, ast.If):
                out.append((p_.test, ch in p_.body))
            ch, p_ = p_, getattr(p_, '_parent', None)
        return out
    for tgt, members in groups.items():
        a = members[0]
        arr = unparse(a.target.value)
        got = {}
        for cname, (mk, want) in cases.items():
            st = State()
            K, N = Lin.sym(kv), Lin.sym(nname)
            st.env[kv], st.env[nname] = Int(K), Int(N)
            st.facts.add_ge(K)
            st.facts.add_ge(N - 1)
            st.facts.add_le(K.scale(2), N)      # k <= n//2
            for l in mk(K, N):
                st.facts.add_ge(l)
            # function-level integer definitions (kzlen = n1d // 2 + 1, ...) are available to the conditions
            for s_ in fn.body:
                if isinstance(s_, ast.Assign) and isinstance(s_.targets[0], ast.Name) and s_.targets[0].id not in st.env:
                    if names_in(s_.value) <= set(st.env) and not any(isinstance(x, (ast.Call, ast.Subscript, ast.Attribute)) for x in ast.walk(s_.value)):
                        v_ = eng.ev(s_.value, st, quiet=True)
                        if isinstance(v_, Int):
                            st.env[s_.targets[0].id] = v_
            total = Poly.const(0)
            try:
                for m_ in members:
                    live = True
                    for test, in_body in kz_guards(m_):
                        reads = set()
                        for x in ast.walk(test):
                            if isinstance(x, ast.Name):
                                reads.add(x.id)
                                if x.id in defs:
                                    reads |= names_in(defs[x.id])
                        if not (reads & {kv, nname}):
                            continue                   # a guard on the bin ranges: the same for every case
                        t = _truth(test, st, eng, defs)
                        if t is None:
                            raise NotInDomain(f'cannot decide {unparse(test)} in this case')
                        if t != in_body:
                            live = False
                    if live:
                        total = total + _case_eval(m_.value, st, eng, defs)
            except NotInDomain as e:
                got[cname] = f'? ({e})'
                continue
            got[cname] = total
        # factor out the per-mode value: weight = p / p(k... ) : the three cases must be in ratio 1 : 2 : 1
        vals = list(got.values())
        ok = all(isinstance(v, Poly) for v in vals)
        if ok:
            base = got['k=0']
            ok = (got['0<k,2k<n'] == base * 2) and (got['2k=n'] == base) and base != Poly.const(0)
            if arr.startswith('counts') or 'count' in arr and 'weighted' not in arr:
                ok = ok and base == Poly.const(1)
        chk.check(ok, 'C08-R4', PS, q, f'{arr} += ...', f'weights 1 : 2 : 1 on (k=0, 0<2k<n, 2k=n): {got["k=0"]}',
                  f'mode weight of {arr} over the cases (k=0, 0<2k<n, 2k=n) is {[str(v) for v in vals]}; a conjugate pair counts as two and the '
                  'self-conjugate planes kz=0 and kz=n/2 as one', node=a, nf={k_: str(v) for k_, v in got.items()})


def _case_eval(e, st, eng, defs, depth=0):
    """Polynomial value of e where conditional expressions are resolved by entailment under st."""
    if depth > 10:
        raise NotInDomain('depth')
    if isinstance(e, ast.IfExp):
        t = _truth(e.test, st, eng, defs)
        if t is None:
            raise NotInDomain(f'cannot decide {unparse(e.test)} in this case')
        return _case_eval(e.body if t else e.orelse, st, eng, defs, depth + 1)
    if isinstance(e, ast.Name):
        if e.id in defs and e.id not in st.env:
            return _case_eval(defs[e.id], st, eng, defs, depth + 1)
        return Poly.sym(e.id)
    if isinstance(e, ast.Constant) and isinstance(e.value, (int, float)) and not isinstance(e.value, bool):
        return Poly.const(Fraction(repr(e.value)))
    if isinstance(e, ast.BinOp) and isinstance(e.op, (ast.Add, ast.Sub, ast.Mult)):
        a, b = _case_eval(e.left, st, eng, defs, depth + 1), _case_eval(e.right, st, eng, defs, depth + 1)
        return a + b if isinstance(e.op, ast.Add) else (a - b if isinstance(e.op, ast.Sub) else a * b)
    if isinstance(e, ast.Call) and len(e.args) == 1 and not e.keywords and (isinstance(e.func, ast.Name) or dotted(e.func).startswith('np.float')):
        if isinstance(e.func, ast.Name) and e.func.id not in ('dtype', 'ftype', 'float', 'int'):
            return Poly.sym(unparse(e))
        return _case_eval(e.args[0], st, eng, defs, depth + 1)
    return Poly.sym('<' + unparse(e) + '>')


def _truth(test, st, eng, defs):
    if isinstance(test, ast.Name) and test.id in defs:
        return _truth(defs[test.id], st, eng, defs)
    if isinstance(test, ast.BoolOp):
        vs = [_truth(v, st, eng, defs) for v in test.values]
        if isinstance(test.op, ast.Or):
            return True if any(v is True for v in vs) else (False if all(v is False for v in vs) else None)
        return False if any(v is False for v in vs) else (True if all(v is True for v in vs) else None)
    if isinstance(test, ast.UnaryOp) and isinstance(test.op, ast.Not):
        v = _truth(test.operand, st, eng, defs)
        return None if v is None else not v
    c = eng.cond(test, st, quiet=True)
    if c.tf is not None and all(prove.entails_ge(st, l) for l in c.tf) and c.tf != []:
        return True
    if c.ff is not None and c.ff != [] and all(prove.entails_ge(st, l) for l in c.ff):
        return False
    # one side refutable?
    if c.tf is not None and not prove.consistent(st, c.tf):
        return False
    if c.ff is not None and not prove.consistent(st, c.ff):
        return True
    return None


def _row_sum_loop(fn, target, source):
    """target = zeros(n0, integer); for i in range(n0): for j in range(n1): target[i] += source[i, j]   with (.., n0, n1) the trailing
    extents of source's allocation: the explicit form of target = source.sum(axis=1) (after the thread axis was summed away)."""
    al = [n for n in fn.body if isinstance(n, ast.Assign) and unparse(n.targets[0]) == target and isinstance(n.value, ast.Call)]
    sal = [n for n in walk_no_nested(fn) if isinstance(n, ast.Assign) and unparse(n.targets[0]) == source and isinstance(n.value, ast.Call)
           and dotted(n.value.func) in ('np.zeros',) and n.value.args and isinstance(n.value.args[0], ast.Tuple) and len(n.value.args[0].elts) == 3]
    if len(al) != 1 or len(sal) != 1 or dotted(al[0].value.func) != 'np.zeros' or not al[0].value.args:
        return False
    n0, n1 = [unparse(e) for e in sal[0].value.args[0].elts[1:]]
    dt = [unparse(k.value) for k in al[0].value.keywords if k.arg == 'dtype']
    if unparse(al[0].value.args[0]) != n0 or dt not in (['np.int64'], ['int']):
        return False
    stores = [n for n in walk_no_nested(fn) if isinstance(n, (ast.Assign, ast.AugAssign)) and n is not al[0]
              and any(isinstance(x, ast.Name) and x.id == target and isinstance(x.ctx, (ast.Store, ast.Load)) and isinstance(getattr(x, '_parent', None), ast.Subscript)
                      and isinstance(x._parent.ctx, ast.Store) for x in ast.walk(n))]
    if len(stores) != 1 or not isinstance(stores[0], ast.AugAssign) or not isinstance(stores[0].op, ast.Add):
        return False
    a = stores[0]
    inner = getattr(a, '_parent', None)
    outer = getattr(inner, '_parent', None)
    if not (isinstance(inner, ast.For) and isinstance(outer, ast.For) and outer in fn.body and inner.body == [a] and outer.body == [inner]
            and isinstance(inner.target, ast.Name) and isinstance(outer.target, ast.Name)):
        return False
    i, j = outer.target.id, inner.target.id
    return unparse(outer.iter) == f'range({n0})' and unparse(inner.iter) == f'range({n1})' and unparse(a.target) == f'{target}[{i}]' \
        and unparse(a.value) == f'{source}[{i}, {j}]' and outer.lineno > al[0].lineno


# ------------------------------------------------------------------------ R5
def accumulators(chk, fn, q):
    loops = own.prange_loops(fn)
    if len(loops) != 1:
        chk.refuted('C08-R5', PS, q, 'one prange mode loop', f'{len(loops)} prange loops', node=fn)
        return
    stores = own.classify_loop(fn, loops[0])
    arrs = sorted({s.array for s in stores})
    bad = [s for s in stores if s.cls != 'thread-row']
    chk.check(bool(stores) and not bad, 'C08-R5', PS, q, 'stores under prange are thread-row', f'{arrs}',
              '; '.join(f'{unparse(s.node)} is {s.cls}' for s in bad[:3]) + ': threads update the same accumulator cell', node=bad[0].node if bad else loops[0])
    # tid from get_thread_id inside the loop
    allocs = own.thread_row_arrays(fn)
    # thread count variable: assigned from numba.get_num_threads() after set_num_threads
    nt = [n for n in walk_no_nested(fn) if isinstance(n, ast.Assign) and isinstance(n.value, ast.Call) and dotted(n.value.func).endswith('get_num_threads')]
    ntname = nt[0].targets[0].id if nt and isinstance(nt[0].targets[0], ast.Name) else None
    sized = {a: allocs.get(a) for a in arrs}
    late = all(_alloc_line(fn, a) > nt[0].lineno for a in arrs) if nt else False
    chk.check(ntname is not None and all(v == ntname for v in sized.values()) and late, 'C08-R5', PS, q, 'accumulators have one row per running thread',
              f'{sized} with {ntname} = get_num_threads()', f'leading sizes {sized}; thread count variable {ntname} (read after set_num_threads: {late})', node=fn)
    # counts int64
    cal = [n for n in walk_no_nested(fn) if isinstance(n, ast.Assign) and unparse(n.targets[0]) == 'counts' and isinstance(n.value, ast.Call)
           and dotted(n.value.func) == 'np.zeros']
    dt = [unparse(k.value) for c in cal for k in c.value.keywords if k.arg == 'dtype']
    chk.check(dt == ['np.int64'], 'C08-R5', PS, q, 'mode counts are int64', '', f'counts dtype {dt}: counts must be exact integers', node=cal[0] if cal else fn)
    # the running sums are double precision whatever the working dtype: a float32 sum stops growing once it is 2**24 times a
    # term, i.e. after ~1.7e7 contributions to one (thread, bin) cell -- an ordinary 512^3 mesh with few bins and few threads
    wide = {}
    for a in arrs:
        if a == 'counts':
            continue
        al = [n for n in walk_no_nested(fn) if isinstance(n, ast.Assign) and unparse(n.targets[0]) == a and isinstance(n.value, ast.Call) and dotted(n.value.func) in ('np.zeros', 'np.empty')]
        dts = [unparse(k.value) for c in al for k in c.value.keywords if k.arg == 'dtype']
        wide[a] = dts
    narrow = {a: d for a, d in wide.items() if d != ['np.float64']}
    chk.check(bool(wide) and not narrow, 'C08-R5', PS, q, 'weighted sums are accumulated in float64', f'{sorted(wide)}',
              f'accumulators {narrow} take the working dtype (float32 by default): with more than ~1.7e7 modes in one (thread, bin) cell the sum saturates while the '
              'integer count does not, so the reported mean is not the mean over the counted modes (and depends on the thread count)',
              node=fn, nontrivial=False)
    # reduction after the loop: X = X.sum(axis=0) for every accumulator
    red = {}
    for n in fn.body:
        if isinstance(n, ast.Assign) and isinstance(n.targets[0], ast.Name) and isinstance(n.value, ast.Call) \
                and isinstance(n.value.func, ast.Attribute) and n.value.func.attr == 'sum' and unparse(n.value.func.value) == n.targets[0].id:
            ax = [unparse(k.value) for k in n.value.keywords if k.arg == 'axis']
            if n.lineno > loops[0].lineno:
                red[n.targets[0].id] = ax[0] if ax else None
    chk.check(all(red.get(a) == '0' for a in arrs), 'C08-R5', PS, q, 'per-thread rows summed over axis 0 after the loop', f'{red}',
              f'reductions {red} do not cover {arrs} over the thread axis', node=fn)
    # guarded division: every `/=` on an accumulator sits under `if <counts...> != 0`
    # a mean is `X[...] /= <count>` in place, or `Y[...] = X[...] / <count>` into a result array; either way under `if <count> != 0`
    divs = [n for n in walk_no_nested(fn) if isinstance(n, ast.AugAssign) and isinstance(n.op, ast.Div)]
    divs += [n for n in walk_no_nested(fn) if isinstance(n, ast.Assign) and isinstance(n.targets[0], ast.Subscript) and isinstance(n.value, ast.BinOp)
             and isinstance(n.value.op, ast.Div) and isinstance(n.value.left, ast.Subscript) and 'counts' in unparse(n.value.left.value)
             and unparse(n.value.left.slice) == unparse(n.targets[0].slice)]
    badd = []
    for d in divs:
        par = getattr(d, '_parent', None)
        okg = isinstance(par, ast.If) and d in par.body and isinstance(par.test, ast.Compare) and isinstance(par.test.ops[0], ast.NotEq) and 'counts' in unparse(par.test.left) \
            and unparse(par.test.comparators[0]) == '0'
        den = unparse(d.value if isinstance(d, ast.AugAssign) else d.value.right)
        if not (okg and unparse(par.test.left) in den):
            badd.append(unparse(d))
        if isinstance(d, ast.Assign) and okg:
            # the other arm copies the sum unchanged, so the result array is defined for every bin
            cp = [x for x in par.orelse if isinstance(x, ast.Assign) and unparse(x.targets[0]) == unparse(d.targets[0]) and unparse(x.value) == unparse(d.value.left)]
            if len(cp) != 1:
                badd.append(unparse(d) + ' (no copy of the sum for an empty bin)')
    chk.check(bool(divs) and not badd, 'C08-R5', PS, q, 'means divide by the mode count of the same bin, only where non-zero', f'{len(divs)} divisions',
              f'unguarded or mismatched divisions: {badd}', node=fn)
    if q == 'bin_kmu':
        # l=0 pole = mu-sum of the wedge sums, divided by the mu-summed counts
        txt = [unparse(s) for s in walk_no_nested(fn) if isinstance(s, ast.stmt)]
        ok0 = any(t == 'weighted_counts_poles[ip] = weighted_counts.sum(axis=1)' for t in txt) and \
            (any(t in ('counts_poles = counts.sum(axis=1)', 'counts_poles = np.sum(counts, axis=1)') for t in txt) or _row_sum_loop(fn, 'counts_poles', 'counts'))
        order = False
        for s in fn.body:
            pass
        l_sum = [s.lineno for s in walk_no_nested(fn) if isinstance(s, ast.Assign) and unparse(s) == 'weighted_counts_poles[ip] = weighted_counts.sum(axis=1)']
        l_div = [d.lineno for d in divs if 'weighted_counts[' in unparse(d.target)]
        order = bool(l_sum and l_div) and l_sum[0] < min(l_div)
        chk.check(ok0 and order, 'C08-R5', PS, q, 'l=0 multipole = mode-weighted mu-average of the wedges', '',
                  f'monopole assembled from wedge sums={ok0}, before the wedges are turned into means={order}', node=fn)


def _alloc_line(fn, name):
    for n in walk_no_nested(fn):
        if isinstance(n, ast.Assign) and unparse(n.targets[0]) == name and isinstance(n.value, ast.Call) and dotted(n.value.func) == 'np.zeros':
            return n.lineno
    return -1


# ------------------------------------------------------------------------ R6
def ranges(chk, fn, q):
    loops = [n for n in walk_no_nested(fn) if isinstance(n, ast.For) and isinstance(n.target, ast.Name)]
    pr = own.prange_loops(fn)
    if not pr:
        return
    i = pr[0]
    js = [s for s in i.body if isinstance(s, ast.For)]
    ok = unparse(i.iter).endswith('prange(n1d)') and len(js) == 1 and unparse(js[0].iter) == 'range(n1d)'
    ks = [n for n in js[0].body if isinstance(n, ast.For)] if js else []
    if len(ks) != 1 and js:
        ks = [n for n in walk_no_nested(js[0]) if isinstance(n, ast.For) and n is not js[0] and 'kzlen' in unparse(n.iter)]
    kz = [n for n in walk_no_nested(fn) if isinstance(n, ast.Assign) and unparse(n.targets[0]) == 'kzlen']
    ok = ok and len(ks) == 1 and unparse(ks[0].iter) == 'range(kzlen)' and len(kz) == 1 and unparse(kz[0].value) == 'n1d // 2 + 1'
    chk.check(ok, 'C08-R6', PS, q, 'loops cover [0,n) x [0,n) x [0,n//2+1)', '', 'mode loops do not cover the half mesh exactly once', node=i)
    if ok:
        iv, jv, kv = i.target.id, js[0].target.id, ks[0].target.id
        reads = {unparse(n) for n in walk_no_nested(ks[0]) if isinstance(n, ast.Subscript) and unparse(n.value) == 'weights'}
        chk.check(reads == {f'weights[{iv}, {jv}, {kv}]'}, 'C08-R6', PS, q, 'mesh value read at [i, j, k]', '',
                  f'mesh reads {sorted(reads)}: value taken from another mode', node=ks[0], nontrivial=False)


# ------------------------------------------------------------------------ R7
def _module_int_table(tree, name):
    """The entries of a module-level int64 table that is BUILT instead of written out: np.ones / np.zeros / np.arange / np.cumprod / np.cumsum /
    np.array(<literals>) over integer constants of the module, with slice stores `T[a:] = <such an expression>`; evaluated with exact Python
    integers and checked against the int64 range (a wrapped product would differ).  None when a statement about the table is not understood."""
    consts, val = {}, None

    def ci(e):
        if isinstance(e, ast.Constant) and type(e.value) is int:
            return e.value
        if isinstance(e, ast.Name) and e.id in consts:
            return consts[e.id]
        if isinstance(e, ast.BinOp) and isinstance(e.op, (ast.Add, ast.Sub, ast.Mult)):
            a, b = ci(e.left), ci(e.right)
            if a is None or b is None:
                return None
            return a + b if isinstance(e.op, ast.Add) else (a - b if isinstance(e.op, ast.Sub) else a * b)
        return None

    def arr(e):
        if isinstance(e, ast.Name) and e.id == name:
            return list(val) if val is not None else None
        if not isinstance(e, ast.Call):
            return None
        d = dotted(e.func)
        if any(k.arg not in ('dtype',) or unparse(k.value) not in ('np.int64', 'int', "'int64'", "'i8'") for k in e.keywords):
            return None
        if d in ('np.ones', 'np.zeros') and len(e.args) == 1 and ci(e.args[0]) is not None:
            return [1 if d == 'np.ones' else 0] * max(0, ci(e.args[0]))
        if d == 'np.arange' and 1 <= len(e.args) <= 2 and all(ci(a) is not None for a in e.args):
            return list(range(*[ci(a) for a in e.args]))
        if d in ('np.array', 'np.asarray') and len(e.args) == 1 and isinstance(e.args[0], (ast.List, ast.Tuple)) and all(ci(x) is not None for x in e.args[0].elts):
            return [ci(x) for x in e.args[0].elts]
        if d in ('np.cumprod', 'np.cumsum') and len(e.args) == 1:
            a = arr(e.args[0])
            if a is None:
                return None
            out, acc = [], (1 if d == 'np.cumprod' else 0)
            for x in a:
                acc = acc * x if d == 'np.cumprod' else acc + x
                out.append(acc)
            return out
        return None
    for st in tree.body:
        if isinstance(st, ast.Assign) and len(st.targets) == 1 and isinstance(st.targets[0], ast.Name):
            if st.targets[0].id == name:
                val = arr(st.value)
                if val is None:
                    return None
            elif ci(st.value) is not None:
                consts[st.targets[0].id] = ci(st.value)
        elif isinstance(st, ast.Assign) and len(st.targets) == 1 and isinstance(st.targets[0], ast.Subscript) and unparse(st.targets[0].value) == name:
            sl = st.targets[0].slice
            rhs = arr(st.value)
            if val is None or rhs is None or not (isinstance(sl, ast.Slice) and sl.step is None and sl.upper is None and sl.lower is not None and ci(sl.lower) is not None):
                return None
            lo = ci(sl.lower)
            if lo < 0 or len(val) - lo != len(rhs):
                return None
            val[lo:] = rhs
        elif any(isinstance(n, ast.Name) and n.id == name and isinstance(n.ctx, ast.Store) for n in ast.walk(st)) and not isinstance(st, (ast.FunctionDef, ast.ClassDef)):
            return None
    if val is None or any(not (-2**63 <= v < 2**63) for v in val):
        return None
    return val


def legendre(chk):
    """Evaluate P_n's body for concrete even orders with x symbolic (loop trip count is then a
    constant; factorials come from the literal lookup table) and compare with the Legendre
    polynomial in mu, x = mu^2, built by Bonnet's recursion."""
    src = chk.src
    fn = src.func(PS, 'P_n')
    table = src.module_assigns(PS).get('FACTORIAL_LOOKUP_TABLE')
    facts = None
    if isinstance(table, ast.Call) and table.args and isinstance(table.args[0], (ast.List, ast.Tuple)):
        facts = [e.value for e in table.args[0].elts if isinstance(e, ast.Constant)]
    import math
    if facts is None:
        facts = _module_int_table(src.tree(PS), 'FACTORIAL_LOOKUP_TABLE')
    okt = facts is not None and len(facts) == 21 and all(facts[i] == math.factorial(i) for i in range(21))
    chk.check(okt, 'C08-R7', PS, '<module>', 'FACTORIAL_LOOKUP_TABLE[n] == n! for n = 0..20', '', 'the factorial lookup table has a wrong entry', node=table)
    if not okt:
        return
    fa, nck = src.func(PS, 'factorial'), src.func(PS, 'n_choose_k')
    okf = unparse(nck.body[-2].value if isinstance(nck.body[-2], ast.Assign) else nck.body[-1]) == 'factorial(n) // (factorial(k) * factorial(n - k))' and \
        (any(unparse(s) == 'factorial = FACTORIAL_LOOKUP_TABLE[n]' for s in fa.body) or
         (isinstance(fa.body[-1], ast.Return) and unparse(fa.body[-1].value) == f'FACTORIAL_LOOKUP_TABLE[{fa.args.args[0].arg}]'
          and sum(1 for r_ in walk_no_nested(fa) if isinstance(r_, ast.Return)) == 1))      # the table entry of the argument is what is returned (that the index is in range is C11's obligation)
    chk.check(okf, 'C08-R7', PS, 'n_choose_k', 'n_choose_k = n! // (k! (n-k)!) from the lookup table', '', 'binomial coefficient no longer n!/(k!(n-k)!)', node=nck)
    x, nn = [a.arg for a in fn.args.args][:2]

    def C(n, k):
        return math.comb(n, k)

    def run_Pn(order):
        """Interpret P_n for a concrete order: returns {exponent of sqrt(x): Fraction coefficient}."""
        acc = {}
        loops = [s for s in fn.body if isinstance(s, ast.For)]
        if len(loops) != 1 or unparse(loops[0].iter) != f'range({nn} // 2 + 1)':
            raise NotInDomain('loop')
        kv = loops[0].target.id
        for k in range(order // 2 + 1):
            env = {nn: order, kv: k}

            def iv(e):
                if isinstance(e, ast.Constant):
                    return Fraction(repr(e.value)) if isinstance(e.value, float) else Fraction(e.value)
                if isinstance(e, ast.Name):
                    return Fraction(env[e.id])
                if isinstance(e, ast.BinOp):
                    a, b = iv(e.left), iv(e.right)
                    if isinstance(e.op, ast.Add):
                        return a + b
                    if isinstance(e.op, ast.Sub):
                        return a - b
                    if isinstance(e.op, ast.Mult):
                        return a * b
                    if isinstance(e.op, ast.Mod):
                        return Fraction(int(a) % int(b))
                    if isinstance(e.op, ast.FloorDiv):
                        return Fraction(int(a) // int(b))
                    if isinstance(e.op, ast.Pow):
                        return a ** int(b)
                if isinstance(e, ast.Call):
                    cn = dotted(e.func)
                    if cn == 'n_choose_k':
                        return Fraction(C(int(iv(e.args[0])), int(iv(e.args[1]))))
                    if cn in ('dtype', 'float') and len(e.args) == 1:
                        return iv(e.args[0])
                raise NotInDomain(unparse(e))
            factor = None
            term_locals = {}
            for st in loops[0].body:
                if isinstance(st, ast.Assign) and unparse(st.targets[0]) == 'factor':
                    factor = iv(st.value)
                    env['factor'] = factor
                elif isinstance(st, ast.Assign) and len(st.targets) == 1 and isinstance(st.targets[0], ast.Name) and st.targets[0].id not in term_locals \
                        and sum(1 for n_ in ast.walk(loops[0]) if isinstance(n_, ast.Name) and n_.id == st.targets[0].id and isinstance(n_.ctx, ast.Store)) == 1:
                    term_locals[st.targets[0].id] = st.value
                elif isinstance(st, ast.If):
                    t = None
                    if isinstance(st.test, ast.Compare) and len(st.test.ops) == 1 and isinstance(st.test.ops[0], (ast.Eq, ast.NotEq)):
                        t = iv(st.test.left) == iv(st.test.comparators[0])
                        if isinstance(st.test.ops[0], ast.NotEq):
                            t = not t
                    if t is None:
                        raise NotInDomain('parity test')
                    for b in (st.body if t else st.orelse):
                        bval = b.value if isinstance(b, ast.AugAssign) else None
                        if isinstance(bval, ast.Name) and bval.id in term_locals:
                            bval = term_locals[bval.id]          # the term bound once to a local before the sign is chosen
                        if isinstance(b, ast.AugAssign) and isinstance(b.op, (ast.Add, ast.Sub)) and isinstance(bval, ast.BinOp) and isinstance(bval.op, ast.Mult):
                            coef = iv(bval.left)
                            pw = bval.right
                            if not (isinstance(pw, ast.BinOp) and isinstance(pw.op, ast.Pow) and unparse(pw.left) == x):
                                raise NotInDomain('power term')
                            ex = iv(pw.right)          # exponent of x = mu^2
                            sign = 1 if isinstance(b.op, ast.Add) else -1
                            acc[ex] = acc.get(ex, 0) + sign * coef
                        else:
                            raise NotInDomain('term')
        scale = None
        for st in fn.body:
            if isinstance(st, ast.AugAssign) and isinstance(st.op, ast.Mult) and unparse(st.target) == 'sum':
                env = {nn: order}
                v = st.value.args[0] if isinstance(st.value, ast.Call) and len(st.value.args) == 1 else st.value
                if isinstance(v, ast.BinOp) and isinstance(v.op, ast.Pow) and isinstance(v.left, ast.Constant):
                    ex_ = v.right
                    def ivn(e):
                        if isinstance(e, ast.Constant):
                            return Fraction(e.value)
                        if isinstance(e, ast.Name) and e.id == nn:
                            return Fraction(order)
                        if isinstance(e, ast.BinOp) and isinstance(e.op, (ast.Add, ast.Sub, ast.Mult)):
                            a_, b_ = ivn(e.left), ivn(e.right)
                            return a_ + b_ if isinstance(e.op, ast.Add) else (a_ - b_ if isinstance(e.op, ast.Sub) else a_ * b_)
                        raise NotInDomain(unparse(e))
                    scale = Fraction(repr(v.left.value)) ** int(ivn(ex_))
        if scale is None:
            raise NotInDomain('normalisation')
        return {e: c * scale for e, c in acc.items() if c != 0}

    def legendre_coeffs(l):
        """P_l(mu) as {power of mu: coefficient} via Bonnet recursion."""
        P0, P1 = {0: Fraction(1)}, {1: Fraction(1)}
        if l == 0:
            return P0
        for n in range(1, l):
            nxt = {}
            for p, c in P1.items():
                nxt[p + 1] = nxt.get(p + 1, 0) + c * Fraction(2 * n + 1, n + 1)
            for p, c in P0.items():
                nxt[p] = nxt.get(p, 0) - c * Fraction(n, n + 1)
            P0, P1 = P1, {p: c for p, c in nxt.items() if c != 0}
        return P1
    for l in (0, 1, 2, 3, 4, 5, 6, 8, 10):
        try:
            got = run_Pn(l)
        except (NotInDomain, KeyError, IndexError, AttributeError) as e:
            chk.refuted('C08-R7', PS, 'P_n', f'P_n(mu^2, {l})', f'P_n no longer has the closed-form sum structure ({e})', node=fn)
            continue
        want = {Fraction(p, 2): c for p, c in legendre_coeffs(l).items()}
        chk.check(got == want, 'C08-R7', PS, 'P_n', f'P_n(mu^2, {l}) == Legendre P_{l}(mu)', f'{ {str(k): str(v) for k, v in sorted(got.items())} }',
                  f'P_n(x, {l}) = {dict((str(k), str(v)) for k, v in sorted(got.items()))} in powers of x = mu^2; Legendre P_{l} is {dict((str(k), str(v)) for k, v in sorted(want.items()))}',
                  node=fn, nf={str(k): str(v) for k, v in got.items()})
    # pole weight in bin_kmu
    bk = src.func(PS, 'bin_kmu')
    pw = [n for n in walk_no_nested(bk) if isinstance(n, ast.Assign) and unparse(n.targets[0]) == 'pw']
    chk.check(len(pw) == 1 and unparse(pw[0].value) == 'dtype(2 * pole + 1) * P_n(mu2, pole)', 'C08-R7', PS, 'bin_kmu', 'pole weight = (2l+1) P_l(mu^2 -> mu)', '',
              f'pole weight is {unparse(pw[0].value) if pw else None}', node=pw[0] if pw else bk)
