"""C01 -- each halo row indexes exactly its own subsample particles (index-arithmetic skeleton)."""
import ast

from ..core.srcmodel import clone, dotted, unparse, walk_no_nested, AnalysisError, names_in, stores_in, fold_str, single_defs, expand_names
from ..core.strexec import KeyCollector
from ..core.kernels import analyse
from ..spec.contracts import CONTRACTS

CAT = 'abacusnbody/data/compaso_halo_catalog.py'
UTIL = 'abacusnbody/util.py'
BP = 'abacusnbody/data/bitpacked.py'
FILES = [CAT, UTIL, BP]
CLS = 'CompaSOHaloCatalog.'


def fs(node, AB='A', extra=None):
    env = {'AB': AB}
    env.update(extra or {})
    return fold_str(node, env)


def run(chk):
    chk.explanation = ('Decided is the index-arithmetic skeleton that makes the subsample slices contiguous, disjoint, in halo order, A '
                       'before B, original then merged, summing to the table length: the new write offsets are one cumulative sum per '
                       'subsample of (npout [+ npout_merge]) with the running total carried from A to B; cleaned-away halos contribute no '
                       'original particles; the kernel call pairs read offsets/lengths with the columns that were summed and hands each '
                       'file exactly its halos\' rows (+1 offset); both zipper kernels slice every output by the halo\'s write range, '
                       'decode the original source, advance every output by the original length, decode the merged source; the index '
                       'columns are replaced by the new offsets and their differences; the table length is the last offset. That the '
                       'stored npstart/npout address the right records is a statement about file contents and is not decided.')
    chk.rule('C01-R1', 'write offsets = cumsum(initial, final) of the summed lengths, out of length n_halo+1, running total carried across A,B', 4)
    chk.rule('C01-R2', 'cleaned-away halos (N_total == 0) have their original npout zeroed before lengths are summed', 2)
    chk.rule('C01-R3', 'kernel call: read offsets/lengths <-> npstart/npout(+_merge) columns that were summed; write offsets = new[off[i] : off[i+1]+1]', 7)
    chk.rule('C01-R4', 'one index i selects the particle file, the cleaning file and the halo row range; raw column map rv->rvint, pid->packedpid; cleaned column f"{col}_{AB}"', 3)
    chk.rule('C01-R5', 'zipper typestate: every output SLICED[wstart:wend] -> decode original -> ADVANCED[read_len:] -> decode merged; kernels agree', 12)
    chk.rule('C01-R6', 'kernel subscripts within bounds under len(write_offsets) == N_halo + 1', 6)
    chk.rule('C01-R7', 'index columns replaced: npstart <- new[:-1], npout <- diff(new); old (and _merge) columns removed', 2)
    chk.rule('C01-R8', 'N_subsamp = last offset of the last loaded sample; samples are loaded in the order A, B', 2)
    chk.rule('C01-R9', 'light cone: subsample columns added unmodified from the single file; index columns untouched', 1)
    chk.rule('C01-R10', 'callee util.cumsum: out[0] is the carried offset, every element added once before its store, total returned (same obligations as C19-R2/R3)', 10)
    chk.assume('stored npstart/npout (and _merge) address this halo\'s records in its own superslab files (file contents)')
    chk.assume('astropy column objects alias the table storage (in-place masked store is seen by the later sum)')
    chk.rule('C01-R11', 'the superslab numbers, cleaning files and particle files are paired with the halo files position by position: no list on that path is sorted, '
                        'made unique or otherwise re-ordered (obligations C03-R2)', 4)
    from . import c03
    chk.import_from(c03.run, 'C03', ('C03-R2',), 'C01-R11')
    offsets(chk)
    callee(chk)
    call_site(chk)
    zippers(chk)
    replacement(chk)


def callee(chk):
    """The offset carry of R1 relies on util.cumsum writing the carried offset as the first element (initial=True) and
    returning the total: the accumulator discipline and the exact tiling of the stores decide that from the callee's body."""
    from . import c19
    fn = chk.src.func(c19.UTIL, 'cumsum')
    k = c19.analyse_rec(chk.src)
    c19.coverage(chk, k, rule='C01-R10')
    c19.accumulator(chk, fn, rule='C01-R10')


# --------------------------------------------------------------------------- R1, R2
def offsets(chk):
    src = chk.src
    q = CLS + '_compute_new_subsample_indices'
    fn = src.func(CAT, q)
    loops = [s for s in fn.body if isinstance(s, ast.For)]
    if len(loops) != 1 or unparse(loops[0].iter) != 'load_AB':
        raise AnalysisError('_compute_new_subsample_indices: loop over load_AB not found')
    L = loops[0]
    AB = L.target.id
    calls = [n for n in walk_no_nested(L) if isinstance(n, ast.Assign) and isinstance(n.value, ast.Call) and dotted(n.value.func) in ('util.cumsum', 'cumsum')]
    if len(calls) != 1:
        chk.refuted('C01-R1', CAT, q, 'one cumsum per subsample', f'{len(calls)} cumulative sums in the loop', node=L)
        return
    c = calls[0]
    args = {k: v for k, v in zip(('arr', 'out'), c.value.args)}
    kw = {k.arg: k.value for k in c.value.keywords}
    carry = unparse(c.targets[0])
    okflags = unparse(kw.get('initial', ast.Constant(False))) == 'True' and unparse(kw.get('final', ast.Constant(True))) == 'True'
    okcarry = 'offset' in kw and unparse(kw['offset']) == carry
    init = [s for s in fn.body if isinstance(s, ast.Assign) and unparse(s.targets[0]) == carry and s.lineno < L.lineno]
    okinit = len(init) == 1 and unparse(init[0].value) in ('np.uint64(0)', '0', 'np.int64(0)')
    others = [s for s in walk_no_nested(L) if isinstance(s, (ast.Assign, ast.AugAssign)) and carry in stores_in(s) and s is not c]
    chk.check(okflags and okcarry and okinit and not others, 'C01-R1', CAT, q, 'running total carried from A to B through the cumsum offset',
              f'{carry} = cumsum(..., initial=True, final=True, offset={carry})',
              f'flags ok={okflags}; offset argument is the returned total={okcarry}; starts at zero={okinit}; other writes to {carry}: {len(others)}: '
              'B would not start where A ends (slices overlap or leave a gap)', node=c)
    # out
    out = args.get('out')
    oalloc = [s for s in L.body if isinstance(s, ast.Assign) and out is not None and unparse(s.targets[0]) == unparse(out)]
    okout = len(oalloc) == 1 and unparse(oalloc[0].value) in ('np.empty(len(self.halos) + 1, dtype=np.uint64)', 'np.empty(len(self.halos) + 1, dtype=np.int64)') \
        and unparse(out).endswith(f'[{AB}]')
    chk.check(okout, 'C01-R1', CAT, q, 'offset array has one entry per halo plus the end', '',
              f'offset array is {unparse(oalloc[0].value) if oalloc else None}: needs one 64-bit entry per halo plus the end (a 32-bit total overflows for large catalogs)', node=oalloc[0] if oalloc else c)
    ret = [n for n in walk_no_nested(fn) if isinstance(n, ast.Return)]
    chk.check(len(ret) == 1 and unparse(ret[0].value) == unparse(out).split('[')[0], 'C01-R1', CAT, q, 'the per-sample offset arrays are returned', '',
              f'returns {unparse(ret[0].value) if ret else None}', node=fn, nontrivial=False)
    # L definition chain
    arr = unparse(args['arr']) if 'arr' in args else None
    defs = [s for s in walk_no_nested(L) if isinstance(s, ast.Assign) and unparse(s.targets[0]) == arr]
    base_ok = merge_ok = False
    merge_guard = None
    for d in defs:
        if isinstance(d.value, ast.Subscript) and unparse(d.value.value) == 'self.halos' and fs(d.value.slice, 'X') == 'npoutX':
            base_ok = getattr(d, '_parent', None) is L
        if isinstance(d.value, ast.BinOp) and isinstance(d.value.op, ast.Add):
            l, r = d.value.left, d.value.right
            if unparse(l) == arr and isinstance(r, ast.Subscript) and unparse(r.value) == 'self.halos' and fs(r.slice, 'X') == 'npoutX_merge':
                par = getattr(d, '_parent', None)
                merge_guard = unparse(par.test) if isinstance(par, ast.If) else None
                merge_ok = merge_guard == 'cleaned'
    chk.check(base_ok and merge_ok and len(defs) == 2, 'C01-R1', CAT, q, 'summed length = npout{AB} + (cleaned: npout{AB}_merge)', f'{arr}',
              f'length array {arr}: original counts ok={base_ok}; merged counts added under "{merge_guard}" ok={merge_ok}: slice lengths would not be original+merged particles', node=c)
    # R2
    mk = [s for s in fn.body if isinstance(s, ast.If) and unparse(s.test) == 'cleaned' and s.lineno < L.lineno]
    mname = None
    for m in mk:
        for s in m.body:
            if isinstance(s, ast.Assign) and unparse(s.value) == "self.halos['N_total'] == 0":
                mname = unparse(s.targets[0])
    chk.check(mname is not None, 'C01-R2', CAT, q, 'cleaned-away mask = (N_total == 0)', f'{mname}', 'the mask of cleaned-away halos is not N_total == 0', node=fn)
    zs = [s for s in walk_no_nested(L) if isinstance(s, ast.Assign) and isinstance(s.targets[0], ast.Subscript) and isinstance(s.targets[0].value, ast.Subscript)
          and unparse(s.targets[0].value.value) == 'self.halos' and fs(s.targets[0].value.slice, 'X') == 'npoutX']
    # the same store through the local that still aliases the table column (before it is rebound to the sum)
    bdef = [d for d in defs if isinstance(d.value, ast.Subscript)]
    mdef0 = [d for d in defs if isinstance(d.value, ast.BinOp)]
    if bdef and mdef0:
        zs += [s for s in walk_no_nested(L) if isinstance(s, ast.Assign) and isinstance(s.targets[0], ast.Subscript) and unparse(s.targets[0].value) == arr
               and bdef[0].lineno < s.lineno < mdef0[0].lineno]
    okz = len(zs) == 1 and unparse(zs[0].targets[0].slice) == (mname or '?') and unparse(zs[0].value) == '0'
    if okz:
        par = zs[0]._parent
        okz = isinstance(par, ast.If) and unparse(par.test) == 'cleaned'
        mdef = [d for d in defs if isinstance(d.value, ast.BinOp)]
        okz = okz and bool(mdef) and zs[0].lineno < mdef[0].lineno
    if not okz and not zs and mname is not None:
        # the zeroing as a pass of its own: under `if cleaned:`, before the summing loop, one store per sample of the same selection
        for m in mk:
            pre = [s_ for s_ in m.body if isinstance(s_, ast.For) and unparse(s_.iter) == unparse(L.iter) and isinstance(s_.target, ast.Name) and len(s_.body) == 1 and not s_.orelse]
            if len(pre) == 1:
                z_ = pre[0].body[0]
                ab2 = pre[0].target.id
                mask_first = any(isinstance(x_, ast.Assign) and unparse(x_.targets[0]) == mname and x_.lineno < pre[0].lineno for x_ in m.body)
                okz = isinstance(z_, ast.Assign) and isinstance(z_.targets[0], ast.Subscript) and isinstance(z_.targets[0].value, ast.Subscript) \
                    and unparse(z_.targets[0].value.value) == 'self.halos' and fs(z_.targets[0].value.slice, 'X', {ab2: 'X'}) == 'npoutX' \
                    and unparse(z_.targets[0].slice) == mname and unparse(z_.value) == '0' and mask_first
                if okz:
                    zs = [z_]
    chk.check(okz, 'C01-R2', CAT, q, 'npout{AB}[cleaned-away] = 0 in place, before the lengths are summed', '',
              'cleaned-away halos keep their original particle count: their particles would appear twice (once here, once merged into another halo)',
              node=zs[0] if zs else L)


# --------------------------------------------------------------------------- R3, R4, R8
STATE = {}


def call_site(chk):
    src = chk.src
    q = CLS + '_load_subsamples'
    fn = src.func(CAT, q)
    # innermost loop over files
    # `for i, x in enumerate(self.superslab_inds)` is the loop over positions with x = self.superslab_inds[i] (x not re-bound in the body)
    for n in walk_no_nested(fn):
        if isinstance(n, ast.For) and unparse(n.iter) == 'enumerate(self.superslab_inds)' and isinstance(n.target, ast.Tuple) and len(n.target.elts) == 2 \
                and all(isinstance(e_, ast.Name) for e_ in n.target.elts):
            i_, x_ = n.target.elts[0].id, n.target.elts[1].id
            if not any(isinstance(m_, ast.Name) and m_.id in (x_, i_) and isinstance(m_.ctx, ast.Store) for b_ in n.body for m_ in ast.walk(b_)):
                class SubX(ast.NodeTransformer):
                    def visit_Name(s_, m_):
                        if m_.id == x_ and isinstance(m_.ctx, ast.Load):
                            return ast.copy_location(ast.parse(f'self.superslab_inds[{i_}]', mode='eval').body, m_)
                        return m_
                n.body = [SubX().visit(b_) for b_ in n.body]
                n.target = ast.copy_location(ast.Name(id=i_, ctx=ast.Store()), n.target)
                n.iter = ast.copy_location(ast.parse('range(len(self.superslab_inds))', mode='eval').body, n.iter)
                ast.fix_missing_locations(n)
                from ..core.hodpass import _relink
                _relink(fn)
    iloops = [n for n in walk_no_nested(fn) if isinstance(n, ast.For) and unparse(n.iter) == 'range(len(self.superslab_inds))']
    if len(iloops) != 1:
        raise AnalysisError('_load_subsamples: file loop not found')
    I = iloops[0]
    iv = I.target.id
    # locals bound in the enclosing (file kind, sample) loops before the file loop starts: (name, value) in order
    outer_binds = []
    cur_ = I
    while getattr(cur_, '_parent', None) is not None and cur_._parent is not fn:
        par_ = cur_._parent
        if isinstance(par_, ast.For):
            pre_ = []
            for st_ in par_.body:
                if st_ is cur_:
                    break
                if isinstance(st_, ast.Assign) and len(st_.targets) == 1 and isinstance(st_.targets[0], ast.Name) and st_.targets[0].id != 'colname':
                    pre_.append((st_.targets[0].id, st_.value))
            outer_binds = pre_ + outer_binds
        cur_ = par_
    # running row cursor instead of the prefix-sum table:  E = 0 before the file loop (once per sweep);  S = E; E = S + [int(]N_halo_per_file[i][)]
    # at the top of the body; no other store.  Then S = sum(N_halo_per_file[:i]) and E = sum(N_halo_per_file[:i+1]): the table entries i and i+1.
    cursor_ok = False
    if len(I.body) >= 2 and all(isinstance(b_, ast.Assign) and len(b_.targets) == 1 and isinstance(b_.targets[0], ast.Name) for b_ in I.body[:2]) \
            and isinstance(I.body[0].value, ast.Name):
        S_, E_ = I.body[0].targets[0].id, I.body[0].value.id
        adv_ = unparse(I.body[1].value).replace(' ', '')
        par_ = getattr(I, '_parent', None)
        resets = [b_ for b_ in getattr(par_, 'body', []) if isinstance(b_, ast.Assign) and len(b_.targets) == 1 and unparse(b_.targets[0]) == E_] if isinstance(par_, ast.For) else []
        nst = {nm: sum(1 for m_ in walk_no_nested(fn) if isinstance(m_, ast.Name) and m_.id == nm and isinstance(m_.ctx, ast.Store)) for nm in (S_, E_)}
        if I.body[1].targets[0].id == E_ and adv_ in (f'{S_}+int(N_halo_per_file[{iv}])', f'{S_}+N_halo_per_file[{iv}]', f'{E_}+int(N_halo_per_file[{iv}])') \
                and len(resets) == 1 and unparse(resets[0].value) in ('0', 'np.uint64(0)', 'np.int64(0)') and par_.body.index(resets[0]) < par_.body.index(I) \
                and nst == {S_: 1, E_: 2} and S_ != E_:
            class SubC(ast.NodeTransformer):
                def visit_Name(s_, m_):
                    if isinstance(m_.ctx, ast.Load) and m_.id in (S_, E_):
                        return ast.copy_location(ast.parse(f'halo_file_offsets[{iv}]' if m_.id == S_ else f'halo_file_offsets[{iv} + 1]', mode='eval').body, m_)
                    return m_
            I.body = [ast.fix_missing_locations(SubC().visit(b_)) for b_ in I.body[2:]]
            from ..core.hodpass import _relink as _rl
            _rl(fn)
            outer_binds = [(k_, v_) for k_, v_ in outer_binds if k_ != E_]
            cursor_ok = True
    STATE['cursor_ok'] = cursor_ok
    inner_stores = {m_.id for b_ in I.body for m_ in ast.walk(b_) if isinstance(m_, ast.Name) and isinstance(m_.ctx, ast.Store)}
    outer_binds = [(k_, v_) for k_, v_ in outer_binds if k_ not in inner_stores]
    # the keyword table handed to the kernels, by constant propagation of the per-file loop body for every
    # (cleaned, subsample, file kind); values that are not constants are carried as canonical expression text
    from ..core.pe import PE, Sym, Undecided, Raised
    rows = f'halo_file_offsets[{iv}]:halo_file_offsets[{iv} + 1]'
    # the elements of the list of open cleaning files are file objects (never None): `clean_afs = [asdf.open(...) for ...]`, bound once
    lst0 = [n for n in walk_no_nested(fn) if isinstance(n, ast.Assign) and unparse(n.targets[0]) == 'clean_afs']
    nonnull_ = ('clean_afs[',) if len(lst0) == 1 and isinstance(lst0[0].value, ast.ListComp) and isinstance(lst0[0].value.elt, ast.Call) \
        and dotted(lst0[0].value.elt.func) == 'asdf.open' else ()
    outs_ok, okc_all = True, True
    srcs_sem = {}
    seen_calls = set()
    for cleaned in (True, False):
        for AB in ('A', 'B'):
            got_all = {}
            problems = []
            for rvpid in ('rv', 'pid'):
                pe = PE(symbolic=True)
                pe.nonnull = nonnull_
                env = {'AB': AB, 'cleaned': cleaned, 'rvpid': rvpid, 'colname': {'rv': 'rvint', 'pid': 'packedpid'}[rvpid]}
                try:
                    for k_, v_ in outer_binds:
                        env[k_] = pe.ev(v_, env)
                    pe.block(I.body, env)
                except (Undecided, Raised) as e:
                    if str(e).startswith('condition '):
                        problems.append(f'{rvpid}: a run-time test ({str(e)[10:]}) in the per-file loop decides whether/how this file is unpacked: '
                                        f'a path can skip the kernel call (original or merged particles never written) or change its arguments')
                    else:
                        problems.append(f'{rvpid}: not decided ({e})')
                    continue
                kc_ = [c for c in pe.calls if c[0] in ('self._unpack_rv_subsamples', 'self._unpack_pid_subsamples')]
                wantfn = 'self._unpack_rv_subsamples' if rvpid == 'rv' else 'self._unpack_pid_subsamples'
                if [c[0] for c in kc_] != [wantfn]:
                    problems.append(f'{rvpid}: kernel calls {[c[0] for c in kc_]}')
                    okc_all = False
                    continue
                seen_calls.add(wantfn)
                kw = kc_[0][2]
                srcs_sem[(cleaned, AB, rvpid)] = {k: (v.text if isinstance(v, Sym) else repr(v)) for k, v in kw.items() if k in ('slab_rvint', 'clean_slab_rvint', 'slab_packedpid', 'clean_slab_packedpid')}
                txt_ = {k: (v.text if isinstance(v, Sym) else repr(v)) for k, v in kw.items()}
                got_all[rvpid] = txt_
                want = {'slab_read_offsets': f"self.halos['npstart{AB}'][{rows}]", 'slab_read_lens': f"self.halos['npout{AB}'][{rows}]"}
                if cleaned:
                    want.update({'clean_slab_read_offsets': f"self.halos['npstart{AB}_merge'][{rows}]", 'clean_slab_read_lens': f"self.halos['npout{AB}_merge'][{rows}]"})
                bad = {k: txt_.get(k) for k in want if txt_.get(k) != want[k]}
                extra_clean = [k for k in txt_ if k.startswith('clean_') and not cleaned]
                if bad or extra_clean:
                    problems.append(f'{rvpid}: kernel receives {bad} (need {want}); cleaning arguments without cleaning: {extra_clean}')
                wo_ = txt_.get('slab_write_offsets')
                if (wo_ or '').replace('np.uint64(1)', '1') != f"npstartAB_new['{AB}'][halo_file_offsets[{iv}]:halo_file_offsets[{iv} + 1] + 1]":
                    problems.append(f'{rvpid}: write offsets slice is {wo_}')
                if rvpid == 'rv' and not all(txt_.get(o) == f"self.subsamples.columns.get('{o}')" for o in ('pos', 'vel', 'rvint')):
                    outs_ok = False
            chk.check(not problems, 'C01-R3', CAT, q, f'cleaned={cleaned},{AB}: read offsets/lengths <-> index columns of this file\'s halos; write offsets = new[off[i] : off[i+1] + 1]',
                      '', '; '.join(problems)[:700] + ': particles would be read with another halo\'s (or subsample\'s) range', node=I, nf=sorted(got_all.get('rv', {}).items())[:6])
    txt = [unparse(s) for s in walk_no_nested(fn) if isinstance(s, ast.stmt)]
    from ..core.idioms import offsets_table
    okoff = cursor_ok or offsets_table(fn, 'halo_file_offsets', 'N_halo_per_file')
    chk.check(okoff, 'C01-R3', CAT, q, 'file row ranges = prefix sums of the per-file halo counts', '', 'halo_file_offsets is no longer the prefix sum of the per-file counts', node=fn)
    # the rv kernel decodes into the subsample table's own columns; the pid kernel receives every PID field column
    pf = [s for s in walk_no_nested(I) if isinstance(s, ast.For) and unparse(s.iter) == 'bitpacked.PID_FIELDS']
    okpf = len(pf) == 1 and unparse(pf[0].body[0]) == f'kwargs[{pf[0].target.id}] = self.subsamples.columns.get({pf[0].target.id})'
    okc = okc_all and seen_calls == {'self._unpack_rv_subsamples', 'self._unpack_pid_subsamples'}
    chk.check(okc and outs_ok and okpf, 'C01-R3', CAT, q, 'kernels decode into the subsample table\'s own columns', '',
              f'kernel calls ok={okc}; rv outputs ok={outs_ok}; pid outputs loop ok={okpf}', node=I)
    outs = {s.targets[0].slice.value: unparse(s.value) for s in walk_no_nested(I) if isinstance(s, ast.Assign) and isinstance(s.targets[0], ast.Subscript)
            and unparse(s.targets[0].value) == 'kwargs' and isinstance(s.targets[0].slice, ast.Constant)}
    # R4
    cm = [s for s in walk_no_nested(fn) if isinstance(s, ast.Assign) and unparse(s.targets[0]) == 'colname']
    okcm = len(cm) == 1 and unparse(cm[0].value) == "{'rv': 'rvint', 'pid': 'packedpid'}[rvpid]"
    t = unparse(I)
    okfile = "f'halo_{rvpid}_{AB}_{self.superslab_inds[" + iv + "]:03d}.asdf'" in t and "f'halo_{rvpid}_{AB}'" in t and 'af[self.data_key][colname][:]' in t
    okclean = f'clean_af = clean_afs[{iv}]' in t and "clean_af[self.data_key][f'{colname}_{AB}'][:]" in t
    # the reusable list of cleaning particle files: position p holds the file of superslab number superslab_inds[p]
    lst = [n for n in walk_no_nested(fn) if isinstance(n, ast.Assign) and unparse(n.targets[0]) == 'clean_afs' and isinstance(n.value, ast.ListComp)]
    oklst = False
    if len(lst) == 1:
        g = lst[0].value.generators[0]
        v = g.target.id if isinstance(g.target, ast.Name) else None
        oklst = unparse(g.iter) == 'self.superslab_inds' and not g.ifs and v is not None and \
            ("f'cleaned_rvpid_{" + v + ":03d}.asdf'") in unparse(lst[0].value.elt) and 'self.clean_rvpid_dir' in unparse(lst[0].value.elt)
    okclean = okclean and oklst
    # the same three facts read off the values that reach the kernels (constant propagation through locals, helpers and conditional
    # expressions): where the particle records and the merged records of (file kind, AB, superslab i) come from
    def _simp(t_):
        class F(ast.NodeTransformer):
            def visit_IfExp(s_, n):
                n = s_.generic_visit(n)
                if isinstance(n.test, ast.Constant):
                    return n.body if n.test.value else n.orelse
                return n

            def visit_JoinedStr(s_, n):
                n = s_.generic_visit(n)
                vals = []
                for v_ in n.values:
                    if isinstance(v_, ast.FormattedValue) and v_.format_spec is None and v_.conversion in (-1, None) and isinstance(v_.value, ast.Constant) and isinstance(v_.value.value, str):
                        v_ = ast.Constant(value=v_.value.value)
                    if isinstance(v_, ast.Constant) and vals and isinstance(vals[-1], ast.Constant):
                        vals[-1] = ast.Constant(value=str(vals[-1].value) + str(v_.value))
                    else:
                        vals.append(v_)
                if len(vals) == 1 and isinstance(vals[0], ast.Constant):
                    return vals[0]
                n.values = vals
                return n
        try:
            return unparse(ast.fix_missing_locations(F().visit(ast.parse(t_, mode='eval')))).replace('"', "'")
        except SyntaxError:
            return t_
    sem_ok = len(srcs_sem) == 8
    for (cl_, AB_, rp_), d_ in srcs_sem.items():
        col_ = {'rv': 'rvint', 'pid': 'packedpid'}[rp_]
        a_ = _simp(d_.get(f'slab_{col_}', ''))
        want_a = f"asdf.open(Path(self.groupdir) / 'halo_{rp_}_{AB_}' / f'halo_{rp_}_{AB_}_{{self.superslab_inds[{iv}]:03d}}.asdf', lazy_load=True, memmap=False)[self.data_key]['{col_}'][:]"
        if a_ != want_a:
            sem_ok = False
        if cl_ and _simp(d_.get(f'clean_slab_{col_}', '')) != f"clean_afs[{iv}][self.data_key]['{col_}_{AB_}'][:]":
            sem_ok = False
    if sem_ok:
        okcm, okfile = True, True
        okclean = oklst
    chk.check(okcm, 'C01-R4', CAT, q, 'raw column map rv -> rvint, pid -> packedpid', '', f'colname = {unparse(cm[0].value) if cm else None}', node=cm[0] if cm else fn)
    chk.check(okfile, 'C01-R4', CAT, q, 'particle file of superslab i, subsample AB', '', 'the particle file is not selected by (rv|pid, AB, superslab_inds[i])', node=I)
    chk.check(okclean, 'C01-R4', CAT, q, 'cleaning file i, column {colname}_{AB}', '', 'merged particles are not read from cleaning file i / column {colname}_{AB}', node=I)
    srcs = {k: outs.get(k) for k in ('slab_rvint', 'clean_slab_rvint', 'slab_packedpid', 'clean_slab_packedpid')}
    oks = srcs == {'slab_rvint': 'slab_particles', 'clean_slab_rvint': 'clean_slab_particles', 'slab_packedpid': 'slab_particles', 'clean_slab_packedpid': 'clean_slab_particles'}
    oks = oks or sem_ok
    chk.check(oks, 'C01-R3', CAT, q, 'original source = particle file data, merged source = cleaning file data', f'{srcs}', f'kernel sources {srcs}', node=I, nontrivial=False)
    # R8
    ns = [s for s in fn.body if isinstance(s, ast.Assign) and unparse(s.targets[0]) == 'N_subsamp']
    okn = len(ns) == 1 and unparse(ns[0].value) == "npstartAB_new['B'][-1] if 'B' in load_AB else npstartAB_new['A'][-1]"
    chk.check(okn, 'C01-R8', CAT, q, 'table length = last write offset of the last loaded sample', '', f'N_subsamp = {unparse(ns[0].value) if ns else None}', node=ns[0] if ns else fn)
    sl = src.func(CAT, CLS + '_setup_load_subsamples')
    la = [s for s in walk_no_nested(sl) if isinstance(s, ast.Assign) and unparse(s.targets[0]) == 'load_AB' and isinstance(s.value, ast.ListComp)]
    okla = len(la) == 1 and unparse(la[0].value.generators[0].iter) == "'AB'"
    init = src.func(CAT, CLS + '__init__')
    oklc = "self.load_AB = ['A']" in unparse(init)
    chk.check(okla and oklc, 'C01-R8', CAT, CLS + '_setup_load_subsamples', 'samples listed in the order A, B', '', 'load_AB is no longer built in the order A then B', node=sl)
    # R9
    lc = src.func(CAT, CLS + '_load_halo_lc_subsamples')
    ldefs = single_defs(lc)
    t = [unparse(expand_names(s, ldefs)) for s in walk_no_nested(lc) if isinstance(s, (ast.Expr, ast.Assign, ast.AugAssign))]
    withs = [n for n in walk_no_nested(lc) if isinstance(n, ast.With)]
    opened = [unparse(expand_names(w.items[0].context_expr, ldefs)) for w in withs]
    ok9 = 'self.subsamples.add_column(af[self.data_key][w][:], name=w, copy=False)' in t and \
        opened == ["asdf.open(Path(self.groupdir) / 'lc_pid_rv.asdf', lazy_load=True, memmap=False)"] and \
        not any('npstart' in x or 'npout' in x for x in t)
    chk.check(ok9, 'C01-R9', CAT, CLS + '_load_halo_lc_subsamples', 'columns of lc_pid_rv.asdf added unmodified; index columns untouched', '',
              'light-cone subsamples are no longer the unmodified columns of the single file', node=lc)
    # the stored npstartA/npoutA of a light-cone halo file index the particle file of ITS OWN directory, and only the particle file of
    # the first file's directory is read (the mixed-catalog test is waived for light cones): a list of files from several directories
    # must be refused when subsamples are requested, otherwise every later file's halos get slices of the first directory's particles
    sfp = src.func(CAT, CLS + '_setup_file_paths')
    waived = any(isinstance(n, ast.If) and 'halo_lc' in unparse(n.test) and any(isinstance(x, ast.Raise) for x in ast.walk(n)) for n in walk_no_nested(sfp))
    lc_selection(chk)
    refuse = [r for r in _foreign_dir_refusals(lc, ldefs)]
    before_load = bool(refuse) and all(r.lineno < min([n.lineno for n in withs] or [10**9]) for r in refuse)
    chk.check((not waived) or before_load, 'C01-R9', CAT, CLS + '_load_halo_lc_subsamples',
              'light cone: halo files from another directory than the particle file are refused before the particle file is read', '',
              'a list of light-cone halo files from several directories is accepted (the mixed-catalog test is waived for light cones) while only '
              '<first directory>/lc_pid_rv.asdf is loaded: halos of the later files are given slices of the first directory\'s particles', node=lc, nontrivial=False)


def lc_selection(chk):
    """The particle file of a halo light cone holds the unpacked columns only ("no unpacking", see _load_halo_lc_subsamples): the raw names
    rvint / packedpid that `subsamples=True` expands to in passthrough mode do not exist there (KeyError 'rvint', F47).  The selection
    for a light cone is therefore made without the passthrough expansion."""
    src = chk.src
    init = src.func(CAT, CLS + '__init__')
    calls = [n for n in walk_no_nested(init) if isinstance(n, ast.Call) and isinstance(n.func, ast.Attribute) and n.func.attr == '_setup_load_subsamples']
    # the constructor is walked for a light cone (halo_lc = True) with passthrough = True: tests on halo_lc are decided, everything else is
    # followed on both sides; the value handed over as `passthrough=` at every call that is reached must be false
    UNK = object()

    def ev(e, env):
        if isinstance(e, ast.Constant):
            return e.value
        if isinstance(e, ast.Name):
            return env.get(e.id, UNK)
        if isinstance(e, ast.UnaryOp) and isinstance(e.op, ast.Not):
            v = ev(e.operand, env)
            return UNK if v is UNK else (not v)
        if isinstance(e, ast.BoolOp):
            vals = [ev(v, env) for v in e.values]
            if isinstance(e.op, ast.And):
                if any(v is not UNK and not v for v in vals):
                    return False
                return UNK if any(v is UNK for v in vals) else vals[-1]
            if any(v is not UNK and v for v in vals):
                return True
            return UNK if any(v is UNK for v in vals) else vals[-1]
        if isinstance(e, ast.Compare) and len(e.ops) == 1 and isinstance(e.ops[0], (ast.Is, ast.IsNot, ast.Eq, ast.NotEq)):
            a, b = ev(e.left, env), ev(e.comparators[0], env)
            if a is UNK or b is UNK:
                return UNK
            same = (a is b) if isinstance(e.ops[0], (ast.Is, ast.IsNot)) else (a == b)
            return same if isinstance(e.ops[0], (ast.Is, ast.Eq)) else not same
        if isinstance(e, ast.IfExp):
            t = ev(e.test, env)
            if t is UNK:
                a, b = ev(e.body, env), ev(e.orelse, env)
                return a if a is not UNK and a == b else UNK
            return ev(e.body if t else e.orelse, env)
        return UNK
    reached = []        # (call node, value of the passthrough argument)

    def walk(stmts, env):
        for st in stmts:
            for c_ in [n for n in ast.walk(st) if n in calls] if not isinstance(st, (ast.If, ast.For, ast.While, ast.With, ast.Try)) else []:
                kw = [k.value for k in c_.keywords if k.arg == 'passthrough'] or list(c_.args[1:2])
                reached.append((c_, ev(kw[0], env) if kw else False))
            if isinstance(st, ast.Assign) and len(st.targets) == 1 and isinstance(st.targets[0], ast.Name):
                env[st.targets[0].id] = ev(st.value, env)
            elif isinstance(st, ast.If):
                t = ev(st.test, env)
                if t is UNK:
                    ea, eb = dict(env), dict(env)
                    walk(st.body, ea)
                    walk(st.orelse, eb)
                    for k_ in set(ea) | set(eb):
                        va, vb = ea.get(k_, UNK), eb.get(k_, UNK)
                        env[k_] = va if (va is not UNK and vb is not UNK and va == vb) else UNK
                else:
                    walk(st.body if t else st.orelse, env)
            elif isinstance(st, (ast.For, ast.While, ast.With, ast.Try)):
                walk(getattr(st, 'body', []), env)
    walk(init.body, {'halo_lc': True, 'passthrough': True})
    got = None
    ok = bool(reached)
    for c_, v_ in reached:
        if v_ is UNK or v_:
            ok = False
            kw = [k.value for k in c_.keywords if k.arg == 'passthrough'] or list(c_.args[1:2])
            got = unparse(kw[0]) if kw else None
    lc = src.func(CAT, CLS + '_load_halo_lc_subsamples')
    maps = any(isinstance(n, ast.Dict) and {'rvint', 'packedpid'} & {getattr(k_, 'value', None) for k_ in n.keys} for n in ast.walk(lc))
    chk.check(ok or maps, 'C01-R9', CAT, CLS + '__init__', 'light cone: the subsample selection does not use the passthrough expansion to raw column names', f'passthrough={got}',
              f'_setup_load_subsamples is called with passthrough={got}: with passthrough=True and subsamples=True the selection becomes rvint / packedpid, which the light-cone '
              'particle file (unpacked pos, vel, pid columns) does not hold: KeyError instead of a catalog for an accepted option combination', node=calls[0] if calls else init, nontrivial=False)


def _foreign_dir_refusals(lc, ldefs):
    """If-statements of the light-cone subsample loader that raise when SOME listed halo file lies outside self.groupdir.  Accepted
    spellings of "some file is foreign" (after replacing single-assignment locals by their values):
       for h in self.halo_fns: if FOREIGN(h): raise          |  if any(FOREIGN(h) for h in self.halo_fns): raise
       if next((h for h in self.halo_fns if FOREIGN(h)), None) is not None: raise   |  if not all(HOME(h) for h in self.halo_fns): raise
    with FOREIGN(h) = Path(h).parent != Path(self.groupdir) and HOME its negation; the guard may only be conjoined with `which`."""
    def foreign(test, h, want_ne=True):
        if isinstance(test, ast.Compare) and len(test.ops) == 1 and isinstance(test.ops[0], ast.NotEq if want_ne else ast.Eq):
            sides = {unparse(test.left), unparse(test.comparators[0])}
            return sides == {f'Path({h}).parent', 'Path(self.groupdir)'}
        return False

    def gen_over_files(g):
        return isinstance(g, (ast.GeneratorExp, ast.ListComp)) and len(g.generators) == 1 and unparse(g.generators[0].iter) == 'self.halo_fns' \
            and isinstance(g.generators[0].target, ast.Name)

    def some_foreign(test):
        test = expand_names(test, ldefs)
        if isinstance(test, ast.BoolOp) and isinstance(test.op, ast.And):
            rest = [v for v in test.values if unparse(v) != 'which']
            return len(rest) == 1 and some_foreign(rest[0])
        if isinstance(test, ast.Call) and dotted(test.func) == 'any' and len(test.args) == 1 and gen_over_files(test.args[0]):
            g = test.args[0]
            return not g.generators[0].ifs and foreign(g.elt, g.generators[0].target.id)
        if isinstance(test, ast.UnaryOp) and isinstance(test.op, ast.Not) and isinstance(test.operand, ast.Call) and dotted(test.operand.func) == 'all' \
                and len(test.operand.args) == 1 and gen_over_files(test.operand.args[0]):
            g = test.operand.args[0]
            return not g.generators[0].ifs and foreign(g.elt, g.generators[0].target.id, want_ne=False)
        if isinstance(test, ast.Compare) and len(test.ops) == 1 and isinstance(test.ops[0], ast.IsNot) and unparse(test.comparators[0]) == 'None':
            c = test.left
            if isinstance(c, ast.Call) and dotted(c.func) == 'next' and len(c.args) == 2 and unparse(c.args[1]) == 'None' and gen_over_files(c.args[0]):
                g = c.args[0]
                h = g.generators[0].target.id
                return unparse(g.elt) == h and len(g.generators[0].ifs) == 1 and foreign(expand_names(g.generators[0].ifs[0], ldefs), h)
        return False

    def raises(body):
        return any(isinstance(r, ast.Raise) for r in body)
    out = []
    for n in walk_no_nested(lc):
        if isinstance(n, ast.For) and unparse(n.iter) == 'self.halo_fns' and isinstance(n.target, ast.Name):
            for x in n.body:
                if isinstance(x, ast.If) and raises(x.body) and foreign(expand_names(x.test, ldefs), n.target.id):
                    out.append(x)
        elif isinstance(n, ast.If) and raises(n.body) and some_foreign(n.test):
            out.append(n)
    return out


def _guard(s):
    p = getattr(s, '_parent', None)
    return unparse(p.test) if isinstance(p, ast.If) else None


# --------------------------------------------------------------------------- R5, R6
ZIP = {
    '_unpack_rv_subsamples': dict(outputs=['pos', 'vel', 'rvint'], raw='rvint', src='slab_rvint', clean='clean_slab_rvint',
                                  decoder='bitpacked._unpack_rvint', decoded=['pos', 'vel']),
    '_unpack_pid_subsamples': dict(outputs=['pid', 'lagr_pos', 'tagged', 'density', 'lagr_idx', 'packedpid'], raw='packedpid', src='slab_packedpid',
                                   clean='clean_slab_packedpid', decoder='bitpacked._unpack_pids', decoded=['pid', 'lagr_pos', 'tagged', 'density', 'lagr_idx']),
}


def zippers(chk):
    src = chk.src
    for name, Z in ZIP.items():
        q = CLS + name
        fn = src.func(CAT, q)
        params = [a.arg for a in fn.args.args]
        missing = [o for o in Z['outputs'] if o not in params]
        if missing:
            raise AnalysisError(f'{name}: outputs {missing} not in the signature')
        loops = [s for s in fn.body if isinstance(s, ast.For)]
        if len(loops) != 1:
            chk.refuted('C01-R5', CAT, q, 'one loop over halos', f'{len(loops)} loops', node=fn)
            continue
        L = loops[0]
        i = L.target.id
        from ..core.srcmodel import early_exits
        ex = early_exits(L)
        chk.check(not ex, 'C01-R5', CAT, q, 'no halo is skipped: no continue/break/return in the halo loop', '',
                  f'{type(ex[0]).__name__.lower() if ex else ""} at line {ex[0].lineno if ex else 0}: a halo can leave the loop before its particles are decoded', node=ex[0] if ex else L, nontrivial=False)
        okloop = unparse(L.iter) == 'range(N_halo)' and any(unparse(s) == 'N_halo = len(slab_read_offsets)' for s in fn.body)
        b = {unparse(s.targets[0]): unparse(s.value) for s in L.body if isinstance(s, ast.Assign) and isinstance(s.targets[0], ast.Name)}
        okw = b.get('wstart') == f'slab_write_offsets[{i}]' and b.get('wend') == f'slab_write_offsets[{i} + 1]'
        hsrc = [k for k, v in b.items() if v == f'{Z["src"]}[slab_read_offsets[{i}]:slab_read_offsets[{i}] + slab_read_lens[{i}]]']
        chk.check(okloop and okw and len(hsrc) == 1, 'C01-R5', CAT, q, 'per halo: source = slab[off:off+len], write range = [woff[i], woff[i+1])', '',
                  f'loop ok={okloop}; write range ok={okw}; halo source {hsrc}', node=L)
        h = hsrc[0] if hsrc else '?'
        # SLICED
        local = {}
        for o in Z['outputs']:
            for k, v in b.items():
                if v == f'{o}[wstart:wend] if {o} is not None else None':
                    local[o] = k
        chk.check(set(local) == set(Z['outputs']), 'C01-R5', CAT, q, 'every output sliced to the halo\'s write range', f'{local}',
                  f'outputs not sliced by [wstart:wend]: {sorted(set(Z["outputs"]) - set(local))}: they would be written at the table start for every halo', node=L, nf=local)
        # raw copy phase 1
        raw = Z['raw']
        rc = [s for s in L.body if isinstance(s, ast.If) and unparse(s.test) == f'{raw} is not None']
        okrc = len(rc) == 1 and [unparse(x) for x in rc[0].body] == [f'{local.get(raw)}[:len({h})] = {h}']
        # decode 1
        calls = [n for n in L.body if isinstance(n, ast.Expr) and isinstance(n.value, ast.Call) and dotted(n.value.func) == Z['decoder']]
        okd1 = len(calls) == 1 and _decoder_args(calls[0].value, h, local, Z)
        chk.check(okrc and okd1, 'C01-R5', CAT, q, 'phase 1: raw copy and decode of the original particles into the sliced outputs', '',
                  f'raw copy ok={okrc}; decode call ok={okd1}', node=calls[0] if calls else L)
        # cleaned block
        cb = [s for s in L.body if isinstance(s, ast.If) and unparse(s.test) == f'{Z["clean"]} is not None']
        if len(cb) != 1:
            chk.refuted('C01-R5', CAT, q, 'merged-particle phase', 'no block handles the merged particles of the cleaning file', node=L)
            continue
        CB = cb[0]
        cbm = {unparse(s.targets[0]): unparse(s.value) for s in CB.body if isinstance(s, ast.Assign) and isinstance(s.targets[0], ast.Name)}
        csrc = [k for k, v in cbm.items() if v == f'{Z["clean"]}[clean_slab_read_offsets[{i}]:clean_slab_read_offsets[{i}] + clean_slab_read_lens[{i}]]']
        okoff = cbm.get('woff') == f'slab_read_lens[{i}]'
        adv = {}
        rc2 = False
        for s in CB.body:
            if isinstance(s, ast.If):
                for o in Z['outputs']:
                    if unparse(s.test) == f'{o} is not None':
                        st = [unparse(x) for x in s.body]
                        if st and st[0] == f'{local.get(o)} = {local.get(o)}[woff:]':
                            adv[o] = True
                            if o == raw:
                                rc2 = st[1:] == [f'{local.get(o)}[:len({csrc[0] if csrc else "?"})] = {csrc[0] if csrc else "?"}']
        chk.check(okoff and len(csrc) == 1, 'C01-R5', CAT, q, 'merged source = clean[off:off+len]; write offset advanced by the original length', f'woff = {cbm.get("woff")}',
                  f'woff = {cbm.get("woff")} (must be slab_read_lens[{i}]); merged source {csrc}: merged particles would overwrite or leave a gap after the originals', node=CB)
        chk.check(set(adv) == set(Z['outputs']) and rc2, 'C01-R5', CAT, q, 'every output advanced by woff before the merged decode', f'{sorted(adv)}',
                  f'outputs not advanced: {sorted(set(Z["outputs"]) - set(adv))}; merged raw copy ok={rc2}', node=CB)
        calls2 = [n for n in CB.body if isinstance(n, ast.Expr) and isinstance(n.value, ast.Call) and dotted(n.value.func) == Z['decoder']]
        okd2 = len(calls2) == 1 and _decoder_args(calls2[0].value, csrc[0] if csrc else '?', local, Z)
        order = okd2 and calls and L.body.index(calls[0]) < L.body.index(CB) and all(
            CB.body.index(s) < CB.body.index(calls2[0]) for s in CB.body if isinstance(s, ast.If))
        chk.check(okd2 and order, 'C01-R5', CAT, q, 'phase 2: merged particles decoded after the originals into the advanced outputs', '',
                  f'merged decode call ok={okd2}; original-then-merged order={bool(order)}', node=calls2[0] if calls2 else CB)
        # R6 bounds
        from ..core.kernels import add_bounds_obligations
        add_bounds_obligations(chk, 'C01-R6', CAT, q, CONTRACTS)


def _decoder_args(call, source, local, Z):
    pos = [unparse(a) for a in call.args]
    kw = {k.arg: unparse(k.value) for k in call.keywords}
    if Z['decoder'].endswith('_unpack_rvint'):
        return pos == [source, 'boxsize', local.get('pos'), local.get('vel')]
    return pos == [source, 'boxsize', 'ppd'] and kw == {o: local.get(o) for o in Z['decoded']}


# --------------------------------------------------------------------------- R7
def replacement(chk):
    src = chk.src
    q = CLS + '_update_subsample_index_cols'
    fn = src.func(CAT, q)
    for cleaned in (True, False):
        kc = KeyCollector('self.halos').run(fn, dict(cleaned=cleaned, load_AB=['A', 'B']))
        rem = sorted(k for k, _ in kc.removes)
        add = sorted(k for k, _ in kc.adds)
        want_rem = sorted(['npstartA', 'npoutA', 'npstartB', 'npoutB'] + (['npstartA_merge', 'npoutA_merge', 'npstartB_merge', 'npoutB_merge'] if cleaned else []))
        vals = {}
        # locals bound once in the function are resolved to their defining expressions before the values are compared
        ldefs = {}
        for n_ in walk_no_nested(fn):
            if isinstance(n_, ast.Assign) and len(n_.targets) == 1 and isinstance(n_.targets[0], ast.Name):
                ldefs.setdefault(n_.targets[0].id, []).append(n_.value)
        ldefs = {k: v[0] for k, v in ldefs.items() if len(v) == 1}

        class _Res(ast.NodeTransformer):
            def visit_Name(self_, n_):
                if isinstance(n_.ctx, ast.Load) and n_.id in ldefs:
                    import copy as _c
                    return self_.visit(clone(ldefs[n_.id]))
                return n_
        for k, node in kc.adds:
            import copy as _c
            v_ = unparse(_Res().visit(clone(node.args[0]))) if node.args else ''
            vals.setdefault(k[:-1], set()).add(v_)
        X_ = 'npstartAB_new[AB]'
        okv = vals.get('npstart') == {f'{X_}[:-1]'} and len(vals.get('npout', ())) == 1 and \
            next(iter(vals['npout'])) in (f'np.diff({X_}).astype(np.uint32)', f'({X_}[1:] - {X_}[:-1]).astype(np.uint32)')
        chk.check(rem == want_rem and add == ['npoutA', 'npoutB', 'npstartA', 'npstartB'] and okv, 'C01-R7', CAT, q, f'cleaned={cleaned}: old index columns removed, new ones added',
                  f'removed {rem}; npstart <- new[:-1]; npout <- diff(new)',
                  f'removed {rem} (need {want_rem}); added {add} with values {vals}: halo rows would keep indices into the per-file particle arrays', node=fn)
    init = src.func(CAT, CLS + '__init__')
    t = unparse(init)
    order = t.find('self._compute_new_subsample_indices(') < t.find('self._load_subsamples(') < t.find('self._update_subsample_index_cols(')
    chk.check(order and t.find('self._compute_new_subsample_indices(') > 0, 'C01-R7', CAT, CLS + '__init__', 'compute offsets -> load with the old columns -> replace the columns', '',
              'the index columns are replaced before the subsamples were read with them', node=init, nontrivial=False)
