"""C13 -- the power-spectrum estimate has the symmetries of the estimator (decidable clauses only)."""
import ast

from ..core.flow import Flow
from ..core import own
from ..core.srcmodel import dotted, unparse, walk_no_nested, AnalysisError

PS = 'abacusnbody/analysis/power_spectrum.py'
TSC = 'abacusnbody/analysis/tsc.py'
CIC = 'abacusnbody/analysis/cic.py'
FILES = [PS, TSC, CIC]
SOURCES = ('pos', 'w', 'pos2', 'w2')
SINKS = ('N_mode', 'N_mode_poles', 'k_min', 'k_max', 'k_mid', 'mu_min', 'mu_max', 'mu_mid')
PARALLEL = [(PS, 'bin_kmu'), (PS, 'normalize_field'), (PS, '_normalize'), (PS, 'shift_field_fft'), (PS, 'get_raw_power'),
            (TSC, '_wrap_inplace'), (TSC, 'partition_parallel'), (TSC, '_tsc_parallel'), (TSC, '_zeros_parallel')]


def run(chk):
    src = chk.src
    chk.explanation = ('Static analysis decides the second sentence of C13 and the schedule part of the first. (R1) An interprocedural '
                       'dependence analysis (explicit and control dependences, shape separated from value, per-key tracking of the result '
                       'dictionaries, in-place mutation of array arguments through callee summaries) follows the particle arguments '
                       'pos, w, pos2, w2 of calc_power through painting, FFT, compensation and binning: neither their values nor their '
                       'lengths may reach N_mode, N_mode_poles, the k and mu range columns or the table shape. (R2) Every store under '
                       'prange in the kernels on that path is private to its iteration/thread, so the thread count can only change the '
                       'order of floating-point summation. Permutation, translation and cross=auto invariance are numerical identities '
                       'of the pipeline and are NOT decided here.')
    chk.rule('C13-R1', 'no dependence path from the values or lengths of pos, w, pos2, w2 to N_mode / N_mode_poles / k_* / mu_* / table shape', 8)
    chk.rule('C13-R3', 'the particle arrays are not modified in place on the calc_power path, except by the idempotent periodic wrap (needed for cross == auto with the same array, and for repeated calls)', 4)
    chk.rule('C13-R2', 'kernels on the calc_power path: every store under prange is iteration-, thread- or cursor-private', 8)
    chk.rule('C13-R4', 'the in-place normalisation passes (normalize_field, _normalize) update every cell of the mesh', 2)
    chk.rule('C13-R5', 'get_raw_power is the Hermitian product: the cross branch with field2 = field equals the auto branch, and a common phase factor (a whole-cell translation of both fields) cancels', 2)
    chk.rule('C13-R7', 'no thread-partitioned floating reduction feeds the spectrum: the field total is handed to normalize_field by its callers (never None)', 2)
    chk.rule('C13-R6', 'the second field goes through the same transform as the first: the two get_field_fft calls bind every parameter alike, up to (pos, w) <-> (pos2, w2); no two same-named arguments are crossed at a call on the path', 2)
    chk.assume('termination-insensitive: a raise/assert that depends on the particles is not counted as a dependence of the outputs')
    chk.assume('library calls (rfftn, numpy) are modelled as: result values and shape depend on the values and shapes of all arguments')
    chk.assume('permutation / translation / cross=auto invariance are not decided (numerical identities of the pipeline)')

    def resolver(call, rel):
        cn = dotted(call.func)
        if not cn or '.' in cn:
            return None
        for f in (rel, PS, TSC, CIC):
            if src.has_func(f, cn) and cn in src.functions(f):
                return (f, cn)
        return None
    fl = Flow(src, resolver)
    s = fl.summary(PS, 'calc_power')
    if s is None or s.ret is None:
        raise AnalysisError('calc_power: no return value summarised')
    # the returned Table is built from the dict `res`: find it through the Table(...) call
    fn = src.func(PS, 'calc_power')
    ret = s.ret
    # res is passed to Table(res, meta=meta): the summary of an unknown call merges keys; re-run to fetch `res` before the call
    from ..core.flow import _FnAnalysis, Val
    params = [a.arg for a in fn.args.args]
    env = {p: Val({f'p:{p}'}, {f's:{p}'}) for p in params}
    fa = _FnAnalysis(fl, PS, fn, env)
    # stop before the final `res = Table(res, meta=meta)` so that the per-key view is kept
    body = list(fn.body)
    cut = next((i for i, st in enumerate(body) if isinstance(st, ast.Assign) and unparse(st.targets[0]) == 'res' and 'Table(' in unparse(st.value)), None)
    if cut is None:
        raise AnalysisError('calc_power: result table construction not found')
    fa.block(body[:cut], frozenset())
    res = fa.env.get('res')
    if res is None or res.keys is None:
        raise AnalysisError('calc_power: result dictionary not tracked')
    bad_src = {f'{k}:{p}' for p in SOURCES for k in ('p', 's')}
    found = 0
    for key in SINKS:
        v = res.keys.get(key)
        if v is None:
            chk.refuted('C13-R1', PS, 'calc_power', f'column {key}', f'result column {key} is no longer produced', node=fn)
            continue
        found += 1
        hit = sorted((v.V | v.S) & bad_src)
        chk.check(not hit, 'C13-R1', PS, 'calc_power', f'column {key} independent of the particles',
                  f'depends on {sorted(x for x in (v.V | v.S) if not x.startswith("n:"))[:8]}',
                  f'{key} depends on {[h.replace("p:", "values of ").replace("s:", "length of ") for h in hit]}: mode counts / ranges / shape must be a function of the mesh and the binning only',
                  node=fn, nf=sorted(v.V | v.S))
    # table shape: number of rows = shape of the k columns; columns present: keys guarded by conditions
    shape_srcs = set()
    for k, v in res.keys.items():
        shape_srcs |= v.S
    hit = sorted(shape_srcs & bad_src - {f's:{p}' for p in ()})
    # power / k_avg values legitimately depend on the particles; their *shape* must not
    chk.check(not hit, 'C13-R1', PS, 'calc_power', 'shape of every result column independent of the particles', '',
              f'the shape of a result column depends on {hit}', node=fn)
    # positive control: power must depend on pos (otherwise the analysis lost the flow and proves nothing)
    pv = res.keys.get('power')
    chk.check(pv is not None and 'p:pos' in pv.V and 'p:w' in pv.V, 'C13-R1', PS, 'calc_power', 'control: power does depend on pos and w (flow is tracked end to end)', '',
              'the dependence analysis no longer sees pos/w reaching the power column: its independence verdicts would be vacuous', node=fn, nontrivial=False)
    # ---- R3 in-place modification of the inputs
    allowed = {(TSC, '_wrap_inplace')}
    for p in SOURCES:
        sites = s.sites.get(p, set())
        bad = sorted(x for x in sites if (x[0], x[1]) not in allowed)
        chk.check(not bad, 'C13-R3', PS, 'calc_power', f'argument {p} is only modified by the periodic wrap',
                  f'{len(sites)} in-place store site(s): {sorted({(x[1]) for x in sites})}',
                  f'{p} is modified in place by ' + '; '.join(f'{x[1]} ({x[0].split("/")[-1]}:{src.orig_line(x[0], x[2])}): {x[3]}' for x in bad[:3]) +
                  ': a second use of the same array (pos2 is pos, interlacing\'s second painting, a repeated call) sees shifted particles, so cross != auto',
                  node=fn, nf=sorted(f'{x[1]}:{x[3]}' for x in sites))
    # objects handed to both field transforms (the window W, the mesh parameters) must come back unchanged from the first
    for q_ in ('get_field_fft', 'get_interlaced_field_fft', 'get_field'):
        if not src.has_func(PS, q_):
            continue
        sq = fl.summary(PS, q_)
        if sq is None:
            continue
        for p_ in sq.params:
            if p_ in ('pos',):
                continue
            st_ = sq.sites.get(p_, set())
            bad_ = sorted(x for x in st_ if (x[0], x[1]) not in allowed)
            chk.check(not bad_, 'C13-R3', PS, q_, f'argument {p_} is not modified', '',
                      f'{q_} modifies its argument {p_} in place: ' + '; '.join(f'{x[1]} ({x[0].split("/")[-1]}:{src.orig_line(x[0], x[2])}): {x[3]}' for x in bad_[:2]) +
                      ': calc_power passes the same object to the transform of the second field, which then sees the modified values (cross != auto)',
                      node=src.func(PS, q_), nontrivial=False)
    # ---- R2
    for rel, q in PARALLEL:
        fnq = src.func(rel, q)
        loops = own.prange_loops(fnq)
        stores = own.classify_function(fnq)
        shared = [s_ for s_ in stores if s_.cls == 'shared']
        chk.check(not shared, 'C13-R2', rel, q, f'{len(loops)} prange loop(s), {len(stores)} store(s)', f'{sorted({s_.cls for s_ in stores})}',
                  '; '.join(f'{unparse(s_.node)} at line {s_.node.lineno} is shared' for s_ in shared[:3]) + ': the result would depend on the thread schedule',
                  node=shared[0].node if shared else fnq)
    # ---- R4: the element-wise normalisation passes visit every cell (a cell left un-normalised sits at a fixed mesh
    # position: translation invariance and thread-count independence are lost)
    for q in ('normalize_field', '_normalize'):
        fnq = src.func(PS, q)
        loops = own.prange_loops(fnq)
        if not loops:
            whole = [n for n in walk_no_nested(fnq) if isinstance(n, (ast.AugAssign, ast.Assign)) and 'field' in unparse(n)]
            chk.check(bool(whole), 'C13-R4', PS, q, 'whole-array normalisation (no explicit loop)', '', 'no normalisation statement found', node=fnq)
            continue
        for lp in loops:
            if any(s_.cls == 'shared' for s_ in own.classify_loop(fnq, lp)):
                continue          # already refuted by R2: coverage of a racy loop is not a meaningful question
            verdict, detail, X = own.flat_coverage(fnq, lp)
            flat = None
            if X is not None:
                d = [n for n in walk_no_nested(fnq) if isinstance(n, ast.Assign) and unparse(n.targets[0]) == X]
                flat = unparse(d[0].value) if len(d) == 1 else None
            if verdict == 'PROVEN' and flat not in ('field.reshape(-1)', 'field.ravel()'):
                verdict, detail = 'REFUTED', f'{X} = {flat}: the loop covers {X}, which is not the flattened field'
            if verdict == 'UNKNOWN':
                chk.unknown('C13-R4', PS, q, f'loop at line {lp.lineno} covers the flattened field', detail, node=lp)
            else:
                chk.check(verdict == 'PROVEN', 'C13-R4', PS, q, f'loop over {X} covers the flattened field', detail, detail, node=lp)
    # ---- R7: no thread-partitioned floating reduction feeds the result.  An array reduction (X.sum(), np.sum, mean) inside a
    # parallel=True kernel is split over the threads by numba: with a float32 mesh the total depends on the number of threads (and stops
    # absorbing cells near 2**24 of them).  normalize_field has one, as the fallback for a missing total; every caller on the path must
    # therefore hand it a total that cannot be None.
    fnq = src.func(PS, 'normalize_field')
    par = any('parallel' in unparse(d_) for d_ in fnq.decorator_list)
    reds = [n for n in walk_no_nested(fnq) if isinstance(n, ast.Call) and ((isinstance(n.func, ast.Attribute) and n.func.attr in ('sum', 'mean', 'prod', 'std', 'var')
                                                                         and not unparse(n.func.value).startswith(('np', 'numpy', 'math')))
                                                                        or dotted(n.func) in ('np.sum', 'np.mean', 'np.nansum', 'sum'))]
    guards = set()
    unguarded = []
    for r_ in reds:
        g_, cur = None, r_
        while cur is not None and cur is not fnq:
            par_ = getattr(cur, '_parent', None)
            if isinstance(par_, ast.If) and any(cur is x for x in par_.body) and isinstance(par_.test, ast.Compare) and isinstance(par_.test.ops[0], ast.Is) \
                    and unparse(par_.test.comparators[0]) == 'None' and isinstance(par_.test.left, ast.Name) and par_.test.left.id in [a.arg for a in fnq.args.args]:
                g_ = par_.test.left.id
                break
            cur = par_
        if g_ is None:
            unguarded.append(r_)
        else:
            guards.add(g_)
    if par:
        chk.check(not unguarded, 'C13-R7', PS, 'normalize_field', 'array reductions in the parallel kernel are only fallbacks for an omitted argument', f'{len(reds)} reduction(s), guarded by {sorted(guards)}',
                  f'{[unparse(u_) for u_ in unguarded[:2]]} is evaluated on every call: numba splits the reduction over the threads, a float32 total depends on the thread count', node=unguarded[0] if unguarded else fnq)
        ncalls = 0
        for f_ in src.tree(PS).body:
            if not isinstance(f_, ast.FunctionDef) or f_.name == 'normalize_field':
                continue
            ldefs = {}
            for n in walk_no_nested(f_):
                if isinstance(n, ast.Assign) and len(n.targets) == 1 and isinstance(n.targets[0], ast.Name):
                    ldefs.setdefault(n.targets[0].id, []).append(n.value)

            def nullable(e, d=0):
                if d > 6:
                    return True
                if isinstance(e, ast.Constant):
                    return e.value is None
                if isinstance(e, ast.IfExp):
                    return nullable(e.body, d + 1) or nullable(e.orelse, d + 1)
                if isinstance(e, ast.Name):
                    if e.id in [a.arg for a in f_.args.args + f_.args.kwonlyargs]:
                        return True
                    vs = ldefs.get(e.id)
                    return (not vs) or any(nullable(v, d + 1) for v in vs)
                if isinstance(e, ast.BoolOp):
                    return any(nullable(v, d + 1) for v in e.values)
                return False
            for c_ in walk_no_nested(f_):
                if isinstance(c_, ast.Call) and dotted(c_.func) == 'normalize_field':
                    ncalls += 1
                    for g_ in sorted(guards):
                        idx = [a.arg for a in fnq.args.args].index(g_)
                        v_ = next((k.value for k in c_.keywords if k.arg == g_), c_.args[idx] if idx < len(c_.args) else None)
                        okn = v_ is not None and not nullable(v_)
                        chk.check(okn, 'C13-R7', PS, f_.name, f'normalize_field receives its total ({g_}) from the caller, never None', unparse(v_) if v_ is not None else 'omitted',
                                  f'{g_} = {unparse(v_) if v_ is not None else "omitted"} can be None: normalize_field then takes field.sum() inside its parallel=True kernel, a float32 reduction '
                                  'split over the threads -- the normalisation, and with it every |delta_k|^2, depends on nthread (and saturates for large meshes)', node=c_)
        if guards and not ncalls:
            raise AnalysisError('normalize_field: no caller found')
    # ---- R5: estimator-level identities over complex algebra (a = ar + i ai, b = br + i bi as exact polynomials)
    _raw_power(chk, src)
    _siblings(chk, src)


def _raw_power(chk, src):
    from ..core.poly import Poly
    fn = src.func(PS, 'get_raw_power')
    params = [a.arg for a in fn.args.args]
    if len(params) != 2:
        raise AnalysisError('get_raw_power: signature changed')
    A = (Poly.sym('ar'), Poly.sym('ai'))
    B = (Poly.sym('br'), Poly.sym('bi'))

    class NotUnderstood(Exception):
        pass

    def ev(e, env):
        # complex values are pairs (re, im); real values are (re, 0)
        Z = Poly()
        if isinstance(e, ast.Name):
            if e.id in env:
                return env[e.id]
            raise NotUnderstood(e.id)
        if isinstance(e, ast.Constant) and isinstance(e.value, (int, float)):
            return (Poly.const(e.value) if isinstance(e.value, int) else Poly.from_float_literal(e.value), Z)
        if isinstance(e, ast.Attribute) and e.attr in ('real', 'imag'):
            v = ev(e.value, env)
            return (v[0] if e.attr == 'real' else v[1], Z)
        if isinstance(e, ast.Call):
            d = dotted(e.func)
            if d in ('np.conj', 'np.conjugate') and len(e.args) == 1:
                v = ev(e.args[0], env)
                return (v[0], -v[1])
            if isinstance(e.func, ast.Attribute) and e.func.attr in ('conj', 'conjugate') and not e.args:
                v = ev(e.func.value, env)
                return (v[0], -v[1])
            if d in ('np.abs', 'np.absolute', 'abs') and len(e.args) == 1:
                v = ev(e.args[0], env)
                return ('abs', v[0] * v[0] + v[1] * v[1])
            if d in ('np.real', 'np.imag') and len(e.args) == 1:
                v = ev(e.args[0], env)
                return (v[0] if d == 'np.real' else v[1], Z)
            if isinstance(e.func, ast.Attribute) and e.func.attr == 'copy' and not e.args and not e.keywords:
                return ev(e.func.value, env)
            raise NotUnderstood(unparse(e)[:40])
        if isinstance(e, ast.BinOp):
            if isinstance(e.op, ast.Pow) and isinstance(e.right, ast.Constant) and e.right.value == 2:
                v = ev(e.left, env)
                if v[0] == 'abs':
                    return (v[1], Z)
                return (v[0] * v[0] - v[1] * v[1], v[0] * v[1] * 2)
            a, b = ev(e.left, env), ev(e.right, env)
            if a[0] == 'abs' or b[0] == 'abs':
                raise NotUnderstood('|x| outside a square')
            if isinstance(e.op, ast.Add):
                return (a[0] + b[0], a[1] + b[1])
            if isinstance(e.op, ast.Sub):
                return (a[0] - b[0], a[1] - b[1])
            if isinstance(e.op, ast.Mult):
                return (a[0] * b[0] - a[1] * b[1], a[0] * b[1] + a[1] * b[0])
            raise NotUnderstood(unparse(e)[:40])
        if isinstance(e, ast.UnaryOp) and isinstance(e.op, ast.USub):
            v = ev(e.operand, env)
            return (-v[0], -v[1])
        raise NotUnderstood(unparse(e)[:40])

    def run(second_given, a, b, same=False):
        # values by name, and which names denote the same array OBJECT (an in-place update is seen through every name of the object;
        # same=True: the caller passed one object for both fields)
        env = {params[0]: a, params[1]: b if second_given else None}
        obj = {params[0]: 0, params[1]: 0 if same else 1}
        nobj = [2]

        def update(name, val):
            if name not in obj:
                raise NotUnderstood(f'in-place update of {name}')
            for n_ in [n_ for n_, o_ in obj.items() if o_ == obj[name]]:
                env[n_] = val

        def block(stmts):
            for st in stmts:
                if isinstance(st, ast.Expr) and isinstance(st.value, ast.Constant):
                    continue
                if isinstance(st, ast.Expr) and isinstance(st.value, ast.Call) and dotted(st.value.func) in ('np.conj', 'np.conjugate'):
                    c_ = st.value
                    outs = [k_.value for k_ in c_.keywords if k_.arg == 'out'] + list(c_.args[1:2])
                    if len(outs) == 1 and isinstance(outs[0], ast.Name) and len(c_.args) >= 1:
                        v = ev(c_.args[0], env)
                        update(outs[0].id, (v[0], -v[1]))
                        continue
                    raise NotUnderstood(unparse(st)[:40])
                if isinstance(st, ast.AugAssign) and isinstance(st.target, ast.Name) and isinstance(st.op, (ast.Mult, ast.Add, ast.Sub)):
                    a_, b_ = ev(st.target, env), ev(st.value, env)
                    if isinstance(st.op, ast.Mult):
                        v = (a_[0] * b_[0] - a_[1] * b_[1], a_[0] * b_[1] + a_[1] * b_[0])
                    elif isinstance(st.op, ast.Add):
                        v = (a_[0] + b_[0], a_[1] + b_[1])
                    else:
                        v = (a_[0] - b_[0], a_[1] - b_[1])
                    update(st.target.id, v)
                    continue
                if isinstance(st, ast.Expr):
                    raise NotUnderstood(unparse(st)[:40])
                if isinstance(st, ast.If):
                    t = unparse(st.test)
                    if t == f'{params[1]} is not None':
                        r = block(st.body if second_given else st.orelse)
                    elif t == f'{params[1]} is None':
                        r = block(st.orelse if second_given else st.body)
                    else:
                        raise NotUnderstood(t)
                    if r is not None:
                        return r
                    continue
                if isinstance(st, ast.Assign) and len(st.targets) == 1 and isinstance(st.targets[0], ast.Name):
                    env[st.targets[0].id] = ev(st.value, env)
                    if isinstance(st.value, ast.Name) and st.value.id in obj:
                        obj[st.targets[0].id] = obj[st.value.id]
                    else:
                        obj[st.targets[0].id] = nobj[0]
                        nobj[0] += 1
                    continue
                if isinstance(st, ast.Return):
                    return ev(st.value, env)
                raise NotUnderstood(unparse(st)[:40])
            return None
        return block(fn.body)
    # can a caller hand the SAME array object for both fields?  (a local bound to the other argument's name: `field2_fft = field_fft`)
    may_alias = []
    mfuncs = {f_.name: f_ for f_ in src.tree(PS).body if isinstance(f_, ast.FunctionDef)}

    def _arg(c_, callee, pname):
        ps_ = [a_.arg for a_ in callee.args.args]
        k = ps_.index(pname)
        if k < len(c_.args):
            return c_.args[k]
        return next((k_.value for k_ in c_.keywords if k_.arg == pname), None)

    def _alias_sites(fname, p0, p1, depth=0):
        callee = mfuncs.get(fname)
        if callee is None or depth > 3:
            return
        for f_ in mfuncs.values():
            for c_ in walk_no_nested(f_):
                if isinstance(c_, ast.Call) and dotted(c_.func) == fname:
                    a0, a1 = _arg(c_, callee, p0), _arg(c_, callee, p1)
                    if not (isinstance(a0, ast.Name) and isinstance(a1, ast.Name)):
                        continue
                    if a0.id == a1.id or any(isinstance(n_, ast.Assign) and len(n_.targets) == 1 and isinstance(n_.targets[0], ast.Name) and isinstance(n_.value, ast.Name)
                                             and {n_.targets[0].id, n_.value.id} == {a0.id, a1.id} for n_ in walk_no_nested(f_)):
                        may_alias.append(c_)
                    fps = [a_.arg for a_ in f_.args.args + f_.args.kwonlyargs]
                    if a0.id in fps and a1.id in fps and f_.name != fname:
                        _alias_sites(f_.name, a0.id, a1.id, depth + 1)
    _alias_sites('get_raw_power', params[0], params[1])
    try:
        auto = run(False, A, None)
        cross_same = run(True, A, A)
        cross = run(True, A, B)
        cross_obj = run(True, A, A, same=True) if may_alias else None
    except NotUnderstood as e:
        chk.unknown('C13-R5', PS, 'get_raw_power', 'estimator evaluated over complex algebra', f'not understood: {e}', node=fn)
        return
    Z = Poly()
    ok1 = auto is not None and cross_same is not None and auto[0] == cross_same[0] and auto[1] == Z and cross_same[1] == Z
    chk.check(ok1, 'C13-R5', PS, 'get_raw_power', 'cross power of a field with itself == auto power (real)', f'{auto[0] if auto else None}',
              f'auto branch gives {auto}, cross branch with field2 = field gives {cross_same}: cross != auto for the same particles', node=fn)
    if may_alias:
        ok1b = cross_obj is not None and auto is not None and cross_obj[0] == auto[0] and cross_obj[1] == Z
        chk.check(ok1b, 'C13-R5', PS, 'get_raw_power', 'cross power with ONE array object passed for both fields == auto power', f'{len(may_alias)} call site(s) can pass the same object',
                  f'a caller binds the second field to the first (line {may_alias[0].lineno}) and the estimator updates its first argument in place: with one object for both fields '
                  f'every in-place step changes both operands, the result is {cross_obj[0] if cross_obj else None} instead of {auto[0] if auto else None} -- '
                  'calc_power(pos, L, pos2=pos) no longer equals the auto power', node=may_alias[0])
    # common phase: a -> a e^{i t}, b -> b e^{i t} with c = cos t, s = sin t, s^2 = 1 - c^2
    c, s_ = Poly.sym('c'), Poly.sym('s')
    rot = lambda z: (z[0] * c - z[1] * s_, z[0] * s_ + z[1] * c)
    try:
        cross_rot = run(True, rot(A), rot(B))
        auto_rot = run(False, rot(A), None)
    except NotUnderstood as e:
        chk.unknown('C13-R5', PS, 'get_raw_power', 'phase invariance', f'not understood: {e}', node=fn)
        return

    def reduce(p):
        # s^2 -> 1 - c^2
        for _ in range(6):
            out, changed = Poly(), False
            for m, co in p.t.items():
                d = dict(m)
                k = d.get('s', 0)
                if k >= 2:
                    d['s'] = k - 2
                    if d['s'] == 0:
                        del d['s']
                    base = Poly({tuple(sorted(d.items())): co})
                    out = out + base * (Poly.const(1) - c * c)
                    changed = True
                else:
                    out = out + Poly({m: co})
            p = out
            if not changed:
                break
        return p
    ok2 = cross is not None and reduce(cross_rot[0] - cross[0]) == Z and reduce(auto_rot[0] - auto[0]) == Z
    chk.check(ok2, 'C13-R5', PS, 'get_raw_power', 'a phase factor common to both fields cancels (whole-cell translations leave every mode power unchanged)', '',
              f'the mode power changes under a common phase: cross = {cross[0] if cross else None}: translating all particles by whole cells would change the estimate', node=fn)


# --------------------------------------------------------------------------- R6
def _bind(call, callee):
    """parameter name -> argument text of a call, through the callee's signature (None when it cannot be bound)."""
    params = [a.arg for a in callee.args.posonlyargs + callee.args.args]
    # `*name` / `**name` of a local bound exactly once (in the calling function) to a tuple / list display, resp. to dict(k=v, ...) or a
    # dict display with string keys, is that display spliced in
    encl = call
    while encl is not None and not isinstance(encl, ast.FunctionDef):
        encl = getattr(encl, '_parent', None)

    def _single(name):
        if encl is None:
            return None
        ds = [n for n in walk_no_nested(encl) if isinstance(n, ast.Name) and n.id == name and isinstance(n.ctx, ast.Store)]
        vs = [n for n in walk_no_nested(encl) if isinstance(n, ast.Assign) and len(n.targets) == 1 and isinstance(n.targets[0], ast.Name) and n.targets[0].id == name]
        return vs[0].value if len(ds) == 1 and len(vs) == 1 else None
    args, kws = [], []
    for a in call.args:
        if isinstance(a, ast.Starred):
            v = _single(a.value.id) if isinstance(a.value, ast.Name) else (a.value if isinstance(a.value, (ast.Tuple, ast.List)) else None)
            if not isinstance(v, (ast.Tuple, ast.List)) or any(isinstance(e, ast.Starred) for e in v.elts):
                return None
            args += list(v.elts)
        else:
            args.append(a)
    for k in call.keywords:
        if k.arg is None:
            v = _single(k.value.id) if isinstance(k.value, ast.Name) else None
            if isinstance(v, ast.Call) and dotted(v.func) == 'dict' and not v.args and all(kk.arg is not None for kk in v.keywords):
                kws += [(kk.arg, kk.value) for kk in v.keywords]
            elif isinstance(v, ast.Dict) and all(isinstance(kk, ast.Constant) and isinstance(kk.value, str) for kk in v.keys):
                kws += [(kk.value, vv) for kk, vv in zip(v.keys, v.values)]
            else:
                return None
        else:
            kws.append((k.arg, k.value))
    if len(args) > len(params):
        return None
    b = {p: unparse(a) for p, a in zip(params, args)}
    for karg, kval in kws:
        if karg in b:
            return None
        b[karg] = unparse(kval)
    return b
    for k in call.keywords:
        if k.arg in b:
            return None
        b[k.arg] = unparse(k.value)
    return b


def _siblings(chk, src):
    fn = src.func(PS, 'calc_power')
    callee = src.func(PS, 'get_field_fft')
    calls = [n for n in walk_no_nested(fn) if isinstance(n, ast.Call) and dotted(n.func) == 'get_field_fft']
    if len(calls) == 2:
        b1, b2 = _bind(calls[0], callee), _bind(calls[1], callee)
        if b1 is None or b2 is None:
            chk.unknown('C13-R6', PS, 'calc_power', 'both fields transformed alike', 'a get_field_fft call cannot be bound to the signature', node=calls[0])
        else:
            import re
            sub = lambda t: re.sub(r'\bw\b', 'w2', re.sub(r'\bpos\b', 'pos2', t))
            diff = [p for p in sorted(set(b1) | set(b2)) if sub(b1.get(p, '<default>')) != b2.get(p, '<default>')]
            chk.check(not diff, 'C13-R6', PS, 'calc_power', 'both fields transformed alike', f'{len(b1)} parameters bound alike',
                      'the second field is transformed differently from the first: ' + '; '.join(f'{p}: {b1.get(p, "<default>")} vs {b2.get(p, "<default>")}' for p in diff[:4]) +
                      ': with pos2 = pos the cross spectrum is no longer the auto spectrum', node=calls[1])
    else:
        chk.assumed('C13-R6', PS, 'calc_power', 'both fields transformed alike', f'{len(calls)} get_field_fft call(s): not the two-call form', node=fn)
    # crossed same-named arguments on the path (argument named like parameter j passed for parameter i and vice versa)
    crossed, ncalls = [], 0
    for q in ('calc_power', 'get_field_fft', 'get_interlaced_field_fft', 'get_field', 'calc_pk_from_deltak'):
        if not src.has_func(PS, q):
            continue
        f = src.func(PS, q)
        for c in walk_no_nested(f):
            cn = dotted(c.func) if isinstance(c, ast.Call) else None
            if not cn or '.' in cn or not src.has_func(PS, cn) or cn not in src.functions(PS):
                continue
            b = _bind(c, src.func(PS, cn))
            if b is None:
                continue
            ncalls += 1
            for p, a in b.items():
                if a != p and a in b and b[a] == p:
                    crossed.append((q, c, p, a))
    chk.check(not crossed, 'C13-R6', PS, 'calc_power', 'no crossed same-named arguments on the calc_power path', f'{ncalls} calls bound to their signatures',
              '; '.join(f'{q} line {src.orig_line_of(PS, c)}: {dotted(c.func)} receives {a} as {p} and {p} as {a}' for q, c, p, a in crossed[:2]), node=crossed[0][1] if crossed else fn)
