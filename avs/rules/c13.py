"""C13 -- the power-spectrum estimate has the symmetries of the estimator (decidable clauses only)."""
import ast

from ..core.flow import Flow
from ..core import own
from ..core.srcmodel import dotted, unparse, walk_no_nested, AnalysisError

PS = 'abacusnbody/analysis/power_spectrum.py'
TSC = 'abacusnbody/analysis/tsc.py'
CIC = 'abacusnbody/analysis/cic.py'
FILES = [PS, TSC, CIC]
SOURCES = ('pos', 'w', 'pos2', 'w2')
SINKS = ('N_mode', 'N_mode_poles', 'k_min', 'k_max', 'k_mid', 'mu_min', 'mu_max', 'mu_mid')
PARALLEL = [(PS, 'bin_kmu'), (PS, 'normalize_field'), (PS, '_normalize'), (PS, 'shift_field_fft'), (PS, 'get_raw_power'),
            (TSC, '_wrap_inplace'), (TSC, 'partition_parallel'), (TSC, '_tsc_parallel'), (TSC, '_zeros_parallel')]


def run(chk):
    src = chk.src
    chk.explanation = ('Static analysis decides the second sentence of C13 and the schedule part of the first. (R1) An interprocedural '
                       'dependence analysis (explicit and control dependences, shape separated from value, per-key tracking of the result '
                       'dictionaries, in-place mutation of array arguments through callee summaries) follows the particle arguments '
                       'pos, w, pos2, w2 of calc_power through painting, FFT, compensation and binning: neither their values nor their '
                       'lengths may reach N_mode, N_mode_poles, the k and mu range columns or the table shape. (R2) Every store under '
                       'prange in the kernels on that path is private to its iteration/thread, so the thread count can only change the '
                       'order of floating-point summation. Permutation, translation and cross=auto invariance are numerical identities '
                       'of the pipeline and are NOT decided here.')
    chk.rule('C13-R1', 'no dependence path from the values or lengths of pos, w, pos2, w2 to N_mode / N_mode_poles / k_* / mu_* / table shape', 8)
    chk.rule('C13-R3', 'the particle arrays are not modified in place on the calc_power path, except by the idempotent periodic wrap (needed for cross == auto with the same array, and for repeated calls)', 4)
    chk.rule('C13-R2', 'kernels on the calc_power path: every store under prange is iteration-, thread- or cursor-private', 8)
    chk.rule('C13-R4', 'the in-place normalisation passes (normalize_field, _normalize) update every cell of the mesh', 2)
    chk.assume('termination-insensitive: a raise/assert that depends on the particles is not counted as a dependence of the outputs')
    chk.assume('library calls (rfftn, numpy) are modelled as: result values and shape depend on the values and shapes of all arguments')
    chk.assume('permutation / translation / cross=auto invariance are not decided (numerical identities of the pipeline)')

    def resolver(call, rel):
        cn = dotted(call.func)
        if not cn or '.' in cn:
            return None
        for f in (rel, PS, TSC, CIC):
            if src.has_func(f, cn) and cn in src.functions(f):
                return (f, cn)
        return None
    fl = Flow(src, resolver)
    s = fl.summary(PS, 'calc_power')
    if s is None or s.ret is None:
        raise AnalysisError('calc_power: no return value summarised')
    # the returned Table is built from the dict `res`: find it through the Table(...) call
    fn = src.func(PS, 'calc_power')
    ret = s.ret
    # res is passed to Table(res, meta=meta): the summary of an unknown call merges keys; re-run to fetch `res` before the call
    from ..core.flow import _FnAnalysis, Val
    params = [a.arg for a in fn.args.args]
    env = {p: Val({f'p:{p}'}, {f's:{p}'}) for p in params}
    fa = _FnAnalysis(fl, PS, fn, env)
    # stop before the final `res = Table(res, meta=meta)` so that the per-key view is kept
    body = list(fn.body)
    cut = next((i for i, st in enumerate(body) if isinstance(st, ast.Assign) and unparse(st.targets[0]) == 'res' and 'Table(' in unparse(st.value)), None)
    if cut is None:
        raise AnalysisError('calc_power: result table construction not found')
    fa.block(body[:cut], frozenset())
    res = fa.env.get('res')
    if res is None or res.keys is None:
        raise AnalysisError('calc_power: result dictionary not tracked')
    bad_src = {f'{k}:{p}' for p in SOURCES for k in ('p', 's')}
    found = 0
    for key in SINKS:
        v = res.keys.get(key)
        if v is None:
            chk.refuted('C13-R1', PS, 'calc_power', f'column {key}', f'result column {key} is no longer produced', node=fn)
            continue
        found += 1
        hit = sorted((v.V | v.S) & bad_src)
        chk.check(not hit, 'C13-R1', PS, 'calc_power', f'column {key} independent of the particles',
                  f'depends on {sorted(x for x in (v.V | v.S) if not x.startswith("n:"))[:8]}',
                  f'{key} depends on {[h.replace("p:", "values of ").replace("s:", "length of ") for h in hit]}: mode counts / ranges / shape must be a function of the mesh and the binning only',
                  node=fn, nf=sorted(v.V | v.S))
    # table shape: number of rows = shape of the k columns; columns present: keys guarded by conditions
    shape_srcs = set()
    for k, v in res.keys.items():
        shape_srcs |= v.S
    hit = sorted(shape_srcs & bad_src - {f's:{p}' for p in ()})
    # power / k_avg values legitimately depend on the particles; their *shape* must not
    chk.check(not hit, 'C13-R1', PS, 'calc_power', 'shape of every result column independent of the particles', '',
              f'the shape of a result column depends on {hit}', node=fn)
    # positive control: power must depend on pos (otherwise the analysis lost the flow and proves nothing)
    pv = res.keys.get('power')
    chk.check(pv is not None and 'p:pos' in pv.V and 'p:w' in pv.V, 'C13-R1', PS, 'calc_power', 'control: power does depend on pos and w (flow is tracked end to end)', '',
              'the dependence analysis no longer sees pos/w reaching the power column: its independence verdicts would be vacuous', node=fn, nontrivial=False)
    # ---- R3 in-place modification of the inputs
    allowed = {(TSC, '_wrap_inplace')}
    for p in SOURCES:
        sites = s.sites.get(p, set())
        bad = sorted(x for x in sites if (x[0], x[1]) not in allowed)
        chk.check(not bad, 'C13-R3', PS, 'calc_power', f'argument {p} is only modified by the periodic wrap',
                  f'{len(sites)} in-place store site(s): {sorted({(x[1]) for x in sites})}',
                  f'{p} is modified in place by ' + '; '.join(f'{x[1]} ({x[0].split("/")[-1]}:{x[2]}): {x[3]}' for x in bad[:3]) +
                  ': a second use of the same array (pos2 is pos, interlacing\'s second painting, a repeated call) sees shifted particles, so cross != auto',
                  node=fn, nf=sorted(f'{x[1]}:{x[3]}' for x in sites))
    # ---- R2
    for rel, q in PARALLEL:
        fnq = src.func(rel, q)
        loops = own.prange_loops(fnq)
        stores = own.classify_function(fnq)
        shared = [s_ for s_ in stores if s_.cls == 'shared']
        chk.check(not shared, 'C13-R2', rel, q, f'{len(loops)} prange loop(s), {len(stores)} store(s)', f'{sorted({s_.cls for s_ in stores})}',
                  '; '.join(f'{unparse(s_.node)} at line {s_.node.lineno} is shared' for s_ in shared[:3]) + ': the result would depend on the thread schedule',
                  node=shared[0].node if shared else fnq)
    # ---- R4: the element-wise normalisation passes visit every cell (a cell left un-normalised sits at a fixed mesh
    # position: translation invariance and thread-count independence are lost)
    for q in ('normalize_field', '_normalize'):
        fnq = src.func(PS, q)
        loops = own.prange_loops(fnq)
        if not loops:
            whole = [n for n in walk_no_nested(fnq) if isinstance(n, (ast.AugAssign, ast.Assign)) and 'field' in unparse(n)]
            chk.check(bool(whole), 'C13-R4', PS, q, 'whole-array normalisation (no explicit loop)', '', 'no normalisation statement found', node=fnq)
            continue
        for lp in loops:
            if any(s_.cls == 'shared' for s_ in own.classify_loop(fnq, lp)):
                continue          # already refuted by R2: coverage of a racy loop is not a meaningful question
            verdict, detail, X = own.flat_coverage(fnq, lp)
            flat = None
            if X is not None:
                d = [n for n in walk_no_nested(fnq) if isinstance(n, ast.Assign) and unparse(n.targets[0]) == X]
                flat = unparse(d[0].value) if len(d) == 1 else None
            if verdict == 'PROVEN' and flat not in ('field.reshape(-1)', 'field.ravel()'):
                verdict, detail = 'REFUTED', f'{X} = {flat}: the loop covers {X}, which is not the flattened field'
            if verdict == 'UNKNOWN':
                chk.unknown('C13-R4', PS, q, f'loop at line {lp.lineno} covers the flattened field', detail, node=lp)
            else:
                chk.check(verdict == 'PROVEN', 'C13-R4', PS, q, f'loop over {X} covers the flattened field', detail, detail, node=lp)
